/-
  Grid track sizing (src/compute/grid/track_sizing.rs), as a pure function of the tracks, the items' spans and the
  items' intrinsic contributions.

  The only places where track sizing calls back into the tree are the three per-item contributions
  (`min_content_contribution`, `max_content_contribution`, `minimum_contribution`, each cached per run and axis).
  They are **oracle parameters** here (`Item.minContent/maxContent/minimum`, margins included), so the whole
  pass is a pure function.  Baseline shims (`resolve_item_baselines`) and the other-axis estimate are therefore outside
  this model.  `f32::INFINITY` growth limits / limits are the explicit `Ext.inf`.

  Loops (`find_size_of_fr`, `distribute_space_up_to_limits`, the item batcher) take fuel; running out of fuel leaves
  the loop like a `break` — Props/C03Tracks.lean proves which fuel is never exhausted.
  No Mathlib.
-/
import TaffyVerif.Model.GridTracksInit

namespace GridTracks

namespace Ext
variable {α : Type} [Num α]
/-- `x < e` -/
def gtF (e : Ext α) (x : α) : Bool := match e with | .fin g => Num.flt x g | .inf => true
/-- `e < x` -/
def ltF (e : Ext α) (x : α) : Bool := match e with | .fin g => Num.flt g x | .inf => false
/-- `x <= e` -/
def geF (e : Ext α) (x : α) : Bool := match e with | .fin g => Num.fle x g | .inf => true
/-- `e == x` for finite `x` -/
def eqF (e : Ext α) (x : α) : Bool := match e with | .fin g => Num.feq g x | .inf => false
def isInf : Ext α → Bool | .inf => true | .fin _ => false
/-- `f32_min(a, b)` -/
def min (a b : Ext α) : Ext α :=
  match a, b with
  | .fin x, .fin y => .fin (Num.fmin x y)
  | .fin x, .inf => .fin x
  | .inf, b => b
/-- `f32_min(e, x)` with finite `x` -/
def minF (e : Ext α) (x : α) : α := match e with | .fin g => Num.fmin g x | .inf => x
def addF (e : Ext α) (x : α) : Ext α := match e with | .fin g => .fin (g + x) | .inf => .inf
/-- `(e - x) / p`; a positive finite numerator over an exact zero is `+∞` as in f32 -/
def subDiv (e : Ext α) (x p : α) : Ext α :=
  match e with
  | .fin g => if Num.feq p 0 then .inf else .fin ((g - x) / p)
  | .inf => .inf
def ofOption : Option α → Ext α | some v => .fin v | none => .inf
end Ext

/-- a grid item as track sizing sees it: the tracks `start..end` it spans (zero-based track numbers of the sized
axis, `start < end`), whether it is a scroll container in this axis, and its three contributions -/
structure Item (α : Type) where
  start : Nat
  «end» : Nat
  scroll : Bool
  minContent : α
  maxContent : α
  minimum : α
  crossesFlexible : Bool := false
  crossesIntrinsic : Bool := false
deriving Repr, BEq, Inhabited

section Sizing
variable {α : Type} [Num α]

/-- `distribute_space_up_to_limits`' `THRESHOLD = 0.01` -/
def thresholdDist : α := Num.ofNat 1 / Num.ofNat 100
/-- `distribute_item_space_to_base_size_inner`'s `THRESHOLD = 0.000001` -/
def thresholdItem : α := Num.ofNat 1 / Num.ofNat 1000000

namespace GridTrack
/-- `fit_content_limit` -/
def fitContentLimit (t : GridTrack α) (axisAvail : Option α) : Ext α :=
  match t.maxFn with
  | .fitContentPx v => .fin v
  | .fitContentPercent v => match axisAvail with | some space => .fin (space * v) | none => .inf
  | _ => .inf
/-- `fit_content_limited_growth_limit` -/
def fitContentLimitedGrowthLimit (t : GridTrack α) (axisAvail : Option α) : Ext α :=
  Ext.min t.growthLimit (t.fitContentLimit axisAvail)
/-- `if growth_limit == INFINITY { base_size } else { growth_limit }` -/
def growthLimitOrBase (t : GridTrack α) : α :=
  match t.growthLimit with | .fin g => g | .inf => t.baseSize
end GridTrack

/-- the slice `&mut axis_tracks[lo..hi]` handed to `f` -/
def onRange (l : List (GridTrack α)) (lo hi : Nat) (f : List (GridTrack α) → List (GridTrack α)) :
    List (GridTrack α) :=
  l.take lo ++ f ((l.drop lo).take (hi - lo)) ++ l.drop hi

def sliceOf (l : List (GridTrack α)) (lo hi : Nat) : List (GridTrack α) := (l.drop lo).take (hi - lo)

/-- `item.track_range_excluding_lines(axis)` = `2·start+1 .. 2·end` -/
def Item.lo (it : Item α) : Nat := 2 * it.start + 1
def Item.hi (it : Item α) : Nat := 2 * it.end
def Item.span (it : Item α) : Nat := it.end - it.start

/-! ### 11.4 `initialize_track_sizes` -/

def initializeTrackSize (axisInner : Option α) (t : GridTrack α) : GridTrack α :=
  let base := (t.minFn.definiteValue axisInner).getD 0
  let gl : Ext α := Ext.ofOption (t.maxFn.definiteValue axisInner)
  let gl := if gl.ltF base then .fin base else gl
  { t with baseSize := base, growthLimit := gl }

def initializeTrackSizes (tracks : List (GridTrack α)) (axisInner : Option α) : List (GridTrack α) :=
  tracks.map (initializeTrackSize axisInner)

/-! ### `distribute_space_up_to_limits` -/

/-- one comparison step of `min_by(total_cmp)` over extended values (no NaN): keeps the first of equal minima -/
def extStep (acc y : Ext α) : Ext α := match acc, y with
  | .fin a, .fin b => if Num.flt b a then .fin b else .fin a
  | .inf, y => y
  | acc, .inf => acc

/-- `min_by(total_cmp)` over extended values -/
def extMinList : List (Ext α) → Option (Ext α)
  | [] => none
  | x :: rest => some (rest.foldl extStep x)

/-- one `while` iteration's `for track in tracks.iter_mut().filter(is_affected)` loop -/
def distributeApply (iterInc : α) (isAffected : GridTrack α → Bool) (proportion : GridTrack α → α)
    (affectedProp : GridTrack α → α) (limit : GridTrack α → Ext α) :
    List (GridTrack α) → α → List (GridTrack α) × α
  | [], space => ([], space)
  | t :: rest, space =>
    if isAffected t then
      let increase := iterInc * proportion t
      -- `increase > 0.0 && is_growable && affected_property + increase <= limit + THRESHOLD`
      if Num.flt 0 increase && ((limit t).gtF (affectedProp t + t.itemIncurredIncrease) &&
          ((limit t).addF thresholdDist).geF (affectedProp t + increase)) then
        let (rest', space') := distributeApply iterInc isAffected proportion affectedProp limit rest (space - increase)
        ({ t with itemIncurredIncrease := t.itemIncurredIncrease + increase } :: rest', space')
      else
        let (rest', space') := distributeApply iterInc isAffected proportion affectedProp limit rest space
        (t :: rest', space')
    else
      let (rest', space') := distributeApply iterInc isAffected proportion affectedProp limit rest space
      (t :: rest', space')

/-- `distribute_space_up_to_limits`; returns the space left over and the tracks -/
def distributeSpaceUpToLimits (fuel : Nat) (space : α) (tracks : List (GridTrack α))
    (isAffected : GridTrack α → Bool) (proportion : GridTrack α → α) (affectedProp : GridTrack α → α)
    (limit : GridTrack α → Ext α) : α × List (GridTrack α) :=
  match fuel with
  | 0 => (space, tracks)
  | fuel + 1 =>
    if !Num.flt thresholdDist space then (space, tracks) else
    let growable := tracks.filter fun t =>
      (limit t).gtF (affectedProp t + t.itemIncurredIncrease) && isAffected t
    let propSum : α := sumF (growable.map proportion)
    if Num.feq propSum 0 then (space, tracks) else
    match extMinList (growable.map fun t => (limit t).subDiv (affectedProp t) (proportion t)) with
    | none => (space, tracks)   -- `unwrap` on an empty iterator: unreachable, `propSum ≠ 0` needs a growable track
    | some minIncreaseLimit =>
      let iterInc := minIncreaseLimit.minF (space / propSum)
      let (tracks', space') := distributeApply iterInc isAffected proportion affectedProp limit tracks space
      distributeSpaceUpToLimits fuel space' tracks' isAffected proportion affectedProp limit

/-- fuel used by the pipeline for `distribute_space_up_to_limits` on `n` tracks -/
def distFuel (n : Nat) : Nat := 2 * n + 8

/-! ### 11.5.1 distributing an item's space -/

inductive ContributionType where
  | minimum
  | maximum
deriving Repr, BEq, DecidableEq

/-- the filter of "3. Distribute remaining span beyond limits" -/
def beyondLimitsFilter (ty : ContributionType) (t : GridTrack α) : Bool :=
  match ty with
  | .minimum => t.maxFn.isIntrinsic
  | .maximum => t.minFn.isMaxContent || t.maxFn.isMaxOrFitContent

/-- step 4 of a base-size distribution: planned increase := max(planned, item-incurred); reset the latter -/
def finishBaseDistribution (t : GridTrack α) : GridTrack α :=
  let t := if Num.flt t.baseSizePlannedIncrease t.itemIncurredIncrease
    then { t with baseSizePlannedIncrease := t.itemIncurredIncrease } else t
  { t with itemIncurredIncrease := 0 }

/-- `distribute_item_space_to_base_size_inner` on the spanned slice -/
def distributeItemSpaceToBaseSizeInner (space : α) (tracks : List (GridTrack α))
    (isAffected : GridTrack α → Bool) (proportion : GridTrack α → α) (limit : GridTrack α → Ext α)
    (ty : ContributionType) : List (GridTrack α) :=
  if Num.feq space 0 || !tracks.any isAffected then tracks else
  let trackSizes : α := sumF (tracks.map (·.baseSize))
  let extra := Num.fmax 0 (space - trackSizes)
  let r1 := distributeSpaceUpToLimits (distFuel tracks.length) extra tracks isAffected proportion (·.baseSize) limit
  let tracks2 :=
    if Num.flt thresholdItem r1.1 then
      let n := (r1.2.filter fun t => isAffected t && beyondLimitsFilter ty t).length
      let filter : GridTrack α → Bool := if n == 0 then fun _ => true else beyondLimitsFilter ty
      (distributeSpaceUpToLimits (distFuel r1.2.length) r1.1 r1.2 filter proportion (·.baseSize) limit).2
    else r1.2
  tracks2.map finishBaseDistribution

/-- `distribute_item_space_to_base_size` -/
def distributeItemSpaceToBaseSize (isFlex useFlexFactor : Bool) (space : α) (tracks : List (GridTrack α))
    (isAffected : GridTrack α → Bool) (limit : GridTrack α → Ext α) (ty : ContributionType) :
    List (GridTrack α) :=
  if isFlex then
    let filter := fun (t : GridTrack α) => t.isFlexible && isAffected t
    if useFlexFactor then
      distributeItemSpaceToBaseSizeInner space tracks filter (·.flexFactor) limit ty
    else
      distributeItemSpaceToBaseSizeInner space tracks filter (fun _ => 1) limit ty
  else
    distributeItemSpaceToBaseSizeInner space tracks isAffected (fun _ => 1) limit ty

/-- step 4 of a growth-limit distribution -/
def finishGrowthDistribution (t : GridTrack α) : GridTrack α :=
  let t := if Num.flt t.growthLimitPlannedIncrease t.itemIncurredIncrease
    then { t with growthLimitPlannedIncrease := t.itemIncurredIncrease } else t
  { t with itemIncurredIncrease := 0 }

/-- `distribute_item_space_to_growth_limit` -/
def distributeItemSpaceToGrowthLimit (space : α) (tracks : List (GridTrack α))
    (isAffected : GridTrack α → Bool) (axisInner : Option α) : List (GridTrack α) :=
  if Num.feq space 0 || (tracks.filter isAffected).length == 0 then tracks else
  let trackSizes : α := sumF (tracks.map (·.growthLimitOrBase))
  let extra := Num.fmax 0 (space - trackSizes)
  let growable := fun (t : GridTrack α) =>
    isAffected t && (t.infinitelyGrowable || (t.fitContentLimitedGrowthLimit axisInner).isInf)
  let n := (tracks.filter growable).length
  let tracks :=
    if n > 0 then
      let inc := extra / Num.ofNat n
      tracks.map fun t => if growable t then { t with itemIncurredIncrease := inc } else t
    else
      (distributeSpaceUpToLimits (distFuel tracks.length) extra tracks isAffected (fun _ => 1)
        (·.growthLimitOrBase) (fun t => t.fitContentLimit axisInner)).2
  tracks.map finishGrowthDistribution

/-- `flush_planned_base_size_increases` -/
def flushPlannedBaseSizeIncreases (tracks : List (GridTrack α)) : List (GridTrack α) :=
  tracks.map fun t => { t with baseSize := t.baseSize + t.baseSizePlannedIncrease, baseSizePlannedIncrease := 0 }

/-- `flush_planned_growth_limit_increases` -/
def flushPlannedGrowthLimitIncreases (tracks : List (GridTrack α)) (setInfinitelyGrowable : Bool) :
    List (GridTrack α) :=
  tracks.map fun t =>
    let t :=
      if Num.flt 0 t.growthLimitPlannedIncrease then
        let gl : Ext α := match t.growthLimit with
          | .inf => .fin (t.baseSize + t.growthLimitPlannedIncrease)
          | .fin g => .fin (g + t.growthLimitPlannedIncrease)
        { t with growthLimit := gl, infinitelyGrowable := setInfinitelyGrowable }
      else { t with infinitelyGrowable := false }
    { t with growthLimitPlannedIncrease := 0 }

/-- "if any track's growth limit is now less than its base size, increase its growth limit to match" -/
def raiseGrowthLimits (tracks : List (GridTrack α)) : List (GridTrack α) :=
  tracks.map fun t => if t.growthLimit.ltF t.baseSize then { t with growthLimit := .fin t.baseSize } else t

/-! ### 11.5 `resolve_intrinsic_track_sizes` -/

/-- `item.spanned_track_limit` -/
def spannedTrackLimit (it : Item α) (tracks : List (GridTrack α)) (axisInner : Option α) : Option α :=
  (allSome ((sliceOf tracks it.lo it.hi).map fun t => t.maxFn.definiteLimit axisInner)).map sumF

/-- the space of step "1. For intrinsic minimums" and of the span-1 `auto` arm -/
def minimumSpace (it : Item α) (avail : AvailableSpace α) (limit : Option α) : α :=
  match avail with
  | .definite _ => it.minimum
  | _ => if !it.scroll then Num.fmax (MaybeMath.fo_min it.minContent limit) it.minimum else it.minimum

/-- the fast path for a batch of non-flex items spanning one track: what one item does to its track -/
def sizeSpanOneTrack (avail : AvailableSpace α) (axisInner : Option α) (it : Item α) (track : GridTrack α) :
    GridTrack α :=
  let newBase : α := match track.minFn with
    | .minContent => Num.fmax track.baseSize it.minContent
    | .percent _ => if axisInner.isNone then Num.fmax track.baseSize it.minContent else track.baseSize
    | .maxContent => Num.fmax track.baseSize it.maxContent
    | .auto => Num.fmax track.baseSize (minimumSpace it avail (track.maxFn.definiteLimit axisInner))
    | .length _ => track.baseSize
  let track := { track with baseSize := newBase }
  if track.maxFn.isFitContent then
    let p := if !it.scroll then Num.fmax track.growthLimitPlannedIncrease it.minContent
      else track.growthLimitPlannedIncrease
    let maxCC := (track.fitContentLimit axisInner).minF it.maxContent
    { track with growthLimitPlannedIncrease := Num.fmax p maxCC }
  else if track.maxFn.isMaxContentAlike || (track.maxFn.usesPercentage && axisInner.isNone) then
    { track with growthLimitPlannedIncrease := Num.fmax track.growthLimitPlannedIncrease it.maxContent }
  else if track.maxFn.isIntrinsic then
    { track with growthLimitPlannedIncrease := Num.fmax track.growthLimitPlannedIncrease it.minContent }
  else track

/-- … applied to the track the item sits in (`axis_tracks[item.placement_indexes(axis).start + 1]`) -/
def sizeSpanOneItem (avail : AvailableSpace α) (axisInner : Option α) (tracks : List (GridTrack α))
    (it : Item α) : List (GridTrack α) :=
  tracks.modify it.lo (sizeSpanOneTrack avail axisInner it)

/-- the `for track in axis_tracks.iter_mut()` loop closing the span-1 fast path: one track -/
def flushSpanOneTrack (t : GridTrack α) : GridTrack α :=
  let gl : Ext α :=
    if Num.flt 0 t.growthLimitPlannedIncrease then
      (match t.growthLimit with
       | .inf => .fin t.growthLimitPlannedIncrease
       | .fin g => .fin (Num.fmax g t.growthLimitPlannedIncrease))
    else t.growthLimit
  let gl := if gl.ltF t.baseSize then .fin t.baseSize else gl
  { t with growthLimit := gl, infinitelyGrowable := false, growthLimitPlannedIncrease := 0 }

def flushSpanOne (tracks : List (GridTrack α)) : List (GridTrack α) := tracks.map flushSpanOneTrack

/-- one distribution step over a batch: for each item (optionally filtered) compute `space`, and if it is positive
distribute it over the item's spanned slice -/
def forBatch (batch : List (Item α)) (tracks : List (GridTrack α))
    (f : Item α → List (GridTrack α) → List (GridTrack α)) : List (GridTrack α) :=
  batch.foldl (fun ts it => f it ts) tracks

/-- `if space > 0.0 { distribute_item_space_to_base_size(…, &mut axis_tracks[item range], …) }` -/
def batchDist (isFlex useFF : Bool) (it : Item α) (space : α) (aff : GridTrack α → Bool)
    (lim : GridTrack α → Ext α) (ty : ContributionType) (ts : List (GridTrack α)) : List (GridTrack α) :=
  if Num.flt 0 space then
    onRange ts it.lo it.hi fun sl => distributeItemSpaceToBaseSize isFlex useFF space sl aff lim ty
  else ts

/-- the limit closure of steps 1 and 2: fit-content limited for scroll containers, the growth limit otherwise -/
def minLimitFn (axisInner : Option α) (it : Item α) : GridTrack α → Ext α :=
  if it.scroll then fun t => t.fitContentLimitedGrowthLimit axisInner else fun t => t.growthLimit

/-- 1. intrinsic minimums -/
def batchStep1 (avail : AvailableSpace α) (axisInner : Option α) (isFlex useFF : Bool) (batch : List (Item α))
    (tracks : List (GridTrack α)) : List (GridTrack α) :=
  flushPlannedBaseSizeIncreases <| forBatch (batch.filter (·.crossesIntrinsic)) tracks fun it ts =>
    let space := minimumSpace it avail (match avail with
      | .definite _ => none
      | _ => if !it.scroll then spannedTrackLimit it ts axisInner else none)
    batchDist isFlex useFF it space (fun t => (t.minFn.definiteValue axisInner).isNone)
      (minLimitFn axisInner it) .minimum ts

/-- 2. content-based minimums -/
def batchStep2 (axisInner : Option α) (isFlex useFF : Bool) (batch : List (Item α))
    (tracks : List (GridTrack α)) : List (GridTrack α) :=
  flushPlannedBaseSizeIncreases <| forBatch batch tracks fun it ts =>
    batchDist isFlex useFF it it.minContent (fun t => t.minFn.isMinOrMaxContent) (minLimitFn axisInner it) .minimum ts

/-- 3. max-content minimums (only under a max-content constraint) -/
def batchStep3 (avail : AvailableSpace α) (axisInner : Option α) (isFlex useFF : Bool) (batch : List (Item α))
    (tracks : List (GridTrack α)) : List (GridTrack α) :=
  match avail with
  | .maxContent =>
    flushPlannedBaseSizeIncreases <| forBatch batch tracks fun it ts =>
      let space := MaybeMath.fo_min it.maxContent (spannedTrackLimit it ts axisInner)
      if (sliceOf ts it.lo it.hi).any (fun t => t.minFn.isMaxContent) then
        batchDist isFlex useFF it space (fun t => t.minFn.isMaxContent) (fun _ => .inf) .maximum ts
      else
        batchDist isFlex useFF it space (fun t => t.minFn.isAuto && !t.maxFn.isMinContent)
          (fun t => t.fitContentLimitedGrowthLimit axisInner) .maximum ts
  | _ => tracks

/-- "In all cases, continue to increase the base size of tracks with a min track sizing function of max-content" -/
def batchStep3b (isFlex useFF : Bool) (batch : List (Item α)) (tracks : List (GridTrack α)) :
    List (GridTrack α) :=
  flushPlannedBaseSizeIncreases <| forBatch batch tracks fun it ts =>
    batchDist isFlex useFF it it.maxContent (fun t => t.minFn.isMaxContent) (fun t => t.growthLimit) .maximum ts

/-- one growth-limit distribution over a batch -/
def batchGrowth (axisInner : Option α) (batch : List (Item α)) (space : Item α → α) (aff : GridTrack α → Bool)
    (tracks : List (GridTrack α)) : List (GridTrack α) :=
  forBatch batch tracks fun it ts =>
    if Num.flt 0 (space it) then
      onRange ts it.lo it.hi fun sl => distributeItemSpaceToGrowthLimit (space it) sl aff axisInner
    else ts

/-- 5. intrinsic maximums and 6. max-content maximums (not for the flex batch) -/
def batchStep56 (axisInner : Option α) (batch : List (Item α)) (tracks : List (GridTrack α)) :
    List (GridTrack α) :=
  let tracks := flushPlannedGrowthLimitIncreases
    (batchGrowth axisInner batch (·.minContent) (fun t => !t.maxFn.hasDefiniteValue axisInner) tracks) true
  flushPlannedGrowthLimitIncreases
    (batchGrowth axisInner batch (·.maxContent)
      (fun t => t.maxFn.isMaxContentAlike || (t.maxFn.usesPercentage && axisInner.isNone)) tracks) false

/-- the general path of the batch loop (span > 1, or items crossing a flexible track) -/
def sizeBatchGeneral (avail : AvailableSpace α) (axisInner : Option α) (isFlex : Bool) (flexFactorSum : α)
    (batch : List (Item α)) (tracks : List (GridTrack α)) : List (GridTrack α) :=
  let useFF := isFlex && !Num.feq flexFactorSum 0
  let tracks := batchStep1 avail axisInner isFlex useFF batch tracks
  let tracks := batchStep2 axisInner isFlex useFF batch tracks
  let tracks := batchStep3 avail axisInner isFlex useFF batch tracks
  let tracks := batchStep3b isFlex useFF batch tracks
  -- 4.
  let tracks := raiseGrowthLimits tracks
  if !isFlex then batchStep56 axisInner batch tracks else tracks

/-- `cmp_by_cross_flex_then_span_then_start` as a `≤` (Rust's `sort_by` is stable, so is `mergeSort`) -/
def itemLe (a b : Item α) : Bool :=
  match a.crossesFlexible, b.crossesFlexible with
  | false, true => true
  | true, false => false
  | _, _ => if a.span < b.span then true else if a.span > b.span then false else a.start ≤ b.start

/-- the `ItemBatcher` loop together with the per-batch work -/
def batchLoop (fuel : Nat) (avail : AvailableSpace α) (axisInner : Option α) (flexFactorSum : α)
    (items : List (Item α)) (offset : Nat) (tracks : List (GridTrack α)) : List (GridTrack α) :=
  match fuel with
  | 0 => tracks
  | fuel + 1 =>
    match items[offset]? with
    | none => tracks
    | some item =>
      let span := item.span
      let isFlex := item.crossesFlexible
      let next := if isFlex then items.length
        else (items.findIdx? fun it => it.crossesFlexible || it.span > span).getD items.length
      let batch := (items.drop offset).take (next - offset)
      let tracks :=
        if !isFlex && span == 1 then
          flushSpanOne (batch.foldl (sizeSpanOneItem avail axisInner) tracks)
        else sizeBatchGeneral avail axisInner isFlex flexFactorSum batch tracks
      if isFlex then tracks else batchLoop fuel avail axisInner flexFactorSum items next tracks

/-- `determine_if_item_crosses_flexible_or_intrinsic_tracks` for one axis -/
def determineCrossing (tracks : List (GridTrack α)) (it : Item α) : Item α :=
  let sl := sliceOf tracks it.lo it.hi
  { it with crossesFlexible := sl.any (·.isFlexible), crossesIntrinsic := sl.any (·.hasIntrinsicSizingFunction) }

/-- `resolve_intrinsic_track_sizes` -/
def resolveIntrinsicTrackSizes (tracks : List (GridTrack α)) (items : List (Item α))
    (avail : AvailableSpace α) (axisInner : Option α) : List (GridTrack α) :=
  let items := items.mergeSort itemLe
  let flexFactorSum : α := sumF (tracks.map (·.flexFactor))
  let tracks := batchLoop (items.length + 1) avail axisInner flexFactorSum items 0 tracks
  tracks.map fun t => match t.growthLimit with
    | .inf => { t with growthLimit := .fin t.baseSize }
    | _ => t

/-! ### 11.6 `maximise_tracks` -/

def maximiseTracks (tracks : List (GridTrack α)) (axisInner : Option α) (avail : AvailableSpace α) :
    List (GridTrack α) :=
  let used : α := sumF (tracks.map (·.baseSize))
  match avail with
  | .maxContent =>
    -- free space = ∞: `base_size = growth_limit` (finite after `resolve_intrinsic_track_sizes`' last step)
    tracks.map fun t => { t with baseSize := t.growthLimitOrBase }
  | .minContent => tracks
  | .definite a =>
    let free := a - used
    if Num.flt 0 free then
      let tracks := (distributeSpaceUpToLimits (distFuel tracks.length) free tracks (fun _ => true) (fun _ => 1)
        (·.baseSize) (fun t => t.fitContentLimitedGrowthLimit axisInner)).2
      tracks.map fun t => { t with baseSize := t.baseSize + t.itemIncurredIncrease, itemIncurredIncrease := 0 }
    else tracks

/-! ### 11.7.1 `find_size_of_fr` -/

/-- `flex_factor * hypothetical_fr_size >= base_size` with `hypothetical_fr_size : Option α`, `none` = `+∞`
(`0 · ∞` is NaN and `−x · ∞ = −∞`: both compare false) -/
def frGe (factor : α) (hyp : Option α) (base : α) : Bool :=
  match hyp with
  | some h => Num.fle base (factor * h)
  | none => Num.flt 0 factor
/-- `flex_factor * previous < base_size` -/
def frLt (factor : α) (prev : Option α) (base : α) : Bool :=
  match prev with
  | some h => Num.flt (factor * h) base
  | none => Num.flt factor 0

/-- one pass over the tracks: `(used_space, naive_flex_factor_sum)` -/
def frAccumulate (hyp : Option α) : List (GridTrack α) → α × α → α × α
  | [], acc => acc
  | t :: rest, (used, sum) =>
    match t.maxFn with
    | .fr v => if frGe v hyp t.baseSize then frAccumulate hyp rest (used, sum + v)
               else frAccumulate hyp rest (used + t.baseSize, sum)
    | _ => frAccumulate hyp rest (used + t.baseSize, sum)

def frIsValid (tracks : List (GridTrack α)) (hyp prev : Option α) : Bool :=
  tracks.all fun t => match t.maxFn with
    | .fr v => frGe v hyp t.baseSize || frLt v prev t.baseSize
    | _ => true

/-- the `loop` of `find_size_of_fr`; `hyp = none` is the initial `f32::INFINITY` -/
def findSizeOfFrLoop (fuel : Nat) (tracks : List (GridTrack α)) (spaceToFill : α) (hyp : Option α) : Option α :=
  match fuel with
  | 0 => hyp
  | fuel + 1 =>
    let (used, naive) := frAccumulate hyp tracks (0, 0)
    let leftover := spaceToFill - used
    let flexFactor := Num.fmax naive 1
    let hyp' := leftover / flexFactor
    if frIsValid tracks (some hyp') hyp then some hyp' else findSizeOfFrLoop fuel tracks spaceToFill (some hyp')

/-- `find_size_of_fr` -/
def findSizeOfFr (tracks : List (GridTrack α)) (spaceToFill : α) : α :=
  if Num.feq spaceToFill 0 then 0 else
  (findSizeOfFrLoop (tracks.length + 2) tracks spaceToFill none).getD 0

/-! ### 11.7 `expand_flexible_tracks` -/

/-- `max_by(total_cmp)` (no NaN): the last of the maxima -/
def maxList : List α → Option α
  | [] => none
  | x :: rest => some (rest.foldl (fun acc y => if Num.flt y acc then acc else y) x)

def expandFlexibleTracks (tracks : List (GridTrack α)) (items : List (Item α)) (axisMinSize axisMaxSize : Option α)
    (availForExpansion : AvailableSpace α) : List (GridTrack α) :=
  let flexFraction : α := match availForExpansion with
    | .definite availableSpace =>
      let used : α := sumF (tracks.map (·.baseSize))
      let free := availableSpace - used
      if Num.fle free 0 then 0 else findSizeOfFr tracks availableSpace
    | .minContent => 0
    | .maxContent =>
      let a := (maxList ((tracks.filter (·.maxFn.isFr)).map fun t =>
        let ff := t.flexFactor
        if Num.flt 1 ff then t.baseSize / ff else t.baseSize)).getD 0
      let b := (maxList ((items.filter (·.crossesFlexible)).map fun it =>
        findSizeOfFr (sliceOf tracks it.lo it.hi) it.maxContent)).getD 0
      let flexFraction := Num.fmax a b
      let hypothetical : α := sumF (tracks.map fun t => match t.maxFn with
        | .fr v => Num.fmax t.baseSize (v * flexFraction)
        | _ => t.baseSize)
      let mn := axisMinSize.getD 0
      if Num.flt hypothetical mn then findSizeOfFr tracks mn
      else match axisMaxSize with
        | some mx => if Num.flt mx hypothetical then findSizeOfFr tracks mx else flexFraction
        | none => flexFraction
  tracks.map fun t => match t.maxFn with
    | .fr v => { t with baseSize := Num.fmax t.baseSize (v * flexFraction) }
    | _ => t

/-! ### 11.8 `stretch_auto_tracks` -/

def stretchAutoTracks (tracks : List (GridTrack α)) (axisMinSize : Option α)
    (availForExpansion : AvailableSpace α) : List (GridTrack α) :=
  let n := (tracks.filter (·.maxFn.isAuto)).length
  if n > 0 then
    let used : α := sumF (tracks.map (·.baseSize))
    let free : α := match availForExpansion with
      | .definite a => a - used
      | _ => match axisMinSize with
        | some size => size - used
        | none => 0
    if Num.flt 0 free then
      let extra := free / Num.ofNat n
      tracks.map fun t => if t.maxFn.isAuto then { t with baseSize := t.baseSize + extra } else t
    else tracks
  else tracks

/-! ### `track_sizing_algorithm` -/

/-- the parameters of one run in one axis -/
structure SizingParams (α : Type) where
  axisMinSize : Option α
  axisMaxSize : Option α
  /-- `axis_alignment == AlignContent::Stretch` -/
  stretch : Bool
  /-- `available_grid_space.get(axis)` -/
  avail : AvailableSpace α
  /-- `inner_node_size.get(axis)` -/
  axisInner : Option α

/-- `axis_available_space_for_expansion`: only space generated by the container's own size counts -/
def SizingParams.availForExpansion (p : SizingParams α) : AvailableSpace α :=
  match p.axisInner with
  | some a => .definite a
  | none => match p.avail with
    | .minContent => .minContent
    | _ => .maxContent

def trackSizingAlgorithm (p : SizingParams α) (tracks : List (GridTrack α)) (items : List (Item α)) :
    List (GridTrack α) :=
  let tracks := initializeTrackSizes tracks p.axisInner
  if tracks.all (fun t => t.growthLimit.eqF t.baseSize) then tracks else
  let items := items.map (determineCrossing tracks)
  let tracks := resolveIntrinsicTrackSizes tracks items p.avail p.axisInner
  let tracks := maximiseTracks tracks p.axisInner p.avail
  let tracks := expandFlexibleTracks tracks items p.axisMinSize p.axisMaxSize p.availForExpansion
  if p.stretch then stretchAutoTracks tracks p.axisMinSize p.availForExpansion else tracks

end Sizing

end GridTracks
