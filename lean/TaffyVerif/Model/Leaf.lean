/-
  `compute_leaf_layout` (src/compute/leaf.rs), line by line.

  The user's measure function is a parameter (a pure function of its two arguments, DESIGN §6 (iv)).  Every
  invocation is recorded: the result carries the list of `(known_dimensions, available_space)` argument pairs in call
  order.  The one panic site (`RunMode::PerformHiddenLayout => unreachable!()`, l.139) is the explicit outcome
  `.error .unreachableHiddenRunMode`; the argument expressions of the measure call are evaluated before the call, so
  the panic happens *before* the measure function runs.

  Line numbers refer to leaf.rs of the revision this model was written against.
-/
import TaffyVerif.Model.Style

namespace LeafModel

/-- the arguments of one invocation of the measure function -/
structure MeasureCall (α : Type) where
  knownDimensions : Size (Option α)
  availableSpace : Size (AvailableSpace α)
deriving Repr, BEq, DecidableEq, Inhabited

inductive Panic where
  /-- leaf.rs l.139 `RunMode::PerformHiddenLayout => unreachable!()` -/
  | unreachableHiddenRunMode
deriving Repr, BEq, DecidableEq, Inhabited

/-- result + the measure calls made, in order -/
abbrev Traced (α : Type) (β : Type) := Except Panic (β × List (MeasureCall α))

variable {α : Type} [Num α]

/-- l.28–33: resolved box quantities -/
structure Box (α : Type) where
  margin : Rect α
  padding : Rect α
  border : Rect α
  paddingBorder : Rect α
  pbSum : Size α
  boxSizingAdjustment : Size α
deriving Repr, BEq, DecidableEq, Inhabited

def box (parentSize : Size (Option α)) (style : Style α) : Box α :=
  -- l.28–30: all four sides resolve against the parent's *width* (calc resolves to 0 in TaffyTree; not modelled)
  let margin := Resolve.rectLPAOrZero style.margin parentSize.width
  let padding := Resolve.rectLPOrZero style.padding parentSize.width
  let border := Resolve.rectLPOrZero style.border parentSize.width
  -- l.31–33
  let paddingBorder := padding.add border
  let pbSum := paddingBorder.sumAxes
  let boxSizingAdjustment := if style.boxSizing == .contentBox then pbSum else Size.zero
  { margin, padding, border, paddingBorder, pbSum, boxSizingAdjustment }

/-- l.37–62: `(node_size, node_min_size, node_max_size, aspect_ratio)` -/
def nodeSizes (input : LayoutInput α) (style : Style α) (boxSizingAdjustment : Size α) :
    Size (Option α) × Size (Option α) × Size (Option α) × Option α :=
  match input.sizingMode with
  | .contentSize =>
    let nodeSize := input.knownDimensions
    let nodeMinSize : Size (Option α) := Size.none
    let nodeMaxSize : Size (Option α) := Size.none
    (nodeSize, nodeMinSize, nodeMaxSize, none)
  | .inherentSize =>
    let aspectRatio := style.aspectRatio
    let styleSize :=
      ((Resolve.sizeMaybe style.size input.parentSize).maybeApplyAspectRatio aspectRatio).of_add boxSizingAdjustment
    let styleMinSize :=
      ((Resolve.sizeMaybe style.minSize input.parentSize).maybeApplyAspectRatio aspectRatio).of_add boxSizingAdjustment
    let styleMaxSize := (Resolve.sizeMaybe style.maxSize input.parentSize).of_add boxSizingAdjustment
    let nodeSize := input.knownDimensions.orOpt styleSize
    (nodeSize, styleMinSize, styleMaxSize, aspectRatio)

/-- l.67–70: `style.overflow().transpose().map(|o| match o { Scroll => scrollbar_width, _ => 0.0 })` -/
def scrollbarGutter (style : Style α) : Point α :=
  let t := style.overflow.transpose
  let f : Overflow → α := fun o => match o with
    | .scroll => style.scrollbarWidth
    | _ => 0
  ⟨f t.x, f t.y⟩

/-- l.72–74 -/
def contentBoxInset (paddingBorder : Rect α) (gutter : Point α) : Rect α :=
  let c := paddingBorder
  let c := { c with right := c.right + gutter.x }
  let c := { c with bottom := c.bottom + gutter.y }
  c

/-- l.76–85 -/
def hasStylesPreventingBeingCollapsedThrough (style : Style α) (padding border : Rect α)
    (nodeSize nodeMinSize : Size (Option α)) : Bool :=
  !style.isBlock
    || style.overflow.x.isScrollContainer
    || style.overflow.y.isScrollContainer
    || style.position == .absolute
    || Num.fgt padding.top 0
    || Num.fgt padding.bottom 0
    || Num.fgt border.top 0
    || Num.fgt border.bottom 0
    || (match nodeSize.height with | some h => Num.fgt h 0 | none => false)
    || (match nodeMinSize.height with | some h => Num.fgt h 0 | none => false)

/-- one axis of l.111–132 -/
def availableAxis (known : Option α) (available : AvailableSpace α) (marginSum : α) (nodeSize nodeMin nodeMax : Option α)
    (insetSum : α) : AvailableSpace α :=
  let a := (known.map AvailableSpace.definite).getD available
  let a := MaybeMath.af_sub a marginSum
  let a := a.maybeSet known
  let a := a.maybeSet nodeSize
  match a with
  | .definite size => .definite (MaybeMath.fo_clamp size nodeMin nodeMax - insetSum)
  | x => x

/-- l.111–132: the space handed to the measure function -/
def measureAvailableSpace (input : LayoutInput α) (margin contentBoxInset : Rect α)
    (nodeSize nodeMinSize nodeMaxSize : Size (Option α)) : Size (AvailableSpace α) :=
  { width := availableAxis input.knownDimensions.width input.availableSpace.width margin.horizontalAxisSum
      nodeSize.width nodeMinSize.width nodeMaxSize.width contentBoxInset.horizontalAxisSum
    height := availableAxis input.knownDimensions.height input.availableSpace.height margin.verticalAxisSum
      nodeSize.height nodeMinSize.height nodeMaxSize.height contentBoxInset.verticalAxisSum }

/-- `compute_leaf_layout` -/
def computeLeafLayout (input : LayoutInput α) (style : Style α)
    (measure : Size (Option α) → Size (AvailableSpace α) → Size α) : Traced α (LayoutOutput α) :=
  -- l.24
  let knownDimensions := input.knownDimensions
  let runMode := input.runMode
  -- l.28–33
  let b := box input.parentSize style
  -- l.37–62
  let (nodeSize, nodeMinSize, nodeMaxSize, aspectRatio) := nodeSizes input style b.boxSizingAdjustment
  -- l.67–74
  let gutter := scrollbarGutter style
  let inset := contentBoxInset b.paddingBorder gutter
  -- l.76–85
  let hasStyles := hasStylesPreventingBeingCollapsedThrough style b.padding b.border nodeSize nodeMinSize
  -- l.110–163 (the part after the early-return block)
  let measuredPath : Unit → Traced α (LayoutOutput α) := fun _ =>
    -- l.111–132
    let availableSpace := measureAvailableSpace input b.margin inset nodeSize nodeMinSize nodeMaxSize
    -- l.135–142: argument evaluation (may panic), then the call
    match (match runMode with
           | .computeSize => some knownDimensions
           | .performLayout => some Size.none
           | .performHiddenLayout => none) with
    | none => .error .unreachableHiddenRunMode
    | some kd =>
      let measuredSize := measure kd availableSpace
      -- l.143–146
      let clampedSize :=
        Size.fo_clamp ((knownDimensions.orOpt nodeSize).unwrapOr (measuredSize.add inset.sumAxes)) nodeMinSize nodeMaxSize
      -- l.147–157: the aspect ratio only determines the height when the height is not already determined by the
      -- style or the parent, and the height it determines is still subject to min/max height
      let size : Size α :=
        { width := clampedSize.width
          height :=
            if (knownDimensions.orOpt nodeSize).height.isSome then clampedSize.height
            else MaybeMath.fo_clamp
              (Num.fmax clampedSize.height ((aspectRatio.map fun ratio => clampedSize.width / ratio).getD 0))
              nodeMinSize.height nodeMaxSize.height }
      -- l.158
      let size := Size.f32Max size b.paddingBorder.sumAxes
      -- l.160–170
      .ok ({ size
             contentSize := measuredSize.add b.padding.sumAxes
             firstBaselines := ⟨none, none⟩
             topMargin := MarginSet.zero
             bottomMargin := MarginSet.zero
             marginsCanCollapseThrough :=
               !hasStyles && Num.feq size.height 0 && Num.feq measuredSize.height 0 },
           [{ knownDimensions := kd, availableSpace }])
  -- l.93–108
  if runMode == .computeSize && hasStyles then
    match nodeSize with
    | ⟨some width, some height⟩ =>
      let size := Size.f32Max (Size.fo_clamp ⟨width, height⟩ nodeMinSize nodeMaxSize) b.paddingBorder.sumAxes
      .ok ({ size
             contentSize := Size.zero
             firstBaselines := ⟨none, none⟩
             topMargin := MarginSet.zero
             bottomMargin := MarginSet.zero
             marginsCanCollapseThrough := false }, [])
    | _ => measuredPath ()
  else measuredPath ()

end LeafModel
