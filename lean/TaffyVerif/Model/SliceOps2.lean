/-
  Additions to the vocabulary of Model/SliceOps.lean for the space-distribution functions of track_sizing.rs
  (`extract/src/tracks2.rs`  →  Generated/TrackSizing2.lean).  Hand-written, no Mathlib.

    * `mapAccum f acc l`: `for x in l.iter_mut() { … }` whose body updates `x` and outer locals (`acc`), front to back
    * `Ext.divF e p`: `e / p` for an extended `e` and a finite `p`, kept extended.  CONVENTION (that of `GridTracks.Ext.subDiv`,
      Model/FrSize.lean): `Ext` has no −∞ and no NaN, so the quotient is only meaningful for a numerator `> 0` and a divisor
      `≥ 0`: `+∞ / p = +∞`, `x / 0 = +∞`, `x / p` otherwise.  The one use (`distribute_space_up_to_limits`: `(limit − property) /
      proportion` over tracks with `property + increase < limit`, proportion = `1.0` or a flex factor, which the style
      constructors keep ≥ 0) is inside that domain.
    * `Ext.minF e x`: `f32_min(e, x)` for a finite `x`: finite; `Ext.finiteOr e a`: `if e == f32::INFINITY { a } else { e }`
    * `Ext.minByTotalCmp l`: `l.min_by(|a, b| a.total_cmp(b))` over extended values without NaN: the FIRST of the minima.
      CONVENTION: `total_cmp` orders −0.0 below +0.0; here the two zeros are not told apart (`Num.flt`), so the answer can differ
      from Rust's in the sign of a zero — the one use multiplies the minimum into an `increase` that is only used when `> 0.0`.
-/
import TaffyVerif.Model.SliceOps

namespace Slice
open GridTracks (GErr Ext)

/-- `for x in l.iter_mut() { (acc, x) = f(acc, x) }` -/
def mapAccum {σ β : Type} (f : σ → β → σ × β) : σ → List β → σ × List β
  | s, [] => (s, [])
  | s, x :: rest =>
    let r := f s x
    let r' := mapAccum f r.1 rest
    (r'.1, r.2 :: r'.2)

namespace Ext
variable {α : Type} [Num α]

/-- `e / p` kept extended (see the header for the convention) -/
def divF : Ext α → α → Ext α
  | .fin a, p => if Num.feq p 0 then .inf else .fin (a / p)
  | .inf, _ => .inf

/-- `f32_min(e, x)` for a finite `x` -/
def minF : Ext α → α → α
  | .fin a, x => Num.fmin a x
  | .inf, x => x

/-- `if e == f32::INFINITY { a } else { e }` -/
def finiteOr : Ext α → α → α
  | .fin v, _ => v
  | .inf, a => a

/-- one step of `min_by`: `y` replaces the running minimum only when it is strictly smaller -/
def minStep : Ext α → Ext α → Ext α
  | .fin a, .fin b => if Num.flt b a then .fin b else .fin a
  | .inf, y => y
  | .fin a, .inf => .fin a

/-- `l.min_by(|a, b| a.total_cmp(b))` (see the header for the convention on zeros) -/
def minByTotalCmp : List (Ext α) → Option (Ext α)
  | [] => none
  | x :: rest => some (rest.foldl minStep x)

end Ext
end Slice
