/-
  The meaning of the slice / `Vec` / iterator / checked-integer vocabulary that `extract/src/slices.rs` emits
  (Tier T for src/compute/grid/explicit_grid.rs and the pure functions of track_sizing.rs).

  The translator turns Rust into Lean *syntactically*; every operation whose Rust meaning is not a Lean primitive is one
  of the functions below (a closed list, as `Model/TreeInterp.lean` is for `TaffyTree`'s methods):

    * machine integers are `Nat`; `u16` `+ - *` and `usize` `- %` are **checked** (`Except GErr`): `GErr.overflow` stands for
      every arithmetic panic of a debug build (overflow, underflow, remainder by zero); `usize` `+ *` are plain `Nat`
      operations (a 64-bit `usize` built from vector lengths and `u16`s; the hand-written models make the same choice);
      `as u16` of a `usize` truncates (`% 65536`), `as usize` of a `u16` is the identity, `as u16` of an `f32` saturates
      (`GridTracks.NumCast.toU16Sat`), `as f32` of an integer is `Num.ofNat`
    * `Option::unwrap` is `unwrap` (`GErr.unwrapNone`)
    * a slice / `Vec` / finite iterator is a `List`; an iterator that may be infinite (`cycle()`, `core::iter::repeat`) is a
      `Stream` = the sequence of answers of `next()`
    * `iter.map(f).sum::<u16>()` = `sumU16M f l` (lazy: item, then checked addition, item, …), `sum::<f32>()` folds from
      **−0.0** (`sumF32`, = `GridTracks.sumF`), with a closure that can panic `sumF32M`
    * `for x in l { body }` / `l.for_each(|x| body)` with the variables the body assigns as the state: `List.foldl` /
      `List.foldlM` (core)
    * `v.first_mut().unwrap().m()` / `v.last_mut().unwrap().m()` = `firstMutUnwrap v m` / `lastMutUnwrap v m`
  No Mathlib.
-/
import TaffyVerif.Model.GridTracksInit

namespace Slice
open GridTracks (GErr)

/-! ### checked machine integers -/

def u16Add (a b : Nat) : Except GErr Nat := if a + b > 65535 then .error .overflow else .ok (a + b)
def u16Mul (a b : Nat) : Except GErr Nat := if a * b > 65535 then .error .overflow else .ok (a * b)
def u16Sub (a b : Nat) : Except GErr Nat := if a < b then .error .overflow else .ok (a - b)
def usizeSub (a b : Nat) : Except GErr Nat := if a < b then .error .overflow else .ok (a - b)
/-- `a % b` (panics for `b = 0`) -/
def usizeRem (a b : Nat) : Except GErr Nat := if b = 0 then .error .overflow else .ok (a % b)
/-- `n as u16` for a `usize` -/
def usizeAsU16 (n : Nat) : Nat := n % 65536
/-- `a.saturating_sub(b)` -/
def u16SatSub (a b : Nat) : Nat := a - b
/-- `a.saturating_add(b)` -/
def u16SatAdd (a b : Nat) : Nat := if a + b > 65535 then 65535 else a + b

/-- `Option::unwrap` -/
def unwrap {β : Type} : Option β → Except GErr β
  | some x => .ok x
  | none => .error .unwrapNone

/-! ### the payload of a track sizing function outside a tag match (`x.0.value()`): the constants without a payload are built
with `from_tag`, whose value bits are zero -/

def MinTrack.payload {α : Type} [Num α] : GridTracks.MinTrack α → α
  | .length v => v
  | .percent v => v
  | _ => 0

def MaxTrack.payload {α : Type} [Num α] : GridTracks.MaxTrack α → α
  | .length v => v
  | .percent v => v
  | .fitContentPx v => v
  | .fitContentPercent v => v
  | .fr v => v
  | _ => 0

/-! ### `f32` places that can hold `f32::INFINITY` (`GridTracks.Ext`): the operations that are closed on finite values and +∞ -/

namespace Ext
variable {α : Type} [Num α]
open GridTracks (Ext)

/-- `a + b` -/
def add : Ext α → Ext α → Ext α
  | .fin a, .fin b => .fin (a + b)
  | _, _ => .inf
/-- `e - x` for a finite `x` -/
def subF : Ext α → α → Ext α
  | .fin a, x => .fin (a - x)
  | .inf, _ => .inf
/-- `a < b` -/
def lt : Ext α → Ext α → Bool
  | .fin a, .fin b => Num.flt a b
  | .fin _, .inf => true
  | .inf, _ => false
/-- `a <= b` -/
def le : Ext α → Ext α → Bool
  | .fin a, .fin b => Num.fle a b
  | _, .inf => true
  | .inf, .fin _ => false
/-- `a == b` -/
def feq : Ext α → Ext α → Bool
  | .fin a, .fin b => Num.feq a b
  | .inf, .inf => true
  | _, _ => false
/-- `f32_min(a, b)` -/
def min : Ext α → Ext α → Ext α
  | .fin a, .fin b => .fin (Num.fmin a b)
  | .fin a, .inf => .fin a
  | .inf, b => b
/-- `a * e >= c` for finite `a`, `c`: `a·∞` is `+∞` for `a > 0`, `−∞` for `a < 0`, NaN for `a = 0` — only the first is `≥ c` -/
def mulGe (a : α) (e : Ext α) (c : α) : Bool :=
  match e with
  | .fin h => Num.fle c (a * h)
  | .inf => Num.flt 0 a
/-- `a * e < c` for finite `a`, `c`: of `+∞`, `−∞`, NaN only `−∞` (`a < 0`) is `< c` -/
def mulLt (a : α) (e : Ext α) (c : α) : Bool :=
  match e with
  | .fin h => Num.flt (a * h) c
  | .inf => Num.flt a 0
/-- an extended value used where only a finite one has a meaning in `Ext` (`∞·x`, `∞/x`, `x − ∞`, or stored in a place whose type is a
plain `f32`): NOT a panic of the Rust code — the outcome says that the modelling assumption "this value is finite" fails
(`GErr.unwrapNone` is reused for it) -/
def toFinite : Ext α → Except GErr α
  | .fin a => .ok a
  | .inf => .error .unwrapNone
end Ext

/-! ### `loop { body; if c { break; } }` with fuel: at most `fuel` iterations; running out of fuel leaves the loop like a `break` -/

def loop {σ : Type} : Nat → σ → (σ → σ × Bool) → σ
  | 0, s, _ => s
  | n + 1, s, step => if (step s).2 then (step s).1 else loop n (step s).1 step

def loopM {σ : Type} : Nat → σ → (σ → Except GErr (σ × Bool)) → Except GErr σ
  | 0, s, _ => .ok s
  | n + 1, s, step => do
    let r ← step s
    if r.2 then pure r.1 else loopM n r.1 step

/-! ### sums -/

/-- `l.iter().map(f).sum::<u16>()` -/
def sumU16M {β : Type} (f : β → Except GErr Nat) (l : List β) : Except GErr Nat :=
  l.foldlM (fun acc x => do let v ← f x; u16Add acc v) 0

/-- `l.iter().sum::<f32>()` (from −0.0) -/
def sumF32 {α : Type} [Num α] (l : List α) : α := l.foldl (· + ·) (-(0 : α))

/-- `l.iter().map(f).sum::<f32>()` where `f` can panic -/
def sumF32M {α β : Type} [Num α] (f : β → Except GErr α) (l : List β) : Except GErr α :=
  l.foldlM (fun acc x => do let v ← f x; pure (acc + v)) (-(0 : α))

/-! ### `Vec` -/

/-- `v.first_mut().unwrap().m()` -/
def firstMutUnwrap {β : Type} (l : List β) (f : β → β) : Except GErr (List β) :=
  match l with
  | [] => .error .unwrapNone
  | x :: rest => .ok (f x :: rest)

/-- `v.last_mut().unwrap().m()` -/
def lastMutUnwrap {β : Type} (l : List β) (f : β → β) : Except GErr (List β) :=
  if l.isEmpty then .error .unwrapNone else .ok (l.modify (l.length - 1) f)

/-! ### `step_by`, `iter_mut().enumerate().for_each` with an accumulator (grid/alignment.rs `align_tracks`) -/

/-- `it.step_by(n)` (`n > 0`): the elements at positions 0, n, 2n, …; `k` = how many elements to skip before the next one taken -/
def stepByAux {β : Type} (n : Nat) : Nat → List β → List β
  | _, [] => []
  | 0, x :: rest => x :: stepByAux n (n - 1) rest
  | k + 1, _ :: rest => stepByAux n k rest

def stepBy {β : Type} (n : Nat) (l : List β) : List β := stepByAux n 0 l

/-- `l.iter_mut().enumerate().for_each(|(i, x)| …)` whose body updates the element and outer locals (`σ`): position, state
before, element ↦ new element, state after; answers the new list and the final state -/
def mapIdxAccumFrom {β σ : Type} (f : Nat → σ → β → β × σ) : Nat → List β → σ → List β × σ
  | _, [], s => ([], s)
  | i, x :: rest, s =>
    let r := f i s x
    let rs := mapIdxAccumFrom f (i + 1) rest r.2
    (r.1 :: rs.1, rs.2)

def mapIdxAccum {β σ : Type} (f : Nat → σ → β → β × σ) (l : List β) (s : σ) : List β × σ := mapIdxAccumFrom f 0 l s

/-! ### iterators that may be infinite -/

/-- the answers of successive `next()` calls -/
abbrev Stream (β : Type) : Type := Nat → Option β

namespace Stream
variable {β : Type}

/-- `core::iter::repeat(x)` -/
def «repeat» (x : β) : Stream β := fun _ => some x
/-- `l.iter().cycle()` (an empty list cycles to nothing) -/
def cycle (l : List β) : Stream β := fun i => if l.isEmpty then none else l[i % l.length]?
/-- `s.skip(n)` -/
def skip (n : Nat) (s : Stream β) : Stream β := fun i => s (n + i)
/-- `s.next()`: the item and the advanced iterator -/
def next (s : Stream β) : Option β × Stream β := (s 0, fun i => s (i + 1))

/-- the items `s i, s (i+1), …`, at most `n` of them, up to the first `None` -/
def takeFrom (s : Stream β) : Nat → Nat → List β
  | _, 0 => []
  | i, n + 1 =>
    match s i with
    | none => []
    | some x => x :: takeFrom s (i + 1) n

/-- `s.take(n)` consumed to the end -/
def take (n : Nat) (s : Stream β) : List β := takeFrom s 0 n

end Stream

end Slice
