/-
  C11 — the three copies of "lay out an absolutely positioned child", transliterated SEPARATELY on purpose:

    * block : src/compute/block.rs    `perform_absolute_layout_on_absolute_children` (+ the call site in `compute_inner`)
    * flex  : src/compute/flexbox.rs  `perform_absolute_layout_on_absolute_children` (+ the `AlgoConstants` it reads)
    * grid  : src/compute/grid/alignment.rs `align_and_position_item` + `align_item_within_area`
              (+ the grid-area computation of the "Position hidden and absolutely positioned children" loop in grid/mod.rs)

  Each copy is the body of the Rust loop for ONE child.  The only interaction with the tree is one
  `perform_child_layout` call; the child's answer is a parameter (`Oracle`): the theorems hold for every oracle.
  Every copy is split into the same stages as the Rust text (resolve styles → known dimensions → child layout →
  final size → margins → location → `set_unrounded_layout`), one definition per stage, same arithmetic order.
  No Mathlib here.
-/
import TaffyVerif.Model.Style

namespace AbsPos
variable {α : Type} [Num α]

/-- what `tree.perform_child_layout(child, …)` returns for the child under consideration -/
abbrev Oracle (α : Type) := LayoutInput α → LayoutOutput α

/-- `LayoutPartialTreeExt::perform_child_layout` as a `LayoutInput` -/
def performInput (kd ps : Size (Option α)) (av : Size (AvailableSpace α)) (sm : SizingMode) : LayoutInput α :=
  { runMode := .performLayout, sizingMode := sm, axis := .both, knownDimensions := kd, parentSize := ps,
    availableSpace := av, verticalMarginsAreCollapsible := ⟨false, false⟩ }

/-- `Size { width: if overflow.y == Scroll { scrollbar_width } else { 0.0 }, height: if overflow.x == Scroll {…} }` -/
def scrollbarSize (st : Style α) : Size α :=
  ⟨if st.overflow.y == .scroll then st.scrollbarWidth else 0, if st.overflow.x == .scroll then st.scrollbarWidth else 0⟩

/-- `style.overflow().transpose().map(|o| match o { Scroll => scrollbar_width, _ => 0.0 })` -/
def scrollbarGutter (st : Style α) : Point α :=
  ⟨if st.overflow.y == .scroll then st.scrollbarWidth else 0, if st.overflow.x == .scroll then st.scrollbarWidth else 0⟩

/-- `auto_margin_count as f32` -/
def countF (n : Nat) : α := Num.ofNat n

def autoCount (a b : Option α) : Nat := (if a.isNone then 1 else 0) + (if b.isNone then 1 else 0)

/-! ## block.rs -/

/-- arguments of `perform_absolute_layout_on_absolute_children(tree, &items, area_size, area_offset)` + the fields of
the `BlockItem` that the loop body reads (`order`, `static_position`; `overflow`/`scrollbar_width` come from the style) -/
structure BlockArgs (α : Type) where
  areaSize : Size α
  areaOffset : Point α
  staticPosition : Point α
  order : Nat
deriving Repr, BEq, DecidableEq, Inhabited

/-- the call site in `compute_inner` (block.rs l.221–250) for a container whose final outer size is `outer`, and an
absolutely positioned child that precedes every in-flow child (its static position is the content-box corner). -/
def blockCallSite (cst : Style α) (outer : Size α) (order : Nat) : BlockArgs α :=
  let gutterP := scrollbarGutter cst
  let gutter : Rect α := { top := 0, left := 0, right := gutterP.x, bottom := gutterP.y }
  let resolvedPadding := Resolve.rectLPOrZero cst.padding (some outer.width)
  let resolvedBorder := Resolve.rectLPOrZero cst.border (some outer.width)
  let resolvedContentBoxInset := Rect.add (Rect.add resolvedPadding resolvedBorder) gutter
  let absInset := Rect.add resolvedBorder gutter
  { areaSize := Size.sub outer absInset.sumAxes,
    areaOffset := ⟨absInset.left, absInset.top⟩,
    staticPosition := ⟨resolvedContentBoxInset.left, resolvedContentBoxInset.top⟩,
    order }

/-- l.602–634: everything resolved from the child's style against the area -/
structure BlockResolved (α : Type) where
  margin : Rect (Option α)
  padding : Rect α
  border : Rect α
  left : Option α
  right : Option α
  top : Option α
  bottom : Option α
  styleSize : Size (Option α)
  minSize : Size (Option α)
  maxSize : Size (Option α)
deriving Repr, BEq, DecidableEq, Inhabited

def blockResolve (a : BlockArgs α) (st : Style α) : BlockResolved α :=
  let areaWidth := a.areaSize.width
  let areaHeight := a.areaSize.height
  let areaOpt : Size (Option α) := ⟨some areaWidth, some areaHeight⟩
  let ar := st.aspectRatio
  let margin : Rect (Option α) :=
    ⟨st.margin.left.resolveToOption areaWidth, st.margin.right.resolveToOption areaWidth,
     st.margin.top.resolveToOption areaWidth, st.margin.bottom.resolveToOption areaWidth⟩
  let padding := Resolve.rectLPOrZero st.padding (some areaWidth)
  let border := Resolve.rectLPOrZero st.border (some areaWidth)
  let pbSum := (Rect.add padding border).sumAxes
  let bsa : Size α := if st.boxSizing == .contentBox then pbSum else Size.zero
  let left := st.inset.left.maybeResolve (some areaWidth)
  let right := st.inset.right.maybeResolve (some areaWidth)
  let top := st.inset.top.maybeResolve (some areaHeight)
  let bottom := st.inset.bottom.maybeResolve (some areaHeight)
  let styleSize := Size.of_add (Size.maybeApplyAspectRatio (Resolve.sizeMaybe st.size areaOpt) ar) bsa
  let minSize :=
    Size.of_max (Size.orOpt (Size.of_add (Size.maybeApplyAspectRatio (Resolve.sizeMaybe st.minSize areaOpt) ar) bsa)
      (pbSum.map some)) pbSum
  let maxSize := Size.of_add (Size.maybeApplyAspectRatio (Resolve.sizeMaybe st.maxSize areaOpt) ar) bsa
  { margin, padding, border, left, right, top, bottom, styleSize, minSize, maxSize }

/-- l.642–646 -/
def blockFillWidth (a : BlockArgs α) (r : BlockResolved α) (ar : Option α) (kd : Size (Option α)) : Size (Option α) :=
  match kd.width, r.left, r.right with
  | none, some left, some right =>
    let newWidthRaw := MaybeMath.fo_sub (MaybeMath.fo_sub a.areaSize.width r.margin.left) r.margin.right - left - right
    let kd : Size (Option α) := { kd with width := some (Num.fmax newWidthRaw 0) }
    Size.oo_clamp (Size.maybeApplyAspectRatio kd ar) r.minSize r.maxSize
  | _, _, _ => kd

/-- l.651–655 -/
def blockFillHeight (a : BlockArgs α) (r : BlockResolved α) (ar : Option α) (kd : Size (Option α)) : Size (Option α) :=
  match kd.height, r.top, r.bottom with
  | none, some top, some bottom =>
    let newHeightRaw := MaybeMath.fo_sub (MaybeMath.fo_sub a.areaSize.height r.margin.top) r.margin.bottom - top - bottom
    let kd : Size (Option α) := { kd with height := some (Num.fmax newHeightRaw 0) }
    Size.oo_clamp (Size.maybeApplyAspectRatio kd ar) r.minSize r.maxSize
  | _, _, _ => kd

/-- l.635–655 -/
def blockKnown (a : BlockArgs α) (r : BlockResolved α) (ar : Option α) : Size (Option α) :=
  blockFillHeight a r ar (blockFillWidth a r ar (Size.oo_clamp r.styleSize r.minSize r.maxSize))

/-- l.657–667 -/
def blockChildInput (a : BlockArgs α) (r : BlockResolved α) (kd : Size (Option α)) : LayoutInput α :=
  performInput kd ⟨some a.areaSize.width, some a.areaSize.height⟩
    ⟨.definite (MaybeMath.fo_clamp a.areaSize.width r.minSize.width r.maxSize.width),
     .definite (MaybeMath.fo_clamp a.areaSize.height r.minSize.height r.maxSize.height)⟩
    .contentSize

/-- l.669 -/
def blockFinalSize (r : BlockResolved α) (kd : Size (Option α)) (measured : Size α) : Size α :=
  Size.fo_clamp (Size.unwrapOr kd measured) r.minSize r.maxSize

/-- l.704–713 (one axis of `auto_margin_size`) -/
def blockAutoMarginSize (mStart mEnd : Option α) (styleSize : Option α) (freeSpace : α) : α :=
  let n := autoCount mStart mEnd
  if n == 2 && (match styleSize with | none => true | some s => Num.fge s freeSpace) then 0
  else if n > 0 then freeSpace / countF n
  else 0

/-- l.671–741 -/
def blockResolvedMargin (a : BlockArgs α) (r : BlockResolved α) (finalSize : Size α) : Rect α :=
  let nonAutoMargin : Rect α :=
    { left := if r.left.isSome then r.margin.left.getD 0 else 0,
      right := if r.right.isSome then r.margin.right.getD 0 else 0,
      top := if r.top.isSome then r.margin.top.getD 0 else 0,
      bottom := if r.bottom.isSome then r.margin.bottom.getD 0 else 0 }
  let spaceX : α := match r.right with
    | some right => a.areaSize.width - right - r.left.getD 0
    | none => finalSize.width
  let spaceY : α := match r.bottom with
    | some bottom => a.areaSize.height - bottom - r.top.getD 0
    | none => finalSize.height
  let freeSpace : Size α :=
    ⟨spaceX - finalSize.width - nonAutoMargin.horizontalAxisSum, spaceY - finalSize.height - nonAutoMargin.verticalAxisSum⟩
  let autoMarginSize : Size α :=
    ⟨blockAutoMarginSize r.margin.left r.margin.right r.styleSize.width freeSpace.width,
     blockAutoMarginSize r.margin.top r.margin.bottom r.styleSize.height freeSpace.height⟩
  let autoMargin : Rect α :=
    { left := ((r.margin.left.map fun _ => (0 : α))).getD autoMarginSize.width,
      right := ((r.margin.right.map fun _ => (0 : α))).getD autoMarginSize.width,
      top := ((r.margin.top.map fun _ => (0 : α))).getD autoMarginSize.height,
      bottom := ((r.margin.bottom.map fun _ => (0 : α))).getD autoMarginSize.height }
  { left := r.margin.left.getD autoMargin.left, right := r.margin.right.getD autoMargin.right,
    top := r.margin.top.getD autoMargin.top, bottom := r.margin.bottom.getD autoMargin.bottom }

/-- l.743–754 -/
def blockLocation (a : BlockArgs α) (r : BlockResolved α) (finalSize : Size α) (rm : Rect α) : Point α :=
  { x := (MaybeMath.of_add
            ((r.left.map fun left => left + rm.left).or
              (r.right.map fun right => a.areaSize.width - finalSize.width - right - rm.right))
            a.areaOffset.x).getD (a.staticPosition.x + rm.left),
    y := (MaybeMath.of_add
            ((r.top.map fun top => top + rm.top).or
              (r.bottom.map fun bottom => a.areaSize.height - finalSize.height - bottom - rm.bottom))
            a.areaOffset.y).getD (a.staticPosition.y + rm.top) }

/-- the loop body of block.rs `perform_absolute_layout_on_absolute_children` for one child: the `Layout` handed to
`set_unrounded_layout` -/
def absBlock (a : BlockArgs α) (st : Style α) (oracle : Oracle α) : Layout α :=
  let r := blockResolve a st
  let kd := blockKnown a r st.aspectRatio
  let out := oracle (blockChildInput a r kd)
  let finalSize := blockFinalSize r kd out.size
  let rm := blockResolvedMargin a r finalSize
  { order := a.order, size := finalSize, contentSize := out.contentSize, scrollbarSize := scrollbarSize st,
    location := blockLocation a r finalSize rm, padding := r.padding, border := r.border, margin := rm }

/-! ## flexbox.rs -/

namespace Dir
def mainStart {β : Type} (r : Rect β) (d : FlexDirection) : β := if d.isRow then r.left else r.top
def mainEnd {β : Type} (r : Rect β) (d : FlexDirection) : β := if d.isRow then r.right else r.bottom
def crossStart {β : Type} (r : Rect β) (d : FlexDirection) : β := if d.isRow then r.top else r.left
def crossEnd {β : Type} (r : Rect β) (d : FlexDirection) : β := if d.isRow then r.bottom else r.right
def pMain {β : Type} (p : Point β) (d : FlexDirection) : β := if d.isRow then p.x else p.y
def pCross {β : Type} (p : Point β) (d : FlexDirection) : β := if d.isRow then p.y else p.x
end Dir

/-- the fields of `AlgoConstants` read by flexbox.rs `perform_absolute_layout_on_absolute_children` + the child index -/
structure FlexArgs (α : Type) where
  containerSize : Size α
  border : Rect α
  scrollbarGutter : Point α
  contentBoxInset : Rect α
  nodeInnerSize : Size (Option α)
  dir : FlexDirection
  isWrapReverse : Bool
  justifyContent : Option AlignContent
  alignItems : AlignItems
  order : Nat
deriving Repr, BEq, DecidableEq, Inhabited

/-- `compute_flexbox_layout` l.169–209: the known dimensions handed to `compute_preliminary` when the caller passes
`known_dimensions = None` (the root of a tree) and `SizingMode::InherentSize` -/
def flexStyledKnownDimensions (cst : Style α) (parentSize : Size (Option α)) : Size (Option α) :=
  let ar := cst.aspectRatio
  let padding := Resolve.rectLPOrZero cst.padding parentSize.width
  let border := Resolve.rectLPOrZero cst.border parentSize.width
  let pbSum := Size.add padding.sumAxes border.sumAxes
  let bsa : Size α := if cst.boxSizing == .contentBox then pbSum else Size.zero
  let minSize := Size.of_add (Size.maybeApplyAspectRatio (Resolve.sizeMaybe cst.minSize parentSize) ar) bsa
  let maxSize := Size.of_add (Size.maybeApplyAspectRatio (Resolve.sizeMaybe cst.maxSize parentSize) ar) bsa
  let clamped := Size.oo_clamp (Size.of_add (Size.maybeApplyAspectRatio (Resolve.sizeMaybe cst.size parentSize) ar) bsa) minSize maxSize
  let mm : Size (Option α) := Size.zipMap minSize maxSize fun mn mx =>
    match mn, mx with
    | some mn, some mx => if Num.fle mx mn then some mn else none
    | _, _ => none
  Size.orOpt Size.none (Size.of_max (Size.orOpt mm clamped) pbSum)

/-- `compute_constants` (l.417–489) and the updates of `constants` made by `compute_preliminary` before the absolute
pass (l.271–279: the main axis of `node_inner_size` becomes definite; `container_size` is the final size) -/
def flexCallSite (cst : Style α) (parentSize : Size (Option α)) (knownDimensions : Size (Option α))
    (containerSize : Size α) (order : Nat) : FlexArgs α :=
  let dir := cst.flexDirection
  let padding := Resolve.rectLPOrZero cst.padding parentSize.width
  let border := Resolve.rectLPOrZero cst.border parentSize.width
  let gutter := scrollbarGutter cst
  let pb := Rect.add padding border
  let cbi : Rect α := { pb with right := pb.right + gutter.x, bottom := pb.bottom + gutter.y }
  let nodeInner : Size (Option α) := Size.of_sub knownDimensions cbi.sumAxes
  let mainInset := cbi.mainAxisSum dir
  let nodeInner : Size (Option α) :=
    match nodeInner.main dir with
    | some _ => nodeInner
    | none =>
      -- `determine_container_main_size`: inner_main_size = f32_max(outer_main_size - main_content_box_inset, 0.0)
      let inner := Num.fmax (containerSize.main dir - mainInset) 0
      if dir.isRow then { nodeInner with width := some inner } else { nodeInner with height := some inner }
  { containerSize, border, scrollbarGutter := gutter, contentBoxInset := cbi, nodeInnerSize := nodeInner, dir,
    isWrapReverse := cst.flexWrap == .wrapReverse, justifyContent := cst.justifyContent,
    alignItems := cst.alignItems.getD .stretch, order }

structure FlexResolved (α : Type) where
  alignSelf : AlignItems
  margin : Rect (Option α)
  padding : Rect α
  border : Rect α
  left : Option α
  right : Option α
  top : Option α
  bottom : Option α
  styleSize : Size (Option α)
  minSize : Size (Option α)
  maxSize : Size (Option α)
deriving Repr, BEq, DecidableEq, Inhabited

/-- l.2063–2064 -/
def flexInsetRelativeSize (a : FlexArgs α) : Size α :=
  Size.sub (Size.sub a.containerSize a.border.sumAxes) ⟨a.scrollbarGutter.x, a.scrollbarGutter.y⟩

/-- l.2079–2122 -/
def flexResolve (a : FlexArgs α) (st : Style α) : FlexResolved α :=
  let irs := flexInsetRelativeSize a
  let irsOpt : Size (Option α) := ⟨some irs.width, some irs.height⟩
  let ar := st.aspectRatio
  let margin : Rect (Option α) :=
    ⟨st.margin.left.resolveToOption irs.width, st.margin.right.resolveToOption irs.width,
     st.margin.top.resolveToOption irs.width, st.margin.bottom.resolveToOption irs.width⟩
  let padding := Resolve.rectLPOrZero st.padding (some irs.width)
  let border := Resolve.rectLPOrZero st.border (some irs.width)
  let pbSum := (Rect.add padding border).sumAxes
  let bsa : Size α := if st.boxSizing == .contentBox then pbSum else Size.zero
  let left := st.inset.left.maybeResolve (some irs.width)
  let right := st.inset.right.maybeResolve (some irs.width)
  let top := st.inset.top.maybeResolve (some irs.height)
  let bottom := st.inset.bottom.maybeResolve (some irs.height)
  let styleSize := Size.of_add (Size.maybeApplyAspectRatio (Resolve.sizeMaybe st.size irsOpt) ar) bsa
  let minSize :=
    Size.of_max (Size.orOpt (Size.of_add (Size.maybeApplyAspectRatio (Resolve.sizeMaybe st.minSize irsOpt) ar) bsa)
      (pbSum.map some)) pbSum
  let maxSize := Size.of_add (Size.maybeApplyAspectRatio (Resolve.sizeMaybe st.maxSize irsOpt) ar) bsa
  { alignSelf := st.alignSelf.getD a.alignItems, margin, padding, border, left, right, top, bottom, styleSize,
    minSize, maxSize }

/-- l.2129–2133 -/
def flexFillWidth (a : FlexArgs α) (r : FlexResolved α) (ar : Option α) (kd : Size (Option α)) : Size (Option α) :=
  match kd.width, r.left, r.right with
  | none, some left, some right =>
    let newWidthRaw :=
      MaybeMath.fo_sub (MaybeMath.fo_sub (flexInsetRelativeSize a).width r.margin.left) r.margin.right - left - right
    let kd : Size (Option α) := { kd with width := some (Num.fmax newWidthRaw 0) }
    Size.oo_clamp (Size.maybeApplyAspectRatio kd ar) r.minSize r.maxSize
  | _, _, _ => kd

/-- l.2138–2143 -/
def flexFillHeight (a : FlexArgs α) (r : FlexResolved α) (ar : Option α) (kd : Size (Option α)) : Size (Option α) :=
  match kd.height, r.top, r.bottom with
  | none, some top, some bottom =>
    let newHeightRaw :=
      MaybeMath.fo_sub (MaybeMath.fo_sub (flexInsetRelativeSize a).height r.margin.top) r.margin.bottom - top - bottom
    let kd : Size (Option α) := { kd with height := some (Num.fmax newHeightRaw 0) }
    Size.oo_clamp (Size.maybeApplyAspectRatio kd ar) r.minSize r.maxSize
  | _, _, _ => kd

def flexKnown (a : FlexArgs α) (r : FlexResolved α) (ar : Option α) : Size (Option α) :=
  flexFillHeight a r ar (flexFillWidth a r ar (Size.oo_clamp r.styleSize r.minSize r.maxSize))

/-- l.2144–2154 -/
def flexChildInput (a : FlexArgs α) (r : FlexResolved α) (kd : Size (Option α)) : LayoutInput α :=
  performInput kd a.nodeInnerSize
    ⟨.definite (MaybeMath.fo_clamp a.containerSize.width r.minSize.width r.maxSize.width),
     .definite (MaybeMath.fo_clamp a.containerSize.height r.minSize.height r.maxSize.height)⟩
    .inherentSize

/-- l.2156 -/
def flexFinalSize (r : FlexResolved α) (kd : Size (Option α)) (measured : Size α) : Size α :=
  Size.fo_clamp (Size.unwrapOr kd measured) r.minSize r.maxSize

/-- l.2158–2193 -/
def flexResolvedMargin (a : FlexArgs α) (r : FlexResolved α) (finalSize : Size α) : Rect α :=
  let nonAutoMargin : Rect α :=
    ⟨r.margin.left.getD 0, r.margin.right.getD 0, r.margin.top.getD 0, r.margin.bottom.getD 0⟩
  let freeSpace : Size α :=
    Size.f32Max
      ⟨a.containerSize.width - finalSize.width - nonAutoMargin.horizontalAxisSum,
       a.containerSize.height - finalSize.height - nonAutoMargin.verticalAxisSum⟩
      Size.zero
  let autoW : α :=
    let n := autoCount r.margin.left r.margin.right
    if n > 0 then freeSpace.width / countF n else 0
  let autoH : α :=
    let n := autoCount r.margin.top r.margin.bottom
    if n > 0 then freeSpace.height / countF n else 0
  { left := r.margin.left.getD autoW, right := r.margin.right.getD autoW,
    top := r.margin.top.getD autoH, bottom := r.margin.bottom.getD autoH }

/-- l.2201–2240 -/
def flexOffsetMain (a : FlexArgs α) (startMain endMain : Option α) (finalSize : Size α) (rm : Rect α) : α :=
  let d := a.dir
  match startMain with
  | some start => start + Dir.mainStart a.border d + Dir.mainStart rm d
  | none =>
    match endMain with
    | some e =>
      a.containerSize.main d - Dir.mainEnd a.border d - Dir.pMain a.scrollbarGutter d - finalSize.main d - e
        - Dir.mainEnd rm d
    | none =>
      let startCase := Dir.mainStart a.contentBoxInset d + Dir.mainStart rm d
      let endCase := a.containerSize.main d - Dir.mainEnd a.contentBoxInset d - finalSize.main d - Dir.mainEnd rm d
      let centerCase :=
        (a.containerSize.main d + Dir.mainStart a.contentBoxInset d - Dir.mainEnd a.contentBoxInset d
          - finalSize.main d + Dir.mainStart rm d - Dir.mainEnd rm d) / Num.two
      match a.justifyContent.getD .start, a.isWrapReverse with
      | .spaceBetween, _ | .start, _ | .stretch, false | .flexStart, false | .flexEnd, true => startCase
      | .«end», _ | .flexEnd, false | .flexStart, true | .stretch, true => endCase
      | .spaceEvenly, _ | .spaceAround, _ | .center, _ => centerCase

/-- l.2244–2281 -/
def flexOffsetCross (a : FlexArgs α) (alignSelf : AlignItems) (startCross endCross : Option α) (finalSize : Size α)
    (rm : Rect α) : α :=
  let d := a.dir
  match startCross with
  | some start => start + Dir.crossStart a.border d + Dir.crossStart rm d
  | none =>
    match endCross with
    | some e =>
      a.containerSize.cross d - Dir.crossEnd a.border d - Dir.pCross a.scrollbarGutter d - finalSize.cross d - e
        - Dir.crossEnd rm d
    | none =>
      let startCase := Dir.crossStart a.contentBoxInset d + Dir.crossStart rm d
      let endCase := a.containerSize.cross d - Dir.crossEnd a.contentBoxInset d - finalSize.cross d - Dir.crossEnd rm d
      let centerCase :=
        (a.containerSize.cross d + Dir.crossStart a.contentBoxInset d - Dir.crossEnd a.contentBoxInset d
          - finalSize.cross d + Dir.crossStart rm d - Dir.crossEnd rm d) / Num.two
      match alignSelf, a.isWrapReverse with
      | .start, _ | .baseline, false | .stretch, false | .flexStart, false | .flexEnd, true => startCase
      | .«end», _ | .baseline, true | .stretch, true | .flexStart, true | .flexEnd, false => endCase
      | .center, _ => centerCase

/-- l.2196–2286 -/
def flexLocation (a : FlexArgs α) (r : FlexResolved α) (finalSize : Size α) (rm : Rect α) : Point α :=
  let isRow := a.dir.isRow
  let (startMain, endMain) := if isRow then (r.left, r.right) else (r.top, r.bottom)
  let (startCross, endCross) := if isRow then (r.top, r.bottom) else (r.left, r.right)
  let offsetMain := flexOffsetMain a startMain endMain finalSize rm
  let offsetCross := flexOffsetCross a r.alignSelf startCross endCross finalSize rm
  if isRow then ⟨offsetMain, offsetCross⟩ else ⟨offsetCross, offsetMain⟩

/-- the loop body of flexbox.rs `perform_absolute_layout_on_absolute_children` for one child -/
def absFlex (a : FlexArgs α) (st : Style α) (oracle : Oracle α) : Layout α :=
  let r := flexResolve a st
  let kd := flexKnown a r st.aspectRatio
  let out := oracle (flexChildInput a r kd)
  let finalSize := flexFinalSize r kd out.size
  let rm := flexResolvedMargin a r finalSize
  { order := a.order, size := finalSize, contentSize := out.contentSize, scrollbarSize := scrollbarSize st,
    location := flexLocation a r finalSize rm, padding := r.padding, border := r.border, margin := rm }

/-! ## grid: alignment.rs + the grid-area computation of grid/mod.rs -/

/-- arguments of `align_and_position_item(tree, child, order, grid_area, container_alignment_styles, baseline_shim)` -/
structure GridArgs (α : Type) where
  gridArea : Rect α
  /-- `container_alignment_styles.horizontal` = the container's `justify_items` -/
  justifyItems : Option AlignItems
  /-- `container_alignment_styles.vertical` = the container's `align_items` -/
  alignItems : Option AlignItems
  baselineShim : α
  order : Nat
deriving Repr, BEq, DecidableEq, Inhabited

/-- grid/mod.rs l.544–581 for a child whose `grid_row`/`grid_column` are `auto / auto` (both `maybe_*_indexes` are
`None`): the area is the padding box, gutter excluded.  `border` is resolved against `parent_size.width` (l.58). -/
def gridCallSite (cst : Style α) (parentSize : Size (Option α)) (containerBorderBox : Size α) (order : Nat) : GridArgs α :=
  let border := Resolve.rectLPOrZero cst.border parentSize.width
  let gutter := scrollbarGutter cst
  { gridArea :=
      { top := border.top, bottom := containerBorderBox.height - border.bottom - gutter.y,
        left := border.left, right := containerBorderBox.width - border.right - gutter.x },
    justifyItems := cst.justifyItems, alignItems := cst.alignItems, baselineShim := 0, order }

structure GridResolved (α : Type) where
  gridAreaSize : Size α
  insetH : Line (Option α)
  insetV : Line (Option α)
  padding : Rect α
  border : Rect α
  inherentSize : Size (Option α)
  minSize : Size (Option α)
  maxSize : Size (Option α)
  alignH : AlignItems
  alignV : AlignItems
  margin : Rect (Option α)
  areaMinusMargins : Size α
deriving Repr, BEq, DecidableEq, Inhabited

/-- alignment.rs l.67–142 -/
def gridResolve (a : GridArgs α) (st : Style α) : GridResolved α :=
  let gas : Size α := ⟨a.gridArea.right - a.gridArea.left, a.gridArea.bottom - a.gridArea.top⟩
  let gasOpt : Size (Option α) := ⟨some gas.width, some gas.height⟩
  let ar := st.aspectRatio
  let insetH : Line (Option α) := ⟨st.inset.left.resolveToOption gas.width, st.inset.right.resolveToOption gas.width⟩
  let insetV : Line (Option α) := ⟨st.inset.top.resolveToOption gas.height, st.inset.bottom.resolveToOption gas.height⟩
  let padding := Resolve.rectLPOrZero st.padding (some gas.width)
  let border := Resolve.rectLPOrZero st.border (some gas.width)
  let pbSize := (Rect.add padding border).sumAxes
  let bsa : Size α := if st.boxSizing == .contentBox then pbSize else Size.zero
  let inherentSize := Size.of_add (Size.maybeApplyAspectRatio (Resolve.sizeMaybe st.size gasOpt) ar) bsa
  let minSize :=
    Size.maybeApplyAspectRatio
      (Size.of_max (Size.orOpt (Size.of_add (Resolve.sizeMaybe st.minSize gasOpt) bsa) (pbSize.map some)) pbSize) ar
  let maxSize := Size.of_add (Size.maybeApplyAspectRatio (Resolve.sizeMaybe st.maxSize gasOpt) ar) bsa
  let alignH : AlignItems :=
    ((st.justifySelf.or a.justifyItems)).getD (if inherentSize.width.isSome then .start else .stretch)
  let alignV : AlignItems :=
    ((st.alignSelf.or a.alignItems)).getD (if inherentSize.height.isSome || ar.isSome then .start else .stretch)
  let margin : Rect (Option α) :=
    ⟨st.margin.left.resolveToOption gas.width, st.margin.right.resolveToOption gas.width,
     st.margin.top.resolveToOption gas.width, st.margin.bottom.resolveToOption gas.width⟩
  let areaMinusMargins : Size α :=
    ⟨MaybeMath.fo_sub (MaybeMath.fo_sub gas.width margin.left) margin.right,
     MaybeMath.fo_sub (MaybeMath.fo_sub gas.height margin.top) margin.bottom - a.baselineShim⟩
  { gridAreaSize := gas, insetH, insetV, padding, border, inherentSize, minSize, maxSize, alignH, alignV, margin,
    areaMinusMargins }

/-- alignment.rs l.146–168 -/
def gridWidth (r : GridResolved α) (position : Position) : Option α :=
  match r.inherentSize.width with
  | some w => some w
  | none =>
    match position == .absolute, r.insetH.start, r.insetH.«end» with
    | true, some left, some right => some (Num.fmax (r.areaMinusMargins.width - left - right) 0)
    | _, _, _ =>
      if r.margin.left.isSome && r.margin.right.isSome && r.alignH == .stretch && position != .absolute then
        some r.areaMinusMargins.width
      else none

/-- alignment.rs l.173–193 -/
def gridHeight (r : GridResolved α) (position : Position) (height : Option α) : Option α :=
  match height with
  | some h => some h
  | none =>
    match position == .absolute, r.insetV.start, r.insetV.«end» with
    | true, some top, some bottom => some (Num.fmax (r.areaMinusMargins.height - top - bottom) 0)
    | _, _, _ =>
      if r.margin.top.isSome && r.margin.bottom.isSome && r.alignV == .stretch && position != .absolute then
        some r.areaMinusMargins.height
      else none

/-- alignment.rs l.146–198: the known dimensions handed to the child -/
def gridKnown (r : GridResolved α) (position : Position) (ar : Option α) : Size (Option α) :=
  let width := gridWidth r position
  let s1 := Size.maybeApplyAspectRatio ⟨width, r.inherentSize.height⟩ ar
  let height := gridHeight r position s1.height
  let s2 := Size.maybeApplyAspectRatio ⟨s1.width, height⟩ ar
  Size.oo_clamp s2 r.minSize r.maxSize

/-- alignment.rs l.202–209 -/
def gridChildInput (r : GridResolved α) (kd : Size (Option α)) : LayoutInput α :=
  performInput kd ⟨some r.gridAreaSize.width, some r.gridAreaSize.height⟩
    ⟨.definite r.areaMinusMargins.width, .definite r.areaMinusMargins.height⟩ .inherentSize

/-- alignment.rs l.212 -/
def gridFinalSize (r : GridResolved α) (kd : Size (Option α)) (measured : Size α) : Size α :=
  Size.fo_clamp (Size.unwrapOr kd measured) r.minSize r.maxSize

/-- alignment.rs `align_item_within_area` -/
def alignItemWithinArea (gridArea : Line α) (alignmentStyle : AlignItems) (resolvedSize : α) (position : Position)
    (inset : Line (Option α)) (margin : Line (Option α)) (baselineShim : α) : α × Line α :=
  let nonAutoMargin : Line α := ⟨margin.start.getD 0 + baselineShim, margin.«end».getD 0⟩
  let gridAreaSize := Num.fmax (gridArea.«end» - gridArea.start) 0
  let freeSpace := Num.fmax (gridAreaSize - resolvedSize - (nonAutoMargin.start + nonAutoMargin.«end»)) 0
  let n := autoCount margin.start margin.«end»
  let autoMarginSize : α := if n > 0 then freeSpace / countF n else 0
  let resolvedMargin : Line α := ⟨margin.start.getD autoMarginSize + baselineShim, margin.«end».getD autoMarginSize⟩
  let alignmentBasedOffset : α :=
    match alignmentStyle with
    | .start | .flexStart => resolvedMargin.start
    | .«end» | .flexEnd => gridAreaSize - resolvedSize - resolvedMargin.«end»
    | .center => (gridAreaSize - resolvedSize + resolvedMargin.start - resolvedMargin.«end») / Num.two
    | .baseline => resolvedMargin.start
    | .stretch => resolvedMargin.start
  let offsetWithinArea : α :=
    if position == .absolute then
      match inset.start with
      | some start => start + nonAutoMargin.start
      | none =>
        match inset.«end» with
        | some e => gridAreaSize - e - resolvedSize - nonAutoMargin.«end»
        | none => alignmentBasedOffset
    else alignmentBasedOffset
  let start := gridArea.start + offsetWithinArea
  let start :=
    if position == .relative then start + ((inset.start.or (inset.«end».map fun p => -p)).getD 0) else start
  (start, resolvedMargin)

/-- alignment.rs `align_and_position_item` for one child: the `Layout` handed to `set_unrounded_layout` -/
def absGrid (a : GridArgs α) (st : Style α) (oracle : Oracle α) : Layout α :=
  let r := gridResolve a st
  let kd := gridKnown r st.position st.aspectRatio
  let out := oracle (gridChildInput r kd)
  let finalSize := gridFinalSize r kd out.size
  let (x, xMargin) :=
    alignItemWithinArea ⟨a.gridArea.left, a.gridArea.right⟩ (st.justifySelf.getD r.alignH) finalSize.width st.position
      r.insetH ⟨r.margin.left, r.margin.right⟩ 0
  let (y, yMargin) :=
    alignItemWithinArea ⟨a.gridArea.top, a.gridArea.bottom⟩ (st.alignSelf.getD r.alignV) finalSize.height st.position
      r.insetV ⟨r.margin.top, r.margin.bottom⟩ a.baselineShim
  { order := a.order, location := ⟨x, y⟩, size := finalSize, contentSize := out.contentSize,
    scrollbarSize := scrollbarSize st, padding := r.padding, border := r.border,
    margin := { left := xMargin.start, right := xMargin.«end», top := yMargin.start, bottom := yMargin.«end» } }

end AbsPos
