/-
  The child's sizing oracle used by the C11 *driver*: `compute_leaf_layout` (src/compute/leaf.rs) applied to the
  harness' measure function (`MeasureSpec.measure`; a leaf without context measures as 0×0).

  The C11 theorems quantify over an arbitrary oracle `LayoutInput α → LayoutOutput α`; this file is only what the
  correspondence run plugs in for it (a real two-node tree has a leaf as the absolutely positioned child).
  `RunMode::PerformHiddenLayout` is `unreachable!()` in the Rust and never requested by the three callers modelled in
  Model/AbsPos.lean (they all use `perform_child_layout`); here it is treated like `PerformLayout`.
-/
import TaffyVerif.Model.Prog

namespace LeafOracle
variable {α : Type} [Num α]

/-- `AvailableSpace::map_definite_value` -/
def mapDefinite (a : AvailableSpace α) (f : α → α) : AvailableSpace α :=
  match a with
  | .definite v => .definite (f v)
  | x => x

/-- `compute_leaf_layout(inputs, style, _, measure)` -/
def leafLayout (st : Style α) (ctx : Option (MeasureSpec α)) (inp : LayoutInput α) : LayoutOutput α :=
  let kd := inp.knownDimensions
  let ps := inp.parentSize
  let margin := Resolve.rectLPAOrZero st.margin ps.width
  let padding := Resolve.rectLPOrZero st.padding ps.width
  let border := Resolve.rectLPOrZero st.border ps.width
  let paddingBorder := Rect.add padding border
  let pbSum := paddingBorder.sumAxes
  let bsa : Size α := if st.boxSizing == .contentBox then pbSum else Size.zero
  let (nodeSize, nodeMin, nodeMax, aspect) : Size (Option α) × Size (Option α) × Size (Option α) × Option α :=
    match inp.sizingMode with
    | .contentSize => (kd, Size.none, Size.none, none)
    | .inherentSize =>
      let ar := st.aspectRatio
      let styleSize := Size.of_add (Size.maybeApplyAspectRatio (Resolve.sizeMaybe st.size ps) ar) bsa
      let styleMin := Size.of_add (Size.maybeApplyAspectRatio (Resolve.sizeMaybe st.minSize ps) ar) bsa
      let styleMax := Size.of_add (Resolve.sizeMaybe st.maxSize ps) bsa
      (Size.orOpt kd styleSize, styleMin, styleMax, ar)
  let gutter : Point α :=
    ⟨if st.overflow.y == .scroll then st.scrollbarWidth else 0, if st.overflow.x == .scroll then st.scrollbarWidth else 0⟩
  let cbi : Rect α := { paddingBorder with right := paddingBorder.right + gutter.x, bottom := paddingBorder.bottom + gutter.y }
  let hasStyles : Bool :=
    !st.isBlock || st.overflow.x.isScrollContainer || st.overflow.y.isScrollContainer || st.position == .absolute
      || Num.fgt padding.top 0 || Num.fgt padding.bottom 0 || Num.fgt border.top 0 || Num.fgt border.bottom 0
      || (match nodeSize.height with | some h => Num.fgt h 0 | none => false)
      || (match nodeMin.height with | some h => Num.fgt h 0 | none => false)
  let early : Option (LayoutOutput α) :=
    if inp.runMode == .computeSize && hasStyles then
      match nodeSize.width, nodeSize.height with
      | some w, some h =>
        let size := Size.fo_max (Size.fo_clamp ⟨w, h⟩ nodeMin nodeMax) (paddingBorder.sumAxes.map some)
        some { size, contentSize := Size.zero, firstBaselines := ⟨none, none⟩, topMargin := MarginSet.zero,
               bottomMargin := MarginSet.zero, marginsCanCollapseThrough := false }
      | _, _ => none
    else none
  match early with
  | some o => o
  | none =>
    let avW : AvailableSpace α :=
      mapDefinite
        (((MaybeMath.af_sub ((kd.width.map AvailableSpace.definite).getD inp.availableSpace.width)
            margin.horizontalAxisSum).maybeSet kd.width).maybeSet nodeSize.width)
        (fun s => MaybeMath.fo_clamp s nodeMin.width nodeMax.width - cbi.horizontalAxisSum)
    let avH : AvailableSpace α :=
      mapDefinite
        (((MaybeMath.af_sub ((kd.height.map AvailableSpace.definite).getD inp.availableSpace.height)
            margin.verticalAxisSum).maybeSet kd.height).maybeSet nodeSize.height)
        (fun s => MaybeMath.fo_clamp s nodeMin.height nodeMax.height - cbi.verticalAxisSum)
    let mKnown : Size (Option α) := match inp.runMode with
      | .computeSize => kd
      | _ => Size.none
    let measured : Size α := match ctx with
      | some m => m.measure mKnown ⟨avW, avH⟩
      | none => Size.zero
    let clamped := Size.fo_clamp (Size.unwrapOr (Size.orOpt kd nodeSize) (Size.add measured cbi.sumAxes)) nodeMin nodeMax
    let size : Size α :=
      ⟨clamped.width, Num.fmax clamped.height ((aspect.map fun r => clamped.width / r).getD 0)⟩
    let size := Size.fo_max size (paddingBorder.sumAxes.map some)
    { size, contentSize := Size.add measured padding.sumAxes, firstBaselines := ⟨none, none⟩,
      topMargin := MarginSet.zero, bottomMargin := MarginSet.zero,
      marginsCanCollapseThrough := !hasStyles && Num.feq size.height 0 && Num.feq measured.height 0 }

end LeafOracle
