/-
  The child's sizing oracle used by the C11 *driver*: `compute_leaf_layout` (src/compute/leaf.rs) applied to the
  harness' measure function (`MeasureSpec.measure`; a leaf without context measures as 0×0).

  The C11 theorems quantify over an arbitrary oracle `LayoutInput α → LayoutOutput α`; this file is only what the
  correspondence run plugs in for it (a real two-node tree has a leaf as the absolutely positioned child).
  `RunMode::PerformHiddenLayout` is `unreachable!()` in the Rust and never requested by the three callers modelled in
  Model/AbsPos.lean (they all use `perform_child_layout`); here it is treated like `PerformLayout`.
-/
import TaffyVerif.Model.Prog
import TaffyVerif.Model.Leaf

namespace LeafOracle
variable {α : Type} [Num α]

/-- `compute_leaf_layout(inputs, style, _, measure)`: the leaf model itself (Model/Leaf.lean, tied to leaf.rs by
Props/TieLeaf.lean and the C19 correspondence).  This file used to carry its own transliteration of leaf.rs, which was not
brought up to date with the repair 0f21303 (aspect-ratio floor before the min/max clamp): the C11 correspondence showed the
difference on an absolutely positioned leaf with an aspect ratio and a percentage max-height (model 5.5, implementation 5.0)
once the case count was scaled by four.  A driver-side helper only: no theorem mentions it. -/
def leafLayout (st : Style α) (ctx : Option (MeasureSpec α)) (inp : LayoutInput α) : LayoutOutput α :=
  let measure : Size (Option α) → Size (AvailableSpace α) → Size α :=
    match ctx with
    | some m => m.measure
    | none => fun _ _ => ⟨0, 0⟩
  match LeafModel.computeLeafLayout inp st measure with
  | .ok (o, _) => o
  | .error _ => LayoutOutput.hidden

end LeafOracle
