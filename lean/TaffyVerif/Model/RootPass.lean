/-
  The root driver over the tree-level evaluator, for an arbitrary node state:

    * `Eval.computeRootLayout` = `compute_root_layout` (src/compute/mod.rs l.58–153): derive the root's `LayoutInput`
      (`RootModel.rootInput`, Model/Root.lean) from the root style and the available space, `perform_child_layout` on the
      root (= `Eval.evalNodeWith`, Model/Eval.lean, in `RunMode::PerformLayout`), then `set_unrounded_layout(root, …)`
      (`RootModel.rootLayout`).  The EVAL tie's `DrvEVAL.layoutRoot` is this function on a freshly built tree
      (`C15Eval.driver_layoutRoot_eq`).
    * `Eval.computeLayoutWithMeasure` = `TaffyTree::compute_layout_with_measure` (src/tree/taffy_tree.rs l.912–929):
      read `config.use_rounding`, `compute_root_layout`, then `round_layout` (Model/Round.lean) iff rounding is enabled.
      The measure function is the one carried by the style tree (`STree.node _ ctx _`, `Eval.measureOf`).

  No Mathlib import.
-/
import TaffyVerif.Model.Eval
import TaffyVerif.Model.Root
import TaffyVerif.Model.Round

namespace Eval
variable {α : Type} [Num α] {C : Type}

/-- `tree.set_unrounded_layout(root, &layout)`: only the node's own `unrounded_layout` is written -/
def setRootLayout : NS α C → Layout α → NS α C
  | .mk c _ kids, l => .mk c l kids

/-- `compute_root_layout(tree, root, available_space)` for the node `t` with mutable data `ns` (any state: caches of
earlier passes, stale layouts, …); returns the root's `LayoutOutput` (a local of the Rust function) and the new state -/
def computeRootLayout (ci : CacheImpl α C) (sel : Display → Bool → Option Gen.Facts.Callee) (algs : Algs α)
    (fuel : Nat) (t : STree α) (availableSpace : Size (AvailableSpace α)) (ns : NS α C) : LayoutOutput α × NS α C :=
  -- l.59–123: known dimensions and the `perform_child_layout` call
  let r := evalNodeWith ci sel algs fuel t ns (RootModel.rootInput t.style availableSpace)
  -- l.125–152: the root's own layout
  (r.1, setRootLayout r.2 (RootModel.rootLayout t.style availableSpace r.1))

mutual
/-- every node's `unrounded_layout`, as the tree `round_layout` walks -/
def layoutTree : NS α C → LTree α
  | .mk _ l kids => .node l (layoutForest kids)
def layoutForest : List (NS α C) → List (LTree α)
  | [] => []
  | k :: ks => layoutTree k :: layoutForest ks
end

/-- the data of a `TaffyTree` below one root that `compute_layout*` reads or writes: per node the cache and the
`unrounded_layout` (`nodes`), per node the `final_layout` (`final`), and `config.use_rounding` -/
structure TaffyState (α : Type) (C : Type) where
  nodes : NS α C
  useRounding : Bool
  final : LTree α

/-- the rounding-relevant part of the state, as Model/Round.lean (C13) sees it -/
def TaffyState.roundState (s : TaffyState α C) : RoundModel.TreeState α :=
  { useRounding := s.useRounding, unrounded := layoutTree s.nodes, final := s.final }

/-- `TaffyTree::layout` for every node at once -/
def TaffyState.layout (s : TaffyState α C) : LTree α := s.roundState.layout

/-- `TaffyTree::compute_layout_with_measure(root, available_space, measure)` -/
def computeLayoutWithMeasure (ci : CacheImpl α C) (sel : Display → Bool → Option Gen.Facts.Callee) (algs : Algs α)
    (fuel : Nat) (t : STree α) (availableSpace : Size (AvailableSpace α)) (s : TaffyState α C) : TaffyState α C :=
  -- l.922
  let useRounding := s.useRounding
  -- l.924
  let r := computeRootLayout ci sel algs fuel t availableSpace s.nodes
  -- l.925–927
  { nodes := r.2, useRounding := s.useRounding,
    final := if useRounding then RoundModel.roundLayout (layoutTree r.2) else s.final }

end Eval
