/-
  One flex line, main axis (src/compute/flexbox.rs, src/compute/common/alignment.rs):

    * `resolveFlexibleLengths`        = `resolve_flexible_lengths`  (§9.7 freeze loop, under fuel)
    * `distributeRemainingFreeSpace`  = `distribute_remaining_free_space` for one line (auto margins, else
                                        `apply_alignment_fallback` + `compute_alignment_offset`)
    * `mainAxisPositions`             = main-axis part of `calculate_layout_line` / `calculate_flex_item`

  The model is over the *main-axis projection* of `FlexItem`: `Size::main(dir)`, `Rect::main_start/main_end(dir)`,
  `Rect::main_axis_sum(dir)` select `width`/`left`/`right` for row directions and `height`/`top`/`bottom` for column
  directions, reversed or not; that selection is done by the hook that builds the real `FlexItem`s, so the only thing
  the direction still decides here is `dir.isReverse`.

  Bit-exactness notes: `Iterator::sum::<f32>()` folds from −0.0 (`sumF`), the `fold((0.0, 0.0), …)`/`fold(0.0, …)`
  folds start from +0.0; `f32::is_normal` is false for ±0, subnormals, ±∞ and NaN (`NumX.isNormal`).
-/
import TaffyVerif.Model.Style

namespace FlexLine

/-- extension of `Num` by `f32::is_normal` (kept here so that `Num.lean` stays untouched) -/
class NumX (α : Type) where
  /-- Rust `f32::is_normal`: neither zero, subnormal, infinite nor NaN. Over ℚ: `x ≠ 0`. -/
  isNormal : α → Bool

instance : NumX Rat := ⟨fun x => decide (x ≠ 0)⟩

/-- exponent field neither all-zero (zero, subnormal) nor all-one (∞, NaN) -/
def f32IsNormal (x : Float32) : Bool :=
  let e := (x.toBits.toNat / 2 ^ 23) % 256
  e != 0 && e != 255

instance : NumX Float32 := ⟨f32IsNormal⟩

/-- main-axis view of `struct FlexItem`: the fields the three functions read or write -/
structure FlexItemM (α : Type) where
  /-- `flex_basis` -/
  flexBasis : α
  /-- `inner_flex_basis` -/
  innerFlexBasis : α
  /-- `hypothetical_inner_size.main` -/
  hypInner : α
  /-- `hypothetical_outer_size.main` -/
  hypOuter : α
  /-- `resolved_minimum_main_size` -/
  resolvedMinMain : α
  /-- `max_size.main` -/
  maxMain : Option α
  flexGrow : α
  flexShrink : α
  /-- `margin.main_start` / `margin.main_end` -/
  marginStart : α
  marginEnd : α
  /-- `margin_is_auto.main_start` / `.main_end` -/
  marginStartAuto : Bool
  marginEndAuto : Bool
  /-- `inset.main_start` / `inset.main_end` -/
  insetStart : Option α
  insetEnd : Option α
  frozen : Bool
  violation : α
  /-- `target_size.main` -/
  targetMain : α
  /-- `outer_target_size.main` -/
  outerTargetMain : α
  offsetMain : α
deriving Repr, BEq, DecidableEq, Inhabited

variable {α : Type} [Num α]

/-- `iter().sum::<f32>()`: folds `+` from −0.0 -/
def sumF (l : List α) : α := l.foldl (· + ·) (-(0 : α))

/-- `sum_axis_gaps` -/
def sumAxisGaps (gap : α) (n : Nat) : α :=
  if n ≤ 1 then 0 else gap * Num.ofNat (n - 1)

namespace FlexItemM
/-- `margin.main_axis_sum(dir)` = start + end -/
def marginSum (c : FlexItemM α) : α := c.marginStart + c.marginEnd
end FlexItemM

/-! ### `resolve_flexible_lengths` -/

/-- values fixed before the loop -/
structure RflCtx (α : Type) where
  /-- `constants.node_inner_size.main(dir)` -/
  innerMain : Option α
  /-- `total_main_axis_gap` -/
  gapTotal : α
  /-- `used_flex_factor` -/
  uff : α
  growing : Bool
  shrinking : Bool
  /-- `initial_free_space` -/
  initialFree : α

/-- step 2 for one child -/
def initFreeze (exactly growing shrinking : Bool) (c : FlexItemM α) : FlexItemM α :=
  let c := { c with targetMain := c.hypInner }
  if exactly
      || (Num.feq c.flexGrow 0 && Num.feq c.flexShrink 0)
      || (growing && Num.fgt c.flexBasis c.hypInner)
      || (shrinking && Num.flt c.flexBasis c.hypInner) then
    { c with frozen := true, outerTargetMain := c.hypInner + c.marginSum }
  else c

/-- `total_main_axis_gap + Σ (frozen ? outer_target_size : flex_basis + margin sum)` -/
def usedSpace (gapTotal : α) (items : List (FlexItemM α)) : α :=
  gapTotal + sumF (items.map fun c => if c.frozen then c.outerTargetMain else c.flexBasis + c.marginSum)

/-- step 4b: the remaining free space -/
def freeSpace (k : RflCtx α) (used sumGrow sumShrink : α) : α :=
  if k.growing && Num.flt sumGrow 1 then
    MaybeMath.fo_min (k.initialFree * sumGrow - k.gapTotal) (MaybeMath.of_sub k.innerMain used)
  else if k.shrinking && Num.flt sumShrink 1 then
    MaybeMath.fo_max (k.initialFree * sumShrink - k.gapTotal) (MaybeMath.of_sub k.innerMain used)
  else
    (MaybeMath.of_sub k.innerMain used).getD (k.uff - used)

/-- what step 4c does to every unfrozen item -/
inductive Dist (α : Type) where
  /-- target sizes are left as they are -/
  | keep
  /-- `flex_basis + free_space * (flex_grow / sum_flex_grow)` -/
  | grow (free sum : α)
  /-- `flex_basis + free_space * (inner_flex_basis * flex_shrink / sum_scaled_shrink_factor)` -/
  | shrink (free sumScaled : α)

def distTarget (d : Dist α) (c : FlexItemM α) : α :=
  match d with
  | .keep => c.targetMain
  | .grow f s => c.flexBasis + f * (c.flexGrow / s)
  | .shrink f s => c.flexBasis + f * ((c.innerFlexBasis * c.flexShrink) / s)

/-- `target.maybe_clamp(Some(resolved_minimum_main_size), max_size.main).max(0.0)` -/
def clampMain (c : FlexItemM α) (t : α) : α :=
  Num.fmax (MaybeMath.fo_clamp t (some c.resolvedMinMain) c.maxMain) 0

/-- step 4d for one unfrozen child whose (unclamped) target is `t` -/
def clampItem (c : FlexItemM α) (t : α) : FlexItemM α :=
  let clamped := clampMain c t
  { c with violation := clamped - t, targetMain := clamped, outerTargetMain := clamped + c.marginSum }

/-- step 4e for one unfrozen child -/
def freezeItem (total : α) (c : FlexItemM α) : FlexItemM α :=
  if Num.fgt total 0 then { c with frozen := Num.fgt c.violation 0 }
  else if Num.flt total 0 then { c with frozen := Num.flt c.violation 0 }
  else { c with frozen := true }

variable [NumX α]

/-- which distribution step 4c performs -/
def chooseDist (k : RflCtx α) (unfrozen : List (FlexItemM α)) (free sumGrow sumShrink : α) : Dist α :=
  if NumX.isNormal free then
    if k.growing && Num.fgt sumGrow 0 then .grow free sumGrow
    else if k.shrinking && Num.fgt sumShrink 0 then
      let sumScaled := sumF (unfrozen.map fun c => c.innerFlexBasis * c.flexShrink)
      if Num.fgt sumScaled 0 then .shrink free sumScaled else .keep
    else .keep
  else .keep

/-- one pass through the body of `loop { … }` (after the all-frozen test) -/
def iter (k : RflCtx α) (items : List (FlexItemM α)) : List (FlexItemM α) :=
  let used := usedSpace k.gapTotal items
  let unfrozen := items.filter fun c => !c.frozen
  let sumGrow := unfrozen.foldl (fun a c => a + c.flexGrow) (0 : α)
  let sumShrink := unfrozen.foldl (fun a c => a + c.flexShrink) (0 : α)
  let free := freeSpace k used sumGrow sumShrink
  let d := chooseDist k unfrozen free sumGrow sumShrink
  -- c + d: new target, clamp, violation (frozen children are not touched)
  let items1 := items.map fun c => if c.frozen then c else clampItem c (distTarget d c)
  let total := (items1.filter fun c => !c.frozen).foldl (fun a c => a + c.violation) (0 : α)
  -- e
  items1.map fun c => if c.frozen then c else freezeItem total c

/-- the `loop`; `none` = the fuel ran out (never with `fuel ≥ number of items`, see `C07.freeze_loop_terminates`) -/
def loop (k : RflCtx α) : Nat → List (FlexItemM α) → Option (List (FlexItemM α))
  | fuel, items =>
    if items.all (·.frozen) then some items
    else match fuel with
      | 0 => none
      | fuel + 1 => loop k fuel (iter k items)

/-- `resolve_flexible_lengths(line, constants)` with `innerMain = constants.node_inner_size.main(dir)` and
    `gap = constants.gap.main(dir)` -/
def resolveFlexibleLengths (items : List (FlexItemM α)) (innerMain : Option α) (gap : α) (fuel : Nat) :
    Option (List (FlexItemM α)) :=
  let gapTotal := sumAxisGaps gap items.length
  let totalHyp := sumF (items.map (·.hypOuter))
  let uff := gapTotal + totalHyp
  let inner0 := innerMain.getD 0
  let growing := Num.flt uff inner0
  let shrinking := Num.fgt uff inner0
  let exactly := !growing && !shrinking
  let items := items.map (initFreeze exactly growing shrinking)
  if exactly then some items
  else
    let used := usedSpace gapTotal items
    let initialFree := (MaybeMath.of_sub innerMain used).getD 0
    loop { innerMain, gapTotal, uff, growing, shrinking, initialFree } fuel items

/-! ### alignment (common/alignment.rs) -/

omit [NumX α] in
/-- `apply_alignment_fallback` -/
def applyAlignmentFallback (free : α) (n : Nat) (mode : AlignContent) (isSafe : Bool) : AlignContent :=
  let ms : AlignContent × Bool :=
    if n ≤ 1 || Num.fle free 0 then
      match mode with
      | .stretch => (.flexStart, true)
      | .spaceBetween => (.flexStart, true)
      | .spaceAround => (.center, true)
      | .spaceEvenly => (.center, true)
      | m => (m, isSafe)
    else (mode, isSafe)
  if Num.fle free 0 && ms.2 then .start else ms.1

omit [NumX α] in
/-- `compute_alignment_offset` -/
def computeAlignmentOffset (free : α) (n : Nat) (gap : α) (mode : AlignContent) (reversed isFirst : Bool) : α :=
  if isFirst then
    match mode with
    | .start => 0
    | .flexStart => if reversed then free else 0
    | .end => free
    | .flexEnd => if reversed then 0 else free
    | .center => free / Num.two
    | .stretch => 0
    | .spaceBetween => 0
    | .spaceAround => if Num.fge free 0 then (free / Num.ofNat n) / Num.two else free / Num.two
    | .spaceEvenly => if Num.fge free 0 then free / Num.ofNat (n + 1) else free / Num.two
  else
    let free := Num.fmax free 0
    gap + match mode with
      | .spaceBetween => free / Num.ofNat (n - 1)
      | .spaceAround => free / Num.ofNat n
      | .spaceEvenly => free / Num.ofNat (n + 1)
      | _ => 0

/-! ### `distribute_remaining_free_space` (one line) -/

omit [NumX α] in
/-- `iter_mut().enumerate().for_each(justify_item)`: the first visited item is the one with `i == 0` -/
def justifyForward (f : Bool → α) : List (FlexItemM α) → List (FlexItemM α)
  | [] => []
  | c :: rest => { c with offsetMain := f true } :: rest.map fun c => { c with offsetMain := f false }

omit [NumX α] in
/-- number of `auto` main-axis margins on the line -/
def numAutoMargins (items : List (FlexItemM α)) : Nat :=
  items.foldl (fun k c => k + (if c.marginStartAuto then 1 else 0) + (if c.marginEndAuto then 1 else 0)) 0

omit [NumX α] in
/-- `distribute_remaining_free_space` for one line; `innerContainerMain = constants.inner_container_size.main(dir)` -/
def distributeRemainingFreeSpace (items : List (FlexItemM α)) (innerContainerMain gap : α)
    (justifyContent : Option AlignContent) (dir : FlexDirection) : List (FlexItemM α) :=
  let n := items.length
  let gapTotal := sumAxisGaps gap n
  let used := gapTotal + sumF (items.map (·.outerTargetMain))
  let free := innerContainerMain - used
  let numAuto := numAutoMargins items
  if Num.fgt free 0 && decide (numAuto > 0) then
    let m := free / Num.ofNat numAuto
    items.map fun c =>
      { c with marginStart := if c.marginStartAuto then m else c.marginStart,
               marginEnd := if c.marginEndAuto then m else c.marginEnd }
  else
    let reversed := dir.isReverse
    let mode := applyAlignmentFallback free n (justifyContent.getD .flexStart) false
    let f := fun isFirst => computeAlignmentOffset free n gap mode reversed isFirst
    if reversed then (justifyForward f items.reverse).reverse else justifyForward f items

/-! ### main-axis positions (`calculate_layout_line` + `calculate_flex_item`) -/

omit [NumX α] in
/-- one `calculate_flex_item`: `(location.main, new total_offset_main)`; `size` is the main size the child returned -/
def posStep (total : α) (c : FlexItemM α) (size : α) : α × α :=
  let loc := total + c.offsetMain + c.marginStart + ((c.insetStart.or (c.insetEnd.map fun p => -p)).getD 0)
  (loc, total + (c.offsetMain + c.marginSum + size))

omit [NumX α] in
def posGo (total : α) : List (FlexItemM α × α) → List α
  | [] => []
  | (c, s) :: rest => (posStep total c s).1 :: posGo (posStep total c s).2 rest

omit [NumX α] in
/-- `calculate_layout_line`: each item is paired with the main size its child returns from `perform_child_layout`;
    `start = padding_border.main_start(dir)`. Result: `location.main` of every item, in document order. -/
def mainAxisPositions (zs : List (FlexItemM α × α)) (start : α) (dir : FlexDirection) : List α :=
  if dir.isReverse then (posGo start zs.reverse).reverse else posGo start zs

omit [NumX α] in
/-- margin box `(start, end)` of an item placed at `loc` with main size `size` -/
def marginBox (c : FlexItemM α) (size loc : α) : α × α :=
  (loc - c.marginStart, loc + size + c.marginEnd)

omit [NumX α] in
def boxGo (total : α) : List (FlexItemM α × α) → List (α × α)
  | [] => []
  | (c, s) :: rest => marginBox c s (posStep total c s).1 :: boxGo (posStep total c s).2 rest

omit [NumX α] in
/-- margin boxes of the items of a line, in document order: `marginBox` of every item at its `mainAxisPositions`
    location (`C07.marginBoxes_eq_zip`) -/
def marginBoxes (zs : List (FlexItemM α × α)) (start : α) (dir : FlexDirection) : List (α × α) :=
  if dir.isReverse then (boxGo start zs.reverse).reverse else boxGo start zs

end FlexLine
