/-
  Vocabulary for functions of track_sizing.rs that call the tree through a grid item (`extract/src/tracks2.rs`, interaction form
  →  Generated/TrackSizing3.lean).  Hand-written, no Mathlib.

    * `ItemProg ι α β`: programs over an abstract item type `ι` (Rust: `GridItem`).  One node per tree-touching call, in the Rust
      order: `max_content_contribution_cached item axis known_dimensions inner_node_size` answers the contribution and the updated
      item (the method fills the item's cache); `fail e` is a panic of the surrounding code (`Except GErr` lifted by `ofExcept`).
    * `ItemProg.filterMapM p f l`: `l.iter_mut().filter(p).map(f)` consumed front to back — per item: `p`, then (if it holds) `f`,
      which answers the mapped value and the updated item; the values of the kept items and the whole updated list are answered.
    * `ItemProg.run h`: the meaning of a program when the tree-touching call is the pure function `h` (an oracle for the
      contribution; it may update the item)
    * `indexRange l (a, b)`: `&l[a..b]` (panics when `a > b` or `b > l.len()`: `GErr.overflow` stands for the slice-index panic)
    * `maxByTotalCmp l`: `l.max_by(|a, b| a.total_cmp(b))` without NaN: the LAST of the maxima.  CONVENTION (as for
      `Ext.minByTotalCmp`): −0.0 and +0.0 are not told apart, so the answer can differ from Rust's in the sign of a zero.
-/
import TaffyVerif.Model.SliceOps2
import TaffyVerif.Model.GridItem

namespace Slice
open GridTracks (GErr)
open GridModel (Ax)

inductive ItemProg (ι α β : Type) where
  | ret (b : β)
  | fail (e : GErr)
  | maxContentContributionCached (item : ι) (axis : Ax) (knownDimensions innerNodeSize : Size (Option α))
      (k : α × ι → ItemProg ι α β)

namespace ItemProg
variable {ι α β γ : Type}

def bind : ItemProg ι α β → (β → ItemProg ι α γ) → ItemProg ι α γ
  | .ret b, f => f b
  | .fail e, _ => .fail e
  | .maxContentContributionCached it ax kd ins k, f => .maxContentContributionCached it ax kd ins (fun r => bind (k r) f)

instance : Monad (ItemProg ι α) where
  pure := .ret
  bind := bind

/-- an outcome of `Except GErr` inside a program -/
def ofExcept : Except GErr β → ItemProg ι α β
  | .ok b => .ret b
  | .error e => .fail e

/-- `item.max_content_contribution_cached(axis, tree, known_dimensions, inner_node_size)` -/
def max_content_contribution_cached (item : ι) (axis : Ax) (knownDimensions innerNodeSize : Size (Option α)) :
    ItemProg ι α (α × ι) :=
  .maxContentContributionCached item axis knownDimensions innerNodeSize .ret

/-- `l.iter_mut().filter(p).map(f)`, consumed -/
def filterMapM (p : ι → Bool) (f : ι → ItemProg ι α (β × ι)) : List ι → ItemProg ι α (List β × List ι)
  | [] => pure ([], [])
  | x :: rest =>
    if p x then do
      let r ← f x
      let rs ← filterMapM p f rest
      pure (r.1 :: rs.1, r.2 :: rs.2)
    else do
      let rs ← filterMapM p f rest
      pure (rs.1, x :: rs.2)

/-- the meaning of a program under a pure handler of the tree-touching call -/
def run (h : ι → Ax → Size (Option α) → Size (Option α) → α × ι) : ItemProg ι α β → Except GErr β
  | .ret b => .ok b
  | .fail e => .error e
  | .maxContentContributionCached it ax kd ins k => run h (k (h it ax kd ins))

end ItemProg

/-- `&l[a..b]` -/
def indexRange {β : Type} (l : List β) (r : Nat × Nat) : Except GErr (List β) :=
  if r.1 ≤ r.2 ∧ r.2 ≤ l.length then .ok ((l.drop r.1).take (r.2 - r.1)) else .error .overflow

/-- `l.max_by(|a, b| a.total_cmp(b))` (see the header for the convention on zeros) -/
def maxByTotalCmp {α : Type} [Num α] : List α → Option α
  | [] => none
  | x :: rest => some (rest.foldl (fun acc y => if Num.flt y acc then acc else y) x)

end Slice
