/-
  Model of src/compute/block.rs (CSS block layout), written as an interaction program (`ProgM`).

  Correspondence of names (Rust → Lean):
    compute_block_layout                          → `computeBlockLayout`
    compute_inner                                 → `computeInner`
    generate_item_list                            → `generateItemList` / `generateItem`
    determine_content_based_container_width       → `contentWidthLoop`
    perform_final_layout_on_in_flow_children      → `performFinalLayoutOnInFlowChildren`
        one iteration of its loop body            → `itemInput` (the child query) and `placeItem` (everything after it)
    perform_absolute_layout_on_absolute_children  → `absLoop` / `absItem`
    hidden loop (step 5)                          → `hiddenLoop`
    compute_content_size_contribution             → `contentSizeContribution`

  Children are addressed by their index in the container's child list (`BlockItem.nodeIdx`); the children's styles are
  pure reads.  The order of `call`/`setLayout` effects is the order in which the Rust calls
  `perform_child_layout` / `set_unrounded_layout`.

  `runProg` executes a program against a (stateful) oracle answering the child queries and collects the layouts set.
  `flowTrace` is the pure unfolding of the in-flow loop for a given list of child answers; `Props/C10.lean` proves the
  property clauses about `flowTrace` for *every* list of answers and `Lemmas/Block.lean` shows that running the loop
  program against any oracle is `flowTrace` on the oracle's answers.
-/
import TaffyVerif.Model.Prog

namespace BlockModel
variable {α : Type} [Num α]

/-- `struct BlockItem` -/
structure BlockItem (α : Type) where
  /-- `node_id`: index of the child in the container's child list -/
  nodeIdx : Nat
  order : Nat
  isTable : Bool
  size : Size (Option α)
  minSize : Size (Option α)
  maxSize : Size (Option α)
  overflow : Point Overflow
  scrollbarWidth : α
  position : Position
  inset : Rect (LPA α)
  margin : Rect (LPA α)
  padding : Rect α
  border : Rect α
  paddingBorderSum : Size α
  computedSize : Size α
  staticPosition : Point α
  canBeCollapsedThrough : Bool
deriving Repr, BEq, Inhabited

/-- `style.size().maybe_resolve(ctx).maybe_apply_aspect_ratio(ar).maybe_add(box_sizing_adjustment)` -/
def resolveStyleSize (d : Size (Dimension α)) (ctx : Size (Option α)) (ar : Option α) (adj : Size α) :
    Size (Option α) :=
  ((Resolve.sizeMaybe d ctx).maybeApplyAspectRatio ar).of_add adj

/-- `if style.box_sizing() == ContentBox { pb } else { Size::ZERO }` -/
def boxSizingAdjustment (s : Style α) (pb : Size α) : Size α :=
  if s.boxSizing == .contentBox then pb else Size.zero

/-- scrollbar gutter of a container (axes transposed) -/
def scrollbarGutter (s : Style α) : Rect α :=
  let ox : α := if s.overflow.y == .scroll then s.scrollbarWidth else 0
  let oy : α := if s.overflow.x == .scroll then s.scrollbarWidth else 0
  { top := 0, left := 0, right := ox, bottom := oy }

/-! ### generate_item_list -/

/-- the closure body of `generate_item_list` -/
def generateItem (nodeIdx order : Nat) (cs : Style α) (inner : Size (Option α)) : BlockItem α :=
  let padding := Resolve.rectLPOrZeroSize cs.padding inner
  let border := Resolve.rectLPOrZeroSize cs.border inner
  let pbSum := (padding.add border).sumAxes
  let adj := boxSizingAdjustment cs pbSum
  { nodeIdx, order, isTable := cs.itemIsTable,
    size := resolveStyleSize cs.size inner cs.aspectRatio adj,
    minSize := resolveStyleSize cs.minSize inner cs.aspectRatio adj,
    maxSize := resolveStyleSize cs.maxSize inner cs.aspectRatio adj,
    overflow := cs.overflow, scrollbarWidth := cs.scrollbarWidth, position := cs.position,
    inset := cs.inset, margin := cs.margin, padding, border, paddingBorderSum := pbSum,
    computedSize := Size.zero, staticPosition := ⟨0, 0⟩, canBeCollapsedThrough := false }

/-- `.filter(box_generation_mode != None).enumerate().map(..)`: `idx` counts all children, `order` the kept ones -/
def generateItemsFrom (inner : Size (Option α)) : List (Style α) → Nat → Nat → List (BlockItem α)
  | [], _, _ => []
  | cs :: rest, idx, order =>
    if cs.isHidden then generateItemsFrom inner rest (idx + 1) order
    else generateItem idx order cs inner :: generateItemsFrom inner rest (idx + 1) (order + 1)

def generateItemList (childStyles : List (Style α)) (inner : Size (Option α)) : List (BlockItem α) :=
  generateItemsFrom inner childStyles 0 0

/-! ### determine_content_based_container_width -/

def contentWidthLoop (availableWidth : AvailableSpace α) : List (BlockItem α) → α → ProgM α α
  | [], acc => pure acc
  | item :: rest, acc =>
    if item.position == .absolute then contentWidthLoop availableWidth rest acc
    else do
      let kd := item.size.oo_clamp item.minSize item.maxSize
      let width ← (match kd.width with
        | some w => (pure w : ProgM α α)
        | none => do
          let xms := (Resolve.rectLPAOrZero item.margin availableWidth.intoOption).horizontalAxisSum
          let out ← ProgM.performChildLayout item.nodeIdx kd Size.none
            ⟨MaybeMath.af_sub availableWidth xms, .minContent⟩ .inherentSize ⟨true, true⟩
          pure (out.size.width + xms))
      let width := Num.fmax width item.paddingBorderSum.width
      contentWidthLoop availableWidth rest (Num.fmax acc width)

/-! ### perform_final_layout_on_in_flow_children -/

/-- the arguments of `perform_final_layout_on_in_flow_children` that stay fixed during the loop -/
structure FlowCtx (α : Type) where
  containerOuterWidth : α
  contentBoxInset : Rect α
  resolvedContentBoxInset : Rect α
  textAlign : TextAlign
  ownMarginsCollapseWithChildren : Line Bool
deriving Repr, Inhabited

/-- the `let mut` variables of the loop -/
structure FlowState (α : Type) where
  inflowContentSize : Size α
  committedYOffset : α
  yOffsetForAbsolute : α
  firstChildTopMarginSet : MarginSet α
  activeCollapsibleMarginSet : MarginSet α
  isCollapsingWithFirstMarginSet : Bool
deriving Repr, Inhabited

namespace FlowCtx
def containerInnerWidth (c : FlowCtx α) : α := c.containerOuterWidth - c.contentBoxInset.horizontalAxisSum
def initState (c : FlowCtx α) : FlowState α :=
  { inflowContentSize := Size.zero, committedYOffset := c.resolvedContentBoxInset.top,
    yOffsetForAbsolute := c.resolvedContentBoxInset.top, firstChildTopMarginSet := MarginSet.zero,
    activeCollapsibleMarginSet := MarginSet.zero, isCollapsingWithFirstMarginSet := true }
end FlowCtx

/-- `item.margin.map(|m| m.resolve_to_option(container_outer_width))` -/
def itemMargin (c : FlowCtx α) (item : BlockItem α) : Rect (Option α) :=
  ⟨item.margin.left.resolveToOption c.containerOuterWidth, item.margin.right.resolveToOption c.containerOuterWidth,
   item.margin.top.resolveToOption c.containerOuterWidth, item.margin.bottom.resolveToOption c.containerOuterWidth⟩

def itemNonAutoXMarginSum (c : FlowCtx α) (item : BlockItem α) : α :=
  let m := itemMargin c item
  (m.left.getD 0) + (m.right.getD 0)

/-- the `known_dimensions` handed to the child in the final pass (stretch-fit width unless the item is a table) -/
def itemKnownDimensions (c : FlowCtx α) (item : BlockItem α) : Size (Option α) :=
  if item.isTable then Size.none
  else
    let w : Option α := some (MaybeMath.fo_clamp
      (item.size.width.getD (c.containerInnerWidth - itemNonAutoXMarginSum c item))
      item.minSize.width item.maxSize.width)
    (⟨w, item.size.height⟩ : Size (Option α)).oo_clamp item.minSize item.maxSize

/-- the `LayoutInput` of the final `perform_child_layout` of an in-flow item -/
def itemInput (c : FlowCtx α) (item : BlockItem α) : LayoutInput α :=
  { runMode := .performLayout, sizingMode := .inherentSize, axis := .both,
    knownDimensions := itemKnownDimensions c item,
    parentSize := ⟨some c.containerOuterWidth, none⟩,
    availableSpace := ⟨MaybeMath.af_sub (.definite c.containerInnerWidth) (itemNonAutoXMarginSum c item), .minContent⟩,
    verticalMarginsAreCollapsible := ⟨true, true⟩ }

/-- `compute_content_size_contribution` (compute/common/content_size.rs) -/
def contentSizeContribution (location : Point α) (size contentSize : Size α) (overflow : Point Overflow) : Size α :=
  let w := match overflow.x with
    | .visible => Num.fmax size.width contentSize.width
    | _ => size.width
  let h := match overflow.y with
    | .visible => Num.fmax size.height contentSize.height
    | _ => size.height
  if Num.fgt w 0 && Num.fgt h 0 then ⟨location.x + w, location.y + h⟩ else Size.zero

/-- the child's top margin set united with the item's own top margin -/
def topMarginSet (c : FlowCtx α) (item : BlockItem α) (out : LayoutOutput α) : MarginSet α :=
  out.topMargin.collapseWithMargin ((itemMargin c item).top.getD 0)
def bottomMarginSet (c : FlowCtx α) (item : BlockItem α) (out : LayoutOutput α) : MarginSet α :=
  out.bottomMargin.collapseWithMargin ((itemMargin c item).bottom.getD 0)

/-- `inset_offset.y` -/
def insetOffsetY (item : BlockItem α) : α :=
  let top := item.inset.top.maybeResolve (some (0 : α))
  let bottom := item.inset.bottom.maybeResolve (some (0 : α))
  (top.or (bottom.map fun x => -x)).getD 0

def insetOffsetX (c : FlowCtx α) (item : BlockItem α) : α :=
  let left := item.inset.left.maybeResolve (some c.containerInnerWidth)
  let right := item.inset.right.maybeResolve (some c.containerInnerWidth)
  (left.or (right.map fun x => -x)).getD 0

/-- `y_margin_offset` -/
def yMarginOffset (c : FlowCtx α) (st : FlowState α) (topSet : MarginSet α) : α :=
  if st.isCollapsingWithFirstMarginSet && c.ownMarginsCollapseWithChildren.start then 0
  else (st.activeCollapsibleMarginSet.collapseWithSet topSet).resolve

/-- result of one loop iteration for an in-flow item -/
structure Placed (α : Type) where
  st : FlowState α
  item : BlockItem α
  layout : Layout α
deriving Repr, Inhabited

/-- the loop body after `perform_child_layout` returned `out` -/
def placeItem (c : FlowCtx α) (st : FlowState α) (item : BlockItem α) (out : LayoutOutput α) : Placed α :=
  let containerInnerWidth := c.containerInnerWidth
  let itemMargin := itemMargin c item
  let itemNonAutoXMarginSum := itemNonAutoXMarginSum c item
  let finalSize := out.size
  let topSet := topMarginSet c item out
  let bottomSet := bottomMarginSet c item out
  let freeXSpace := Num.fmax 0 (containerInnerWidth - finalSize.width - itemNonAutoXMarginSum)
  let autoMarginCount : Nat := (if itemMargin.left.isNone then 1 else 0) + (if itemMargin.right.isNone then 1 else 0)
  let xAxisAutoMarginSize : α := if autoMarginCount > 0 then freeXSpace / Num.ofNat autoMarginCount else 0
  let resolvedMargin : Rect α :=
    { left := itemMargin.left.getD xAxisAutoMarginSize, right := itemMargin.right.getD xAxisAutoMarginSize,
      top := topSet.resolve, bottom := bottomSet.resolve }
  let insetOffset : Point α := ⟨insetOffsetX c item, insetOffsetY item⟩
  let yMarginOffset := yMarginOffset c st topSet
  let staticPosition : Point α :=
    ⟨c.resolvedContentBoxInset.left, st.committedYOffset + st.activeCollapsibleMarginSet.resolve⟩
  let x0 : α := c.resolvedContentBoxInset.left + insetOffset.x + resolvedMargin.left
  let itemOuterWidth := out.size.width + resolvedMargin.horizontalAxisSum
  -- Apply alignment (`location.x += …`; `location.y` is not touched)
  let x : α :=
    if Num.flt itemOuterWidth containerInnerWidth then
      match c.textAlign with
      | .auto => x0
      | .legacyLeft => x0
      | .legacyRight => x0 + (containerInnerWidth - itemOuterWidth)
      | .legacyCenter => x0 + (containerInnerWidth - itemOuterWidth) / Num.two
    else x0
  let location : Point α := ⟨x, st.committedYOffset + insetOffset.y + yMarginOffset⟩
  let scrollbarSize : Size α :=
    ⟨if item.overflow.y == .scroll then item.scrollbarWidth else 0,
     if item.overflow.x == .scroll then item.scrollbarWidth else 0⟩
  let layout : Layout α :=
    { order := item.order, size := out.size, contentSize := out.contentSize, scrollbarSize, location,
      padding := item.padding, border := item.border, margin := resolvedMargin }
  let inflowContentSize :=
    st.inflowContentSize.f32Max (contentSizeContribution location finalSize out.contentSize item.overflow)
  let canCollapse := out.marginsCanCollapseThrough
  -- Update first_child_top_margin_set
  let (firstSet, isFirst) :=
    if st.isCollapsingWithFirstMarginSet then
      if canCollapse then
        ((st.firstChildTopMarginSet.collapseWithSet topSet).collapseWithSet bottomSet, true)
      else (st.firstChildTopMarginSet.collapseWithSet topSet, false)
    else (st.firstChildTopMarginSet, false)
  -- Update active_collapsible_margin_set
  let st' : FlowState α :=
    if canCollapse then
      { inflowContentSize, committedYOffset := st.committedYOffset,
        yOffsetForAbsolute := st.committedYOffset + out.size.height + yMarginOffset,
        firstChildTopMarginSet := firstSet,
        activeCollapsibleMarginSet := (st.activeCollapsibleMarginSet.collapseWithSet topSet).collapseWithSet bottomSet,
        isCollapsingWithFirstMarginSet := isFirst }
    else
      let committed := st.committedYOffset + (out.size.height + yMarginOffset)
      { inflowContentSize, committedYOffset := committed,
        yOffsetForAbsolute := committed + bottomSet.resolve,
        firstChildTopMarginSet := firstSet,
        activeCollapsibleMarginSet := bottomSet,
        isCollapsingWithFirstMarginSet := isFirst }
  { st := st',
    item := { item with computedSize := out.size, canBeCollapsedThrough := canCollapse, staticPosition },
    layout }

/-- the `for item in items.iter_mut()` loop: returns the updated items and the final loop state -/
def flowLoop (c : FlowCtx α) : List (BlockItem α) → FlowState α → ProgM α (List (BlockItem α) × FlowState α)
  | [], st => pure ([], st)
  | item :: rest, st =>
    if item.position == .absolute then do
      let item' := { item with staticPosition := ⟨c.resolvedContentBoxInset.left, st.yOffsetForAbsolute⟩ }
      let (rest', st') ← flowLoop c rest st
      pure (item' :: rest', st')
    else do
      let out ← ProgM.computeChildLayout item.nodeIdx (itemInput c item)
      let p := placeItem c st item out
      ProgM.setUnroundedLayout item.nodeIdx p.layout
      let (rest', st') ← flowLoop c rest p.st
      pure (p.item :: rest', st')

/-- what `perform_final_layout_on_in_flow_children` returns, from the final loop state -/
def flowResult (c : FlowCtx α) (st : FlowState α) : Size α × α × MarginSet α × MarginSet α :=
  let lastSet := st.activeCollapsibleMarginSet
  let bottomYMarginOffset : α := if c.ownMarginsCollapseWithChildren.end then 0 else lastSet.resolve
  let committed := st.committedYOffset + (c.resolvedContentBoxInset.bottom + bottomYMarginOffset)
  let contentHeight := Num.fmax 0 committed
  (st.inflowContentSize, contentHeight, st.firstChildTopMarginSet, lastSet)

def performFinalLayoutOnInFlowChildren (c : FlowCtx α) (items : List (BlockItem α)) :
    ProgM α (List (BlockItem α) × (Size α × α × MarginSet α × MarginSet α)) := do
  let (items', st) ← flowLoop c items c.initState
  pure (items', flowResult c st)

/-- Pure unfolding of `flowLoop` for given child answers `outs` (one per in-flow item, in order): the loop state before
each in-flow item, the item, the answer, and the placement.  Absolutely positioned items do not touch the loop state. -/
structure FlowStep (α : Type) where
  before : FlowState α
  item : BlockItem α
  out : LayoutOutput α
  placed : Placed α
deriving Inhabited

def flowTrace (c : FlowCtx α) : List (BlockItem α) → FlowState α → List (LayoutOutput α) → List (FlowStep α)
  | [], _, _ => []
  | item :: rest, st, outs =>
    if item.position == .absolute then flowTrace c rest st outs
    else
      match outs with
      | [] => []
      | out :: outs' =>
        let p := placeItem c st item out
        { before := st, item, out, placed := p } :: flowTrace c rest p.st outs'

/-- final loop state of the pure unfolding -/
def flowFinal (c : FlowCtx α) : List (BlockItem α) → FlowState α → List (LayoutOutput α) → FlowState α
  | [], st, _ => st
  | item :: rest, st, outs =>
    if item.position == .absolute then flowFinal c rest st outs
    else
      match outs with
      | [] => st
      | out :: outs' => flowFinal c rest (placeItem c st item out).st outs'

/-! ### perform_absolute_layout_on_absolute_children -/

/-- one iteration of the loop body for an absolutely positioned item; `cs` is the child's style -/
def absItem (item : BlockItem α) (cs : Style α) (areaSize : Size α) (areaOffset : Point α) (acc : Size α) :
    ProgM α (Size α) := do
  let areaWidth := areaSize.width
  let areaHeight := areaSize.height
  let aspectRatio := cs.aspectRatio
  let margin : Rect (Option α) :=
    ⟨cs.margin.left.resolveToOption areaWidth, cs.margin.right.resolveToOption areaWidth,
     cs.margin.top.resolveToOption areaWidth, cs.margin.bottom.resolveToOption areaWidth⟩
  let padding := Resolve.rectLPOrZero cs.padding (some areaWidth)
  let border := Resolve.rectLPOrZero cs.border (some areaWidth)
  let paddingBorderSum := (padding.add border).sumAxes
  let adj := boxSizingAdjustment cs paddingBorderSum
  let left := cs.inset.left.maybeResolve (some areaWidth)
  let right := cs.inset.right.maybeResolve (some areaWidth)
  let top := cs.inset.top.maybeResolve (some areaHeight)
  let bottom := cs.inset.bottom.maybeResolve (some areaHeight)
  let areaOpt : Size (Option α) := ⟨some areaWidth, some areaHeight⟩
  let styleSize := resolveStyleSize cs.size areaOpt aspectRatio adj
  let minSize := ((resolveStyleSize cs.minSize areaOpt aspectRatio adj).orOpt
      ⟨some paddingBorderSum.width, some paddingBorderSum.height⟩).of_max paddingBorderSum
  let maxSize := resolveStyleSize cs.maxSize areaOpt aspectRatio adj
  let kd0 := styleSize.oo_clamp minSize maxSize
  let kd1 : Size (Option α) :=
    match kd0.width, left, right with
    | none, some l, some r =>
      let newWidthRaw := MaybeMath.fo_sub (MaybeMath.fo_sub areaWidth margin.left) margin.right - l - r
      ((⟨some (Num.fmax newWidthRaw 0), kd0.height⟩ : Size (Option α)).maybeApplyAspectRatio aspectRatio).oo_clamp
        minSize maxSize
    | _, _, _ => kd0
  let kd2 : Size (Option α) :=
    match kd1.height, top, bottom with
    | none, some t, some b =>
      let newHeightRaw := MaybeMath.fo_sub (MaybeMath.fo_sub areaHeight margin.top) margin.bottom - t - b
      ((⟨kd1.width, some (Num.fmax newHeightRaw 0)⟩ : Size (Option α)).maybeApplyAspectRatio aspectRatio).oo_clamp
        minSize maxSize
    | _, _, _ => kd1
  let out ← ProgM.performChildLayout item.nodeIdx kd2 areaOpt
    ⟨.definite (MaybeMath.fo_clamp areaWidth minSize.width maxSize.width),
     .definite (MaybeMath.fo_clamp areaHeight minSize.height maxSize.height)⟩ .contentSize ⟨false, false⟩
  let measuredSize := out.size
  let finalSize := (kd2.unwrapOr measuredSize).fo_clamp minSize maxSize
  let nonAutoMargin : Rect α :=
    { left := if left.isSome then margin.left.getD 0 else 0,
      right := if right.isSome then margin.right.getD 0 else 0,
      top := if top.isSome then margin.top.getD 0 else 0,
      bottom := if bottom.isSome then margin.bottom.getD 0 else 0 }
  let spaceX : α := match right with
    | some r => areaSize.width - r - left.getD 0
    | none => finalSize.width
  let spaceY : α := match bottom with
    | some b => areaSize.height - b - top.getD 0
    | none => finalSize.height
  let freeW := spaceX - finalSize.width - nonAutoMargin.horizontalAxisSum
  let freeH := spaceY - finalSize.height - nonAutoMargin.verticalAxisSum
  let countW : Nat := (if margin.left.isNone then 1 else 0) + (if margin.right.isNone then 1 else 0)
  let autoW : α :=
    if countW == 2 && (match styleSize.width with | none => true | some w => Num.fge w freeW) then 0
    else if countW > 0 then freeW / Num.ofNat countW else 0
  let countH : Nat := (if margin.top.isNone then 1 else 0) + (if margin.bottom.isNone then 1 else 0)
  let autoH : α :=
    if countH == 2 && (match styleSize.height with | none => true | some h => Num.fge h freeH) then 0
    else if countH > 0 then freeH / Num.ofNat countH else 0
  let resolvedMargin : Rect α :=
    { left := margin.left.getD autoW, right := margin.right.getD autoW,
      top := margin.top.getD autoH, bottom := margin.bottom.getD autoH }
  let locX : α :=
    (MaybeMath.of_add ((left.map fun l => l + resolvedMargin.left).or
        (right.map fun r => areaSize.width - finalSize.width - r - resolvedMargin.right)) areaOffset.x).getD
      (item.staticPosition.x + resolvedMargin.left)
  let locY : α :=
    (MaybeMath.of_add ((top.map fun t => t + resolvedMargin.top).or
        (bottom.map fun b => areaSize.height - finalSize.height - b - resolvedMargin.bottom)) areaOffset.y).getD
      (item.staticPosition.y + resolvedMargin.top)
  let location : Point α := ⟨locX, locY⟩
  let scrollbarSize : Size α :=
    ⟨if item.overflow.y == .scroll then item.scrollbarWidth else 0,
     if item.overflow.x == .scroll then item.scrollbarWidth else 0⟩
  ProgM.setUnroundedLayout item.nodeIdx
    { order := item.order, size := finalSize, contentSize := out.contentSize, scrollbarSize, location,
      padding, border, margin := resolvedMargin }
  pure (acc.f32Max (contentSizeContribution location finalSize out.contentSize item.overflow))

/-- `perform_absolute_layout_on_absolute_children`; `styleOf idx` is `tree.get_block_child_style(child)` -/
def absLoop (styleOf : Nat → Option (Style α)) (areaSize : Size α) (areaOffset : Point α) :
    List (BlockItem α) → Size α → ProgM α (Size α)
  | [], acc => pure acc
  | item :: rest, acc =>
    if item.position == .absolute then
      match styleOf item.nodeIdx with
      | none => absLoop styleOf areaSize areaOffset rest acc
      | some cs =>
        if cs.isHidden || cs.position != .absolute then absLoop styleOf areaSize areaOffset rest acc
        else do
          let acc' ← absItem item cs areaSize areaOffset acc
          absLoop styleOf areaSize areaOffset rest acc'
    else absLoop styleOf areaSize areaOffset rest acc

/-! ### hidden children -/

def hiddenLoop : List (Style α) → Nat → ProgM α Unit
  | [], _ => pure ()
  | cs :: rest, order =>
    if cs.isHidden then do
      let _ ← ProgM.performChildLayout order Size.none Size.none ⟨.maxContent, .maxContent⟩ .inherentSize ⟨false, false⟩
      ProgM.setUnroundedLayout order (Layout.withOrder order)
      hiddenLoop rest (order + 1)
    else hiddenLoop rest (order + 1)

/-! ### compute_inner -/

/-- the container's own data that `compute_inner` derives from its style and inputs before touching any child -/
structure InnerCtx (α : Type) where
  padding : Rect α
  border : Rect α
  scrollbarGutter : Rect α
  paddingBorderSize : Size α
  contentBoxInset : Rect α
  containerContentBoxSize : Size (Option α)
  size : Size (Option α)
  minSize : Size (Option α)
  maxSize : Size (Option α)
  ownMarginsCollapseWithChildren : Line Bool
  hasStylesPreventingBeingCollapsedThrough : Bool
deriving Repr, Inhabited

def innerCtx (style : Style α) (inputs : LayoutInput α) : InnerCtx α :=
  let knownDimensions := inputs.knownDimensions
  let parentSize := inputs.parentSize
  let vmc := inputs.verticalMarginsAreCollapsible
  let padding := Resolve.rectLPOrZero style.padding parentSize.width
  let border := Resolve.rectLPOrZero style.border parentSize.width
  let scrollbarGutter := scrollbarGutter style
  let paddingBorder := padding.add border
  let paddingBorderSize := paddingBorder.sumAxes
  let contentBoxInset := paddingBorder.add scrollbarGutter
  let containerContentBoxSize := knownDimensions.of_sub contentBoxInset.sumAxes
  let adj := boxSizingAdjustment style paddingBorderSize
  let size := resolveStyleSize style.size parentSize style.aspectRatio adj
  let minSize := resolveStyleSize style.minSize parentSize style.aspectRatio adj
  let maxSize := resolveStyleSize style.maxSize parentSize style.aspectRatio adj
  let noScroll := !style.overflow.x.isScrollContainer && !style.overflow.y.isScrollContainer
  let own : Line Bool :=
    { start := vmc.start && noScroll && style.position == .relative && Num.feq padding.top 0 && Num.feq border.top 0,
      «end» := vmc.end && noScroll && style.position == .relative && Num.feq padding.bottom 0
        && Num.feq border.bottom 0 && size.height.isNone }
  let gt0 : Option α → Bool := fun o => match o with | some h => Num.fgt h 0 | none => false
  let prevent :=
    !style.isBlock || style.overflow.x.isScrollContainer || style.overflow.y.isScrollContainer
      || style.position == .absolute || Num.fgt padding.top 0 || Num.fgt padding.bottom 0
      || Num.fgt border.top 0 || Num.fgt border.bottom 0 || gt0 size.height || gt0 knownDimensions.height
      || gt0 minSize.height
  { padding, border, scrollbarGutter, paddingBorderSize, contentBoxInset, containerContentBoxSize, size, minSize, maxSize,
    ownMarginsCollapseWithChildren := own, hasStylesPreventingBeingCollapsedThrough := prevent }

/-- `items.iter().all(|item| item.position == Absolute || item.can_be_collapsed_through)` -/
def allInFlowCollapsible (items : List (BlockItem α)) : Bool :=
  items.all fun item => item.position == .absolute || item.canBeCollapsedThrough

/-- steps 7 and the final `LayoutOutput { .. }` of `compute_inner` -/
def innerOutput (style : Style α) (parentSize : Size (Option α)) (ic : InnerCtx α) (items : List (BlockItem α))
    (finalOuterSize inflowContentSize absoluteContentSize : Size α)
    (firstChildTopMarginSet lastChildBottomMarginSet : MarginSet α) : LayoutOutput α :=
  -- 7. Determine whether this node can be collapsed through
  let canBeCollapsedThrough :=
    !ic.hasStylesPreventingBeingCollapsedThrough && allInFlowCollapsible items && Num.feq finalOuterSize.height 0
  let contentSize := inflowContentSize.f32Max absoluteContentSize
  { size := finalOuterSize, contentSize, firstBaselines := ⟨none, none⟩,
    topMargin :=
      if ic.ownMarginsCollapseWithChildren.start then firstChildTopMarginSet
      else MarginSet.zero,
    bottomMargin :=
      if ic.ownMarginsCollapseWithChildren.end then lastChildBottomMarginSet
      else MarginSet.zero,
    marginsCanCollapseThrough := canBeCollapsedThrough }

/-- the arguments `compute_inner` passes to `perform_final_layout_on_in_flow_children` once the container's outer width is
known (`resolved_padding`/`resolved_border` are resolved against that width) -/
def flowCtxOf (style : Style α) (ic : InnerCtx α) (containerOuterWidth : α) : FlowCtx α :=
  let resolvedPadding := Resolve.rectLPOrZero style.padding (some containerOuterWidth)
  let resolvedBorder := Resolve.rectLPOrZero style.border (some containerOuterWidth)
  let resolvedContentBoxInset := (resolvedPadding.add resolvedBorder).add ic.scrollbarGutter
  { containerOuterWidth, contentBoxInset := ic.contentBoxInset, resolvedContentBoxInset,
    textAlign := style.textAlign, ownMarginsCollapseWithChildren := ic.ownMarginsCollapseWithChildren }

/-- step 2 of `compute_inner`: `known_dimensions.width.unwrap_or_else(|| …)` -/
def containerWidthProg (ic : InnerCtx α) (items : List (BlockItem α)) (inputs : LayoutInput α) : ProgM α α :=
  match inputs.knownDimensions.width with
  | some w => pure w
  | none => do
    let availableWidth := MaybeMath.af_sub inputs.availableSpace.width ic.contentBoxInset.horizontalAxisSum
    let w ← contentWidthLoop availableWidth items 0
    let intrinsicWidth := w + ic.contentBoxInset.horizontalAxisSum
    pure (MaybeMath.fo_max (MaybeMath.fo_clamp intrinsicWidth ic.minSize.width ic.maxSize.width)
      (some ic.paddingBorderSize.width))

def computeInner (style : Style α) (childStyles : List (Style α)) (inputs : LayoutInput α) :
    ProgM α (LayoutOutput α) := do
  let knownDimensions := inputs.knownDimensions
  let parentSize := inputs.parentSize
  let runMode := inputs.runMode
  let ic := innerCtx style inputs
  -- 1. Generate items
  let items := generateItemList childStyles ic.containerContentBoxSize
  -- 2. Compute container width
  let containerOuterWidth ← containerWidthProg ic items inputs
  -- Short-circuit if computing size and both dimensions known
  match runMode, knownDimensions.height with
  | .computeSize, some h => pure (LayoutOutput.fromOuterSize ⟨containerOuterWidth, h⟩)
  | _, _ =>
  -- 3. Perform final item layout and return content height
  let resolvedBorder := Resolve.rectLPOrZero style.border (some containerOuterWidth)
  let fc : FlowCtx α := flowCtxOf style ic containerOuterWidth
  let (items, (inflowContentSize, intrinsicOuterHeight, firstChildTopMarginSet, lastChildBottomMarginSet)) ←
    performFinalLayoutOnInFlowChildren fc items
  let containerOuterHeight := MaybeMath.fo_max
    (knownDimensions.height.getD (MaybeMath.fo_clamp intrinsicOuterHeight ic.minSize.height ic.maxSize.height))
    (some ic.paddingBorderSize.height)
  let finalOuterSize : Size α := ⟨containerOuterWidth, containerOuterHeight⟩
  -- Short-circuit if computing size
  if runMode == .computeSize then pure (LayoutOutput.fromOuterSize finalOuterSize) else
  -- 4. Layout absolutely positioned children
  let absolutePositionInset := resolvedBorder.add ic.scrollbarGutter
  let absolutePositionArea := finalOuterSize.sub absolutePositionInset.sumAxes
  let absolutePositionOffset : Point α := ⟨absolutePositionInset.left, absolutePositionInset.top⟩
  let absoluteContentSize ← absLoop (fun i => childStyles[i]?) absolutePositionArea absolutePositionOffset items Size.zero
  -- 5. Perform hidden layout on hidden children
  hiddenLoop childStyles 0
  pure (innerOutput style parentSize ic items finalOuterSize inflowContentSize absoluteContentSize
    firstChildTopMarginSet lastChildBottomMarginSet)

/-! ### compute_block_layout -/

/-- `styled_based_known_dimensions` -/
def styledBasedKnownDimensions (style : Style α) (inputs : LayoutInput α) : Size (Option α) :=
  let parentSize := inputs.parentSize
  let padding := Resolve.rectLPOrZero style.padding parentSize.width
  let border := Resolve.rectLPOrZero style.border parentSize.width
  let paddingBorderSize := (padding.add border).sumAxes
  let adj := boxSizingAdjustment style paddingBorderSize
  let minSize := resolveStyleSize style.minSize parentSize style.aspectRatio adj
  let maxSize := resolveStyleSize style.maxSize parentSize style.aspectRatio adj
  let clampedStyleSize : Size (Option α) :=
    if inputs.sizingMode == .inherentSize then
      (resolveStyleSize style.size parentSize style.aspectRatio adj).oo_clamp minSize maxSize
    else Size.none
  let mm : Option α → Option α → Option α := fun mn mx =>
    match mn, mx with
    | some mn, some mx => if Num.fle mx mn then some mn else none
    | _, _ => none
  let minMaxDefiniteSize : Size (Option α) := ⟨mm minSize.width maxSize.width, mm minSize.height maxSize.height⟩
  ((inputs.knownDimensions.orOpt minMaxDefiniteSize).orOpt clampedStyleSize).of_max paddingBorderSize

def computeBlockLayout (style : Style α) (childStyles : List (Style α)) (inputs : LayoutInput α) :
    ProgM α (LayoutOutput α) :=
  let kd := styledBasedKnownDimensions style inputs
  match inputs.runMode, kd.width, kd.height with
  | .computeSize, some w, some h => pure (LayoutOutput.fromOuterSize ⟨w, h⟩)
  | _, _, _ => computeInner style childStyles { inputs with knownDimensions := kd }

/-! ### executing a program -/

/-- Run a program against an oracle for the child queries (the oracle may keep state `σ`, e.g. a cache or a recorded
trace); returns the result, the oracle's final state and the layouts set, in order. -/
def runProg {σ β : Type} (orc : σ → Nat → LayoutInput α → LayoutOutput α × σ) :
    ProgM α β → σ → β × σ × List (Nat × Layout α)
  | .pure b, s => (b, s, [])
  | .call c i k, s => runProg orc (k (orc s c i).1) (orc s c i).2
  | .setLayout c l k, s =>
    let r := runProg orc (k ()) s
    (r.1, r.2.1, (c, l) :: r.2.2)

/-- stateless oracle: one pure function per child -/
def runPure {β : Type} (orc : Nat → LayoutInput α → LayoutOutput α) (p : ProgM α β) : β × List (Nat × Layout α) :=
  let r := runProg (σ := Unit) (fun _ c i => (orc c i, ())) p ()
  (r.1, r.2.2)

/-! ### leaf.rs: the collapse-through flag of a leaf (only this expression of leaf.rs matters for C10) -/

/-- `!has_styles_preventing_being_collapsed_through && size.height == 0.0 && measured_size.height == 0.0` -/
def leafCollapseFlag (prevent : Bool) (size measuredSize : Size α) : Bool :=
  !prevent && Num.feq size.height 0 && Num.feq measuredSize.height 0

end BlockModel
