/-
  The tree-level evaluator: `TaffyView::compute_child_layout` (src/tree/taffy_tree.rs), `compute_cached_layout`,
  `compute_hidden_layout`, `compute_root_layout` (src/compute/mod.rs) over a style tree, with the per-node cache of
  Model/Cache.lean and container algorithms given as interaction programs (Model/Prog.lean).

  The dispatch on `(display, has_children)` is **not** written here: it is read from `Gen.Facts.dispatchArms`
  (regenerated from the source on every run) by `Dispatch.select`.
-/
import TaffyVerif.Model.Prog
import TaffyVerif.Model.Cache
import TaffyVerif.Generated.Facts

namespace Dispatch
open Gen.Facts

def dMatches : DPat → Display → Bool
  | .any, _ => true
  | .none, .none => true
  | .block, .block => true
  | .flex, .flex => true
  | .grid, .grid => true
  | _, _ => false

def hMatches : HPat → Bool → Bool
  | .any, _ => true
  | .yes, true => true
  | .no, false => true
  | _, _ => false

/-- first matching arm, as a Rust `match` does; `none` = non-exhaustive (cannot compile) -/
def select (arms : List (DPat × HPat × Callee)) (d : Display) (hasChildren : Bool) : Option Callee :=
  match arms.find? (fun a => dMatches a.1 d && hMatches a.2.1 hasChildren) with
  | some a => some a.2.2
  | none => none

end Dispatch

namespace Eval
open CacheModel
variable {α : Type} [Num α]

/-- the layout algorithms the evaluator dispatches to -/
structure Algs (α : Type) where
  leaf : LayoutInput α → Style α → (Size (Option α) → Size (AvailableSpace α) → Size α) → LayoutOutput α
  block : Style α → List (Style α) → LayoutInput α → ProgM α (LayoutOutput α)
  flex : Style α → List (Style α) → LayoutInput α → ProgM α (LayoutOutput α)
  grid : Style α → List (Style α) → LayoutInput α → ProgM α (LayoutOutput α)

/-- what the evaluator needs from a per-node cache: `Cache::new/get/store/clear`, seeing the complete `LayoutInput`
(the real cache looks at `known_dimensions`, `available_space` and `run_mode` only) -/
structure CacheImpl (α : Type) (C : Type) where
  empty : C
  get : C → LayoutInput α → Option (LayoutOutput α)
  store : C → LayoutInput α → LayoutOutput α → C
  clear : C → C

/-- the real nine-slot cache of src/tree/cache.rs (Model/Cache.lean) -/
def realCache : CacheImpl α (Cache α) where
  empty := Cache.new
  get c i := c.get i.knownDimensions i.availableSpace i.runMode
  store c i o := c.store i.knownDimensions i.availableSpace i.runMode o
  clear c := c.clear.1

/-- no cache at all: every lookup misses (cache-free evaluation) -/
def noCache : CacheImpl α Unit where
  empty := ()
  get _ _ := none
  store _ _ _ := ()
  clear _ := ()

/-- exact memo: keyed by the complete `LayoutInput` (the `cfg(taffy_verif)` exact-key mode) -/
def exactMemo [DecidableEq α] : CacheImpl α (List (LayoutInput α × LayoutOutput α)) where
  empty := []
  get c i := (c.find? (fun e => e.1 = i)).map (·.2)
  store c i o := if i.runMode = .performHiddenLayout then c else (i, o) :: c
  clear _ := []

/-- mutable per-node data of `TaffyTree`: the cache and the unrounded layout -/
inductive NS (α : Type) (C : Type) where
  | mk (cache : C) (layout : Layout α) (kids : List (NS α C))

namespace NS
variable {C : Type}
def cache : NS α C → C | .mk c _ _ => c
def layout : NS α C → Layout α | .mk _ l _ => l
def kids : NS α C → List (NS α C) | .mk _ _ k => k
end NS

section
variable {C : Type} (ci : CacheImpl α C)

mutual
/-- a freshly built tree: empty caches, `Layout::new()` -/
def NS.init : STree α → NS α C
  | .node _ _ kids => .mk ci.empty Layout.new (NS.initList kids)
def NS.initList : List (STree α) → List (NS α C)
  | [] => []
  | t :: ts => NS.init t :: NS.initList ts
end

mutual
/-- `compute_hidden_layout`: clear the cache, zero the layout, recurse into all children in hidden mode -/
def hiddenLayout : NS α C → NS α C
  | .mk c _ kids => .mk (ci.clear c) (Layout.withOrder 0) (hiddenLayoutList kids)
def hiddenLayoutList : List (NS α C) → List (NS α C)
  | [] => []
  | k :: ks => hiddenLayout k :: hiddenLayoutList ks
end

def setLayoutAt (ks : List (NS α C)) (i : Nat) (l : Layout α) : List (NS α C) :=
  match ks[i]? with
  | some (.mk c _ kids) => ks.set i (.mk c l kids)
  | none => ks

/-- interpreter of interaction programs against the children of a node -/
def runProg {β : Type} (evalChild : Nat → LayoutInput α → List (NS α C) → LayoutOutput α × List (NS α C)) :
    ProgM α β → List (NS α C) → β × List (NS α C)
  | .pure b, ks => (b, ks)
  | .call i inp k, ks =>
    let r := evalChild i inp ks
    runProg evalChild (k r.1) r.2
  | .setLayout i l k, ks => runProg evalChild (k ()) (setLayoutAt ks i l)

/-- the measure closure handed to `compute_leaf_layout`: the node's context, or zero without one -/
def measureOf (ctx : Option (MeasureSpec α)) : Size (Option α) → Size (AvailableSpace α) → Size α :=
  match ctx with
  | some m => m.measure
  | none => fun _ _ => ⟨0, 0⟩

/-- `compute_child_layout` of a tree driver whose dispatch on `(display, has_children)` is `sel` and whose per-node
cache is `ci`, for node `t` with mutable data `ns` -/
def evalNodeWith (sel : Display → Bool → Option Gen.Facts.Callee) (algs : Algs α) :
    Nat → STree α → NS α C → LayoutInput α → LayoutOutput α × NS α C
  | 0, _, ns, _ => (LayoutOutput.hidden, ns)            -- out of fuel: never reached with fuel ≥ depth
  | fuel + 1, .node style ctx kids, ns, inp =>
    if inp.runMode == .performHiddenLayout then (LayoutOutput.hidden, hiddenLayout ci ns)
    else
      match ci.get ns.cache inp with
      | some out => (out, ns)
      | none =>
        let evalChild : Nat → LayoutInput α → List (NS α C) → LayoutOutput α × List (NS α C) := fun i cin ks =>
          match kids[i]?, ks[i]? with
          | some t, some k =>
            let r := evalNodeWith sel algs fuel t k cin
            (r.1, ks.set i r.2)
          | _, _ => (LayoutOutput.hidden, ks)
        let childStyles := kids.map STree.style
        let run := fun (p : ProgM α (LayoutOutput α)) =>
          match ns with
          | .mk c l nk => let r := runProg evalChild p nk; (r.1, NS.mk c l r.2)
        let computed : LayoutOutput α × NS α C :=
          match sel style.display (!kids.isEmpty) with
          | some .hidden => (LayoutOutput.hidden, hiddenLayout ci ns)
          | some .block => run (algs.block style childStyles inp)
          | some .flex => run (algs.flex style childStyles inp)
          | some .grid => run (algs.grid style childStyles inp)
          | some .leaf => (algs.leaf inp style (measureOf ctx), ns)
          | none => (LayoutOutput.hidden, ns)
        match computed.2 with
        | .mk c l nk => (computed.1, .mk (ci.store c inp computed.1) l nk)

/-- `TaffyView::compute_child_layout`: the dispatch arms are the ones extracted from the source -/
def evalNode (algs : Algs α) : Nat → STree α → NS α C → LayoutInput α → LayoutOutput α × NS α C :=
  evalNodeWith ci (Dispatch.select Gen.Facts.dispatchArms) algs

end

mutual
def STree.depth : STree α → Nat
  | .node _ _ kids => STree.depthList kids + 1
def STree.depthList : List (STree α) → Nat
  | [] => 0
  | t :: ts => max (STree.depth t) (STree.depthList ts)
end

end Eval
