/-
  C12 site table (DESIGN.md §4.1 "structural facts", §8 C12) — the hand-written half.

  `Generated/Sites.lean` (written by `extract/src/sites.rs` from `src/compute/**` on every run) is DATA in the types
  below: one `Site` per read of `size() / min_size() / max_size() / flex_basis() / box_sizing()` and per read of a raw
  copy of them (`GridItem { size: style.size(), .. }` … `self.size`), with the chain of calls the value flows through in
  source order and, where the chain adds a local bound to
      `if <x>.box_sizing() == BoxSizing::ContentBox { <padding+border sums> } else { Size::ZERO }`,
  that binding with its `let`s inlined.  The extractor does not judge anything.

  This file judges: `classify` decides from the data alone whether a read is
    * `adjusted`      resolved, then increased by the padding+border of THE SAME node on THE SAME axis, before anything
                      else (clamp, max, min, or, comparison, arithmetic …) sees the value;
    * `tagOnly`       only `auto`-ness / definiteness of the value is used (`is_auto`, `maybe_resolve(..).is_some()`);
    * `rawCopy`       copied unadjusted into a struct field — then every read of that field is a site of its own and must
                      itself be `adjusted` / `tagOnly` (`siteOk`);
    * `adjCondition`  the `box_sizing()` read that guards a well-formed adjustment;
    * `notStyle`      a field that only shares its name with a raw copy (the receiver is provably something else);
    * `unrecognised`  anything else: a candidate violation of `StyleReadsThroughSites` — `C12Sites.sites_recognised` fails.

  No Mathlib.  Nothing here mentions a local variable's name or a line number.
-/
namespace Sites

/-- where a value comes from -/
inductive Source where
  /-- `<recv>.getter()`; receivers are numbered per site (0 = the receiver of the read itself) -/
  | method (recv : Nat) (getter : String)
  /-- `self.field` inside `impl struct` (or a parameter declared of that type), `struct.field` being a raw copy -/
  | copyField (struct field : String)
  /-- `.field` of something else; `origin` says how that something is bound (`let:<callee>`, `param:<type>`, `pat`, …) -/
  | fieldOf (origin field : String)
  /-- a read inside something the extractor does not walk as syntax (a macro invocation, a destructuring pattern) -/
  | unparsed (what : String)
deriving Repr, DecidableEq

/-- `.get(a)`, `.get_abs(a)`, `.cross(a)`, `.main(a)` (the argument numbered per site after `let`-inlining), `.width`, `.height` -/
structure Proj where
  kind : String
  arg : Option Nat
deriving Repr, DecidableEq

inductive Step where
  /-- `.name(…)` (arguments dropped) -/
  | call (name : String)
  /-- `.name` -/
  | field (name : String)
  | proj (p : Proj)
  /-- `.maybe_add(<adjustment local>[.proj]*)`: the local resolves to the `AdjBinding` of the site -/
  | addAdj (projs : List Proj)
deriving Repr, DecidableEq

/-- the then-branch of an adjustment binding, `let`s inlined -/
inductive PB where
  /-- `<src>.resolve_or_zero(basis, calc)` (`via = "resolve_or_zero"`) or `<src>.map(|p| p.resolve_or_zero(basis, calc))` -/
  | resolved (src : Source) (via : String) (basis : Nat)
  | add (a b : PB)
  | sumAxes (a : PB)
  | other (what : String)
deriving Repr, DecidableEq

/-- `if <condSrc> <condOp> <condRhs> { thenSum } else { els }` followed by `projs` -/
structure AdjBinding where
  condSrc : Source
  condOp : String
  condRhs : String
  thenSum : PB
  els : String
  projs : List Proj
deriving Repr, DecidableEq

/-- what the whole chain feeds -/
inductive Ctx where
  | letBind | structField (struct field : String) | blockTail | closureTail | operand (op : String)
  | arg (callee : String) | cond | adjCond | assign | ret | stmt | other (what : String)
deriving Repr, DecidableEq

structure Site where
  file : String
  fn : String
  prop : String
  source : Source
  chain : List Step
  ctx : Ctx
  adj : Option AdjBinding
deriving Repr, DecidableEq

/-- `struct { field: <recv>.getter(), .. }` in `fn` of `file`; receivers numbered per struct literal -/
structure Copy where
  file : String
  fn : String
  struct : String
  field : String
  getter : String
  recv : Nat
deriving Repr, DecidableEq

structure Table where
  sites : List Site
  copies : List Copy

inductive Class where
  | adjusted | tagOnly | rawCopy | adjCondition | notStyle
  | unrecognised (why : String)
deriving Repr, DecidableEq

/-! ### vocabulary -/

def sizeProps : List String := ["size", "min_size", "max_size"]
def projKinds : List String := ["get", "get_abs", "cross", "main", "width", "height"]
/-- the only calls a value may pass through before its adjustment is added: resolution against the context, and the
aspect-ratio transfer (the identity on the styles C12 speaks about, which have no aspect ratio) -/
def preAddCalls : List String := ["maybe_resolve", "maybe_apply_aspect_ratio"]
/-- consumers that see only the tag of the value -/
def tagCalls : List String := ["is_auto", "is_some", "is_none"]
def resolveVias : List String := ["resolve_or_zero", "map.resolve_or_zero"]
/-- origins of a receiver that is known not to be a raw-copy struct: `perform_child_layout` returns a `LayoutOutput`,
whose `size` is a computed size -/
def notStyleOrigins : List String := ["let:perform_child_layout"]

/-! ### the classifier -/

def Step.proj? : Step → Option Proj
  | .proj p => some p
  | _ => none

/-- split at the first `maybe_add(adjustment)` -/
def firstAdd : List Step → Option (List Step × List Proj × List Step)
  | [] => none
  | .addAdj ps :: rest => some ([], ps, rest)
  | s :: rest => (firstAdd rest).map fun (pre, ps, post) => (s :: pre, ps, post)

def preStepOk : Step → Bool
  | .proj p => projKinds.contains p.kind
  | .call n => preAddCalls.contains n
  | _ => false

/-- before the adjustment: projections, resolution (required: the adjustment is added to a resolved value), aspect ratio -/
def preOk (pre : List Step) : Bool :=
  pre.all preStepOk && pre.contains (.call "maybe_resolve")

def readProjs (pre : List Step) : List Proj := pre.filterMap Step.proj?

def copiesOf (copies : List Copy) (S f : String) : List Copy :=
  copies.filter fun c => c.struct == S && c.field == f

/-- `b` reads `getter` of the node whose property `a` reads: same receiver; for raw copies, the two fields are filled
from the same receiver in every literal of the struct -/
def sameOwner (copies : List Copy) (a b : Source) (getter : String) : Bool :=
  match a, b with
  | .method r _, .method r' g => r == r' && g == getter
  | .copyField S f, .copyField S' f' =>
      S == S' && !(copiesOf copies S f).isEmpty &&
      (copiesOf copies S f).all fun c =>
        copies.any fun d => d.struct == S && d.field == f' && d.getter == getter &&
          d.file == c.file && d.fn == c.fn && d.recv == c.recv
  | _, _ => false

def resolvedOk (copies : List Copy) (site : Source) (p : PB) (getter : String) : Bool :=
  match p with
  | .resolved src via _ => sameOwner copies site src getter && resolveVias.contains via
  | _ => false

def pairOk (copies : List Copy) (site : Source) (p q : PB) : Bool :=
  (resolvedOk copies site p "padding" && resolvedOk copies site q "border")
  || (resolvedOk copies site p "border" && resolvedOk copies site q "padding")

/-- `(padding + border).sum_axes()` or `padding.sum_axes() + border.sum_axes()` of the site's own node -/
def pbOk (copies : List Copy) (site : Source) : PB → Bool
  | .sumAxes (.add p q) => pairOk copies site p q
  | .add (.sumAxes p) (.sumAxes q) => pairOk copies site p q
  | _ => false

def bindingOk (copies : List Copy) (site : Source) (b : AdjBinding) : Bool :=
  b.condOp == "==" && b.condRhs == "BoxSizing::ContentBox" && b.els == "Size::ZERO"
  && sameOwner copies site b.condSrc "box_sizing" && pbOk copies site b.thenSum

/-- the adjustment is taken on the axis of the value: the projections applied to the value before the addition are the
projections applied to the adjustment (at its binding, then at its use); `flex_basis` is a scalar along the main axis -/
def projsMatch (prop : String) (pre : List Step) (b : AdjBinding) (use : List Proj) : Bool :=
  if prop == "flex_basis" then
    (readProjs pre).isEmpty && (match b.projs ++ use with | [p] => p.kind == "main" | _ => false)
  else readProjs pre == b.projs ++ use

/-- only the tag is consumed: projections and a resolution, then `is_auto` / `is_some` / `is_none` -/
def tagOnly : List Step → Bool
  | [] => false
  | .proj p :: rest => projKinds.contains p.kind && tagOnly rest
  | .call n :: rest => if tagCalls.contains n then true else n == "maybe_resolve" && tagOnly rest
  | _ => false

/-- the source really reads the property the site is filed under -/
def sourceOk (copies : List Copy) (s : Site) : Bool :=
  match s.source with
  | .method _ g => g == s.prop
  | .copyField S f => !(copiesOf copies S f).isEmpty && (copiesOf copies S f).all fun c => c.getter == s.prop
  | _ => false

def isMethod : Source → Bool
  | .method _ _ => true
  | _ => false

def isStructField : Ctx → Bool
  | .structField _ _ => true
  | _ => false

def classify (t : Table) (s : Site) : Class :=
  match s.source with
  | .unparsed w => .unrecognised ("read in a place that is not analysed: " ++ w)
  | .fieldOf origin _ =>
      if notStyleOrigins.contains origin then .notStyle
      else .unrecognised ("field of a receiver of unknown type: " ++ origin)
  | src =>
    if !sourceOk t.copies s then .unrecognised "the source does not read the property" else
    if s.prop == "box_sizing" then
      match s.ctx, s.adj with
      | .adjCond, some b =>
          if bindingOk t.copies src b then .adjCondition
          else .unrecognised "box_sizing guards something that is not the padding+border adjustment of the same node"
      | .structField _ _, _ =>
          if s.chain.isEmpty && isMethod src then .rawCopy else .unrecognised "box_sizing stored after processing"
      | _, _ => .unrecognised "box_sizing read outside an adjustment binding"
    else if sizeProps.contains s.prop || s.prop == "flex_basis" then
      match firstAdd s.chain, s.adj with
      | some (pre, use, _), some b =>
          if !preOk pre then .unrecognised "the value is used (clamped, compared, combined) before the adjustment is added"
          else if !bindingOk t.copies src b then
            .unrecognised "the adjustment is not `if <same node>.box_sizing() == ContentBox { its padding+border sums } else { ZERO }`"
          else if !projsMatch s.prop pre b use then .unrecognised "the adjustment is taken on another axis than the value"
          else .adjusted
      | some _, none => .unrecognised "adjustment without a binding"
      | none, _ =>
          if tagOnly s.chain then .tagOnly
          else if s.chain.isEmpty && isMethod src && isStructField s.ctx then .rawCopy
          else .unrecognised "the value is used without the box-sizing adjustment"
    else .unrecognised "unknown property"

/-- the reads of a raw copy -/
def copyReads (t : Table) (S f : String) : List Site :=
  t.sites.filter fun r => r.source == .copyField S f

def readOk : Class → Bool
  | .adjusted | .tagOnly | .adjCondition => true
  | _ => false

/-- a site is in order: recognised; a raw copy moreover is registered in the copy table and each read of the copy is
adjusted / tag-only / the guard of an adjustment -/
def siteOk (t : Table) (s : Site) : Bool :=
  match classify t s with
  | .unrecognised _ => false
  | .rawCopy =>
      (match s.ctx with
       | .structField S f =>
           t.copies.any (fun c => c.struct == S && c.field == f && c.getter == s.prop && c.file == s.file && c.fn == s.fn)
           && (copyReads t S f).all fun r => readOk (classify t r)
       | _ => false)
  | _ => true

/-- sites that are style reads (everything but `notStyle`) -/
def isStyleRead (t : Table) (s : Site) : Bool := classify t s != .notStyle

/-- one line per unrecognised site, for the build log -/
def report (t : Table) : List String :=
  t.sites.filterMap fun s =>
    match classify t s with
    | .unrecognised why => some s!"UNRECOGNISED {s.file} fn {s.fn} {s.prop}: {why}"
    | .rawCopy => if siteOk t s then none else some s!"RAW COPY WITH UNRECOGNISED READS {s.file} fn {s.fn} {s.prop}"
    | _ => none

end Sites
