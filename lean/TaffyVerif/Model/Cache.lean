/-
  Model of src/tree/cache.rs — the whole file.
  Hand-written, line by line; tied to the source by the C02 correspondence run.
-/
import TaffyVerif.Model.Geometry

namespace CacheModel
variable {α : Type} [Num α]

/-- `CACHE_SIZE` -/
def cacheSize : Nat := 9

structure Entry (α : Type) (T : Type) where
  knownDimensions : Size (Option α)
  availableSpace : Size (AvailableSpace α)
  content : T
deriving Repr, BEq, DecidableEq

structure Cache (α : Type) where
  finalLayoutEntry : Option (Entry α (LayoutOutput α))
  measureEntries : List (Option (Entry α (Size α)))
  /-- the `is_empty` *field* (read by `clear`), distinct from the recomputed `is_empty()` observer -/
  isEmptyFlag : Bool
deriving Repr, BEq, DecidableEq

inductive ClearState where
  | cleared
  | alreadyEmpty
deriving Repr, BEq, DecidableEq

def Cache.new : Cache α :=
  { finalLayoutEntry := none, measureEntries := List.replicate cacheSize none, isEmptyFlag := true }

/-- `Option<f32> == Option<f32>` (derived `PartialEq`, IEEE `==` inside) -/
def optEq (a b : Option α) : Bool :=
  match a, b with
  | none, none => true
  | some x, some y => Num.feq x y
  | _, _ => false

/-- `AvailableSpace::is_roughly_equal` -/
def isRoughlyEqual (a b : AvailableSpace α) : Bool :=
  match a, b with
  | .definite x, .definite y => Num.flt (Num.abs (x - y)) Num.eps
  | .minContent, .minContent => true
  | .maxContent, .maxContent => true
  | _, _ => false

def isMinContent : AvailableSpace α → Bool
  | .minContent => true
  | _ => false

/-- `Cache::compute_cache_slot` -/
def computeCacheSlot (kd : Size (Option α)) (av : Size (AvailableSpace α)) : Nat :=
  let hasKnownWidth := kd.width.isSome
  let hasKnownHeight := kd.height.isSome
  if hasKnownWidth && hasKnownHeight then 0
  else if hasKnownWidth && !hasKnownHeight then 1 + (if isMinContent av.height then 1 else 0)
  else if hasKnownHeight && !hasKnownWidth then 3 + (if isMinContent av.width then 1 else 0)
  else match av.width, av.height with
    | .minContent, .minContent => 8
    | .minContent, _ => 7
    | _, .minContent => 6
    | _, _ => 5

/-- the compatibility predicate shared by both arms of `Cache::get` -/
def compatible (kd : Size (Option α)) (av : Size (AvailableSpace α))
    (ekd : Size (Option α)) (eav : Size (AvailableSpace α)) (cachedSize : Size α) : Bool :=
  (optEq kd.width ekd.width || optEq kd.width (some cachedSize.width))
  && (optEq kd.height ekd.height || optEq kd.height (some cachedSize.height))
  && (kd.width.isSome || isRoughlyEqual eav.width av.width)
  && (kd.height.isSome || isRoughlyEqual eav.height av.height)

def Cache.get (c : Cache α) (kd : Size (Option α)) (av : Size (AvailableSpace α)) (mode : RunMode) :
    Option (LayoutOutput α) :=
  match mode with
  | .performLayout =>
    match c.finalLayoutEntry with
    | some e => if compatible kd av e.knownDimensions e.availableSpace e.content.size then some e.content else none
    | none => none
  | .computeSize =>
    match c.measureEntries.filterMap id |>.find?
        (fun e => compatible kd av e.knownDimensions e.availableSpace e.content) with
    | some e => some (LayoutOutput.fromOuterSize e.content)
    | none => none
  | .performHiddenLayout => none

def Cache.store (c : Cache α) (kd : Size (Option α)) (av : Size (AvailableSpace α)) (mode : RunMode)
    (out : LayoutOutput α) : Cache α :=
  match mode with
  | .performLayout =>
    { c with isEmptyFlag := false, finalLayoutEntry := some ⟨kd, av, out⟩ }
  | .computeSize =>
    { c with isEmptyFlag := false,
             measureEntries := c.measureEntries.set (computeCacheSlot kd av) (some ⟨kd, av, out.size⟩) }
  | .performHiddenLayout => c

def Cache.clear (c : Cache α) : Cache α × ClearState :=
  if c.isEmptyFlag then (c, .alreadyEmpty)
  else ({ finalLayoutEntry := none, measureEntries := List.replicate cacheSize none, isEmptyFlag := true }, .cleared)

/-- the `is_empty()` observer -/
def Cache.isEmpty (c : Cache α) : Bool :=
  c.finalLayoutEntry.isNone && !(c.measureEntries.any Option.isSome)

/-! ### operation language (for histories) -/

inductive Op (α : Type) where
  | get (kd : Size (Option α)) (av : Size (AvailableSpace α)) (mode : RunMode)
  | store (kd : Size (Option α)) (av : Size (AvailableSpace α)) (mode : RunMode) (out : LayoutOutput α)
  | clear
  | isEmpty

inductive Out (α : Type) where
  | got (r : Option (LayoutOutput α))
  | unit
  | cleared (s : ClearState)
  | empty (b : Bool)

def step (c : Cache α) : Op α → Cache α × Out α
  | .get kd av m => (c, .got (c.get kd av m))
  | .store kd av m o => (c.store kd av m o, .unit)
  | .clear => let (c', s) := c.clear; (c', .cleared s)
  | .isEmpty => (c, .empty c.isEmpty)

/-- state after a history; the history is a stack: **newest operation first** -/
def runH : List (Op α) → Cache α
  | [] => Cache.new
  | op :: h => (step (runH h) op).1

/-- does `op` displace (or erase) an entry stored under key `kd av` in run mode `mode`? -/
def displaces (op : Op α) (kd : Size (Option α)) (av : Size (AvailableSpace α)) (mode : RunMode) : Bool :=
  match op with
  | .clear => true
  | .store kd2 av2 m2 _ =>
    match mode, m2 with
    | .performLayout, .performLayout => true
    | .computeSize, .computeSize => computeCacheSlot kd2 av2 == computeCacheSlot kd av
    | _, _ => false
  | _ => false

/-- `Live h kd av mode out`: the history contains `store kd av mode out` (mode ≠ hidden) and nothing after it displaced it -/
def Live : List (Op α) → Size (Option α) → Size (AvailableSpace α) → RunMode → LayoutOutput α → Prop
  | [], _, _, _, _ => False
  | op :: h, kd, av, mode, out =>
    (op = .store kd av mode out ∧ mode ≠ .performHiddenLayout) ∨ (displaces op kd av mode = false ∧ Live h kd av mode out)

end CacheModel
