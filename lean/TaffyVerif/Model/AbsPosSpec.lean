/-
  C11 — the decidable form of the property, per axis, expressed in the container's REPORTED layout.
  Used by the driver's monitor (on the implementation's answer, at ℚ) and to brute-force the planned theorem
  statements on the executable model before proving them.  No Mathlib.
-/
import TaffyVerif.Model.AbsPos

namespace AbsPos

/-! ### the padding box of the container, scrollbar gutter excluded, in the container's reported layout -/
namespace Reported
variable {α : Type} [Num α]
def padStartX (C : Layout α) : α := C.border.left
def padEndX (C : Layout α) : α := C.size.width - C.border.right - C.scrollbarSize.width
def padStartY (C : Layout α) : α := C.border.top
def padEndY (C : Layout α) : α := C.size.height - C.border.bottom - C.scrollbarSize.height
def padW (C : Layout α) : α := padEndX C - padStartX C
def padH (C : Layout α) : α := padEndY C - padStartY C
end Reported

namespace Spec
variable {α : Type} [Num α]

/-- hypotheses side of one axis: what the child's style resolves to -/
structure AxisFacts (α : Type) where
  extStart : α
  extEnd : α
  insetStart : Option α
  insetEnd : Option α
  /-- `none` = auto -/
  mStart : Option α
  mEnd : Option α
  /-- the style's size on this axis after aspect-ratio transfer and box-sizing adjustment; `none` = auto -/
  styleSize : Option α
  minSize : Option α
  maxSize : Option α
  aspectNone : Bool
deriving Repr, Inhabited

/-- conclusion side: the child's layout on this axis -/
structure AxisObs (α : Type) where
  loc : α
  size : α
  mStart : α
  mEnd : α
deriving Repr, Inhabited

def obsX (L : Layout α) : AxisObs α := ⟨L.location.x, L.size.width, L.margin.left, L.margin.right⟩
def obsY (L : Layout α) : AxisObs α := ⟨L.location.y, L.size.height, L.margin.top, L.margin.bottom⟩

/-- `|a − b| ≤ tol` -/
def close (tol a b : α) : Bool := Num.fle (Num.abs (a - b)) tol

/-- start inset set, margins not auto ⇒ margin-box start edge = padding-box start + inset -/
def startOk (tol : α) (f : AxisFacts α) (o : AxisObs α) : Bool :=
  match f.insetStart, f.mStart, f.mEnd with
  | some s, some _, some _ => close tol (o.loc - o.mStart) (f.extStart + s)
  | _, _, _ => true

/-- start inset auto, end inset set, margins not auto ⇒ margin-box end edge = padding-box end − inset.
`needNonNegExtent` (grid copy): only for a padding box of non-negative extent. -/
def endOk (needNonNegExtent : Bool) (tol : α) (f : AxisFacts α) (o : AxisObs α) : Bool :=
  match f.insetStart, f.insetEnd, f.mStart, f.mEnd with
  | none, some e, some _, some _ =>
    if needNonNegExtent && Num.flt f.extEnd f.extStart then true
    else close tol (f.extEnd - e) (o.loc + o.size + o.mEnd)
  | _, _, _, _ => true

/-- both insets set, size auto, no aspect ratio, margins not auto ⇒ size = clamp(max(extent − insets − margins, 0)) -/
def stretchOk (tol : α) (f : AxisFacts α) (o : AxisObs α) : Bool :=
  match f.insetStart, f.insetEnd, f.mStart, f.mEnd, f.styleSize, f.aspectNone with
  | some s, some e, some ms, some me, none, true =>
    close tol o.size (MaybeMath.fo_clamp (Num.fmax (f.extEnd - f.extStart - ms - me - s - e) 0) f.minSize f.maxSize)
  | _, _, _, _, _, _ => true

/-- block copy: both insets set and exactly one auto margin ⇒ it absorbs the remaining space -/
def autoMarginOk (tol : α) (f : AxisFacts α) (o : AxisObs α) : Bool :=
  match f.insetStart, f.insetEnd, f.mStart, f.mEnd with
  | some s, some e, none, some me => close tol o.mStart (f.extEnd - f.extStart - s - e - o.size - me)
  | some s, some e, some ms, none => close tol o.mEnd (f.extEnd - f.extStart - s - e - o.size - ms)
  | _, _, _, _ => true

/-- block copy: both insets and the size set, two auto margins ⇒ equal halves of the remaining space (the planned
statement; FALSE of block.rs whenever `size ≥ remaining space > 0`, see Props/C11 `block_two_auto_margins_not_split`) -/
def splitOk (tol : α) (f : AxisFacts α) (o : AxisObs α) : Bool :=
  match f.insetStart, f.insetEnd, f.mStart, f.mEnd, f.styleSize with
  | some s, some e, none, none, some _ =>
    let free := f.extEnd - f.extStart - s - e - o.size
    if Num.flt free 0 then true
    else close tol o.mStart (free / Num.two) && close tol o.mEnd (free / Num.two)
  | _, _, _, _, _ => true

/-- what block.rs does with two auto margins: halves iff `style size < remaining space`, else both 0 -/
def splitPartialOk (tol : α) (f : AxisFacts α) (o : AxisObs α) : Bool :=
  match f.insetStart, f.insetEnd, f.mStart, f.mEnd, f.styleSize with
  | some s, some e, none, none, some sz =>
    let free := f.extEnd - f.extStart - s - e - o.size
    if Num.flt sz free then close tol o.mStart (free / Num.two) && close tol o.mEnd (free / Num.two)
    else close tol o.mStart 0 && close tol o.mEnd 0
  | _, _, _, _, _ => true

/-- failing tags of one axis -/
def failures (isBlock isGrid : Bool) (tol : α) (f : AxisFacts α) (o : AxisObs α) : List String :=
  (if startOk tol f o then [] else ["start"]) ++
  (if endOk isGrid tol f o then [] else ["end"]) ++
  (if stretchOk tol f o then [] else ["stretch"]) ++
  (if !isBlock || autoMarginOk tol f o then [] else ["automargin"]) ++
  (if !isBlock || splitPartialOk tol f o then [] else ["split-partial"])

/-! ### facts of each copy, from its own resolution stage and the container's reported layout -/

def blockFactsX (C : Layout α) (r : BlockResolved α) (ar : Option α) : AxisFacts α :=
  { extStart := Reported.padStartX C, extEnd := Reported.padEndX C, insetStart := r.left, insetEnd := r.right,
    mStart := r.margin.left, mEnd := r.margin.right, styleSize := r.styleSize.width, minSize := r.minSize.width,
    maxSize := r.maxSize.width, aspectNone := ar.isNone }
def blockFactsY (C : Layout α) (r : BlockResolved α) (ar : Option α) : AxisFacts α :=
  { extStart := Reported.padStartY C, extEnd := Reported.padEndY C, insetStart := r.top, insetEnd := r.bottom,
    mStart := r.margin.top, mEnd := r.margin.bottom, styleSize := r.styleSize.height, minSize := r.minSize.height,
    maxSize := r.maxSize.height, aspectNone := ar.isNone }
def flexFactsX (C : Layout α) (r : FlexResolved α) (ar : Option α) : AxisFacts α :=
  { extStart := Reported.padStartX C, extEnd := Reported.padEndX C, insetStart := r.left, insetEnd := r.right,
    mStart := r.margin.left, mEnd := r.margin.right, styleSize := r.styleSize.width, minSize := r.minSize.width,
    maxSize := r.maxSize.width, aspectNone := ar.isNone }
def flexFactsY (C : Layout α) (r : FlexResolved α) (ar : Option α) : AxisFacts α :=
  { extStart := Reported.padStartY C, extEnd := Reported.padEndY C, insetStart := r.top, insetEnd := r.bottom,
    mStart := r.margin.top, mEnd := r.margin.bottom, styleSize := r.styleSize.height, minSize := r.minSize.height,
    maxSize := r.maxSize.height, aspectNone := ar.isNone }
def gridFactsX (C : Layout α) (r : GridResolved α) (ar : Option α) : AxisFacts α :=
  { extStart := Reported.padStartX C, extEnd := Reported.padEndX C, insetStart := r.insetH.start,
    insetEnd := r.insetH.«end», mStart := r.margin.left, mEnd := r.margin.right, styleSize := r.inherentSize.width,
    minSize := r.minSize.width, maxSize := r.maxSize.width, aspectNone := ar.isNone }
def gridFactsY (C : Layout α) (r : GridResolved α) (ar : Option α) : AxisFacts α :=
  { extStart := Reported.padStartY C, extEnd := Reported.padEndY C, insetStart := r.insetV.start,
    insetEnd := r.insetV.«end», mStart := r.margin.top, mEnd := r.margin.bottom, styleSize := r.inherentSize.height,
    minSize := r.minSize.height, maxSize := r.maxSize.height, aspectNone := ar.isNone }

end Spec
end AbsPos
