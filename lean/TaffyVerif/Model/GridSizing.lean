/-
  Model of src/compute/grid/track_sizing.rs as an interaction program: the same algorithm as Model/FrSize.lean, but the
  items' contributions are not oracle fields — they are obtained through `Sizer.minContentContribution` /
  `maxContentContribution` / `minimumContribution` (Model/GridItem.lean), i.e. through `measure_child_size` calls that
  are issued lazily, in the order of the Rust text, and cached per item exactly like `GridItem`'s caches.

  Everything that does not touch an item's contribution is *reused* from Model/FrSize.lean (`initializeTrackSizes`,
  `distributeItemSpaceToBaseSize`, `distributeItemSpaceToGrowthLimit`, the flush functions, `maximiseTracks`,
  `findSizeOfFr`, `stretchAutoTracks`, …).  Restated here in monadic form: the span-1 fast path, the six distribution
  steps of a batch, the batcher loop, `expand_flexible_tracks`; added: `resolve_item_baselines`,
  `compute_alignment_gutter_adjustment`, `resolve_item_track_indexes`,
  `determine_if_item_crosses_flexible_or_intrinsic_tracks`.

  `Drv/GRID.lean` has a `sizing` request that runs `trackSizingAlgorithmM` against constant contributions and compares
  it with the pure `GridTracks.trackSizingAlgorithm`.
  No Mathlib.
-/
import TaffyVerif.Model.GridItem

namespace GridModel
open GridTracks
variable {α : Type} [Num α]

/-! ### small helpers -/

/-- `a.total_cmp(b) == Less` on non-NaN values: IEEE order with −0.0 below +0.0 -/
def totalLt (a b : α) : Bool :=
  Num.flt a b || (Num.feq a b && Num.feq a 0 && Num.flt (1 / a) 0 && !Num.flt (1 / b) 0)

/-- `max_by(|a, b| a.total_cmp(b))`: the last of the maxima -/
def maxByTotal : List α → Option α
  | [] => none
  | x :: rest => some (rest.foldl (fun acc y => if totalLt y acc then acc else y) x)

/-- a monadic loop over items that also threads the axis tracks -/
def forItemsM (f : GItem α → List (GridTrack α) → GM α (GItem α × List (GridTrack α))) :
    List (GItem α) → List (GridTrack α) → GM α (List (GItem α) × List (GridTrack α))
  | [], ts => pure ([], ts)
  | it :: rest, ts => do
    let (it', ts') ← f it ts
    let (rest', ts'') ← forItemsM f rest ts'
    pure (it' :: rest', ts'')

/-! ### `resolve_item_track_indexes`, `determine_if_item_crosses_flexible_or_intrinsic_tracks` -/

/-- `OriginZeroLine::into_track_vec_index` -/
def intoTrackVecIndex (line : Int) (c : GridPlacement.TrackCounts) : GridPlacement.Outcome Int := do
  let n ← GridPlacement.i16 c.negativeImplicit
  let negN ← GridPlacement.i16 (-n)
  if line < negN then .panic "OriginZero grid line cannot be less than the number of negative grid lines" else do
  let s ← GridPlacement.u16 (c.explicit + c.positiveImplicit)
  let s16 ← GridPlacement.i16 s
  if line > s16 then .panic "OriginZero grid line cannot be more than the number of positive grid lines" else do
  let t ← GridPlacement.i16 (line + n)
  let u ← GridPlacement.usize t
  GridPlacement.usize (2 * u)

/-- `OriginZeroLine::try_into_track_vec_index`: `None` for a line outside of the implicit grid (the `||` short-circuits:
the second comparison and its checked operations are evaluated only when the first is false) -/
def tryIntoTrackVecIndex (line : Int) (c : GridPlacement.TrackCounts) : GridPlacement.Outcome (Option Int) := do
  let n ← GridPlacement.i16 c.negativeImplicit
  let negN ← GridPlacement.i16 (-n)
  if line < negN then pure none else do
  let s ← GridPlacement.u16 (c.explicit + c.positiveImplicit)
  let s16 ← GridPlacement.i16 s
  if line > s16 then pure none else do
  let i ← intoTrackVecIndex line c
  pure (some i)

/-- `resolve_item_track_indexes` (`… as u16`) -/
def resolveItemTrackIndexes (items : List (GItem α)) (colCounts rowCounts : GridPlacement.TrackCounts) :
    GridPlacement.Outcome (List (GItem α)) :=
  GridPlacement.mapO (fun (it : GItem α) => do
    let cs ← intoTrackVecIndex it.column.start colCounts
    let ce ← intoTrackVecIndex it.column.end colCounts
    let rs ← intoTrackVecIndex it.row.start rowCounts
    let re ← intoTrackVecIndex it.row.end rowCounts
    let cs ← GridPlacement.u16 cs; let ce ← GridPlacement.u16 ce
    let rs ← GridPlacement.u16 rs; let re ← GridPlacement.u16 re
    pure { it with columnIndexes := ⟨cs.toNat, ce.toNat⟩, rowIndexes := ⟨rs.toNat, re.toNat⟩ }) items

/-- `determine_if_item_crosses_flexible_or_intrinsic_tracks` -/
def determineCrossings (items : List (GItem α)) (columns rows : List (GridTrack α)) : List (GItem α) :=
  items.map fun it =>
    let cols := it.spannedTracks .inl columns
    let rws := it.spannedTracks .blk rows
    { it with crossesFlexibleColumn := cols.any (·.isFlexible),
              crossesIntrinsicColumn := cols.any (·.hasIntrinsicSizingFunction),
              crossesFlexibleRow := rws.any (·.isFlexible),
              crossesIntrinsicRow := rws.any (·.hasIntrinsicSizingFunction) }

/-! ### `compute_alignment_gutter_adjustment` -/

def computeAlignmentGutterAdjustment (alignment : AlignContent) (axisInnerNodeSize : Option α) (est : Estimate)
    (tracks : List (GridTrack α)) : α :=
  if tracks.length ≤ 1 then 0 else
  let outerGutterWeight : Nat := match alignment with
    | .stretch | .spaceBetween => 0
    | _ => 1
  let innerGutterWeight : Nat := match alignment with
    | .spaceBetween => 1
    | .spaceAround => 2
    | .spaceEvenly => 1
    | _ => 0
  if innerGutterWeight == 0 then 0 else
  match axisInnerNodeSize with
  | some a =>
    let freeSpace : α :=
      ((allSome (tracks.map fun t => est.eval t (some a))).map fun l => Num.fmax 0 (a - sumF l)).getD 0
    let weightedTrackCount : Nat := ((tracks.length - 3) / 2) * innerGutterWeight + 2 * outerGutterWeight
    (freeSpace / Num.ofNat weightedTrackCount) * Num.ofNat innerGutterWeight
  | none => 0

/-- `other_axis_tracks[2..len].iter_mut().step_by(2)` ← `content_alignment_adjustment` (only if `len > 3`) -/
def setGutterAdjustment (adj : α) (tracks : List (GridTrack α)) : List (GridTrack α) :=
  if tracks.length > 3 then
    tracks.zipIdx.map fun (t, i) => if i ≥ 2 && (i - 2) % 2 == 0 then { t with contentAlignmentAdjustment := adj } else t
  else tracks

/-! ### 11.5.1 `resolve_item_baselines` -/

/-- "Compute the baselines of all items in the row" -/
def measureRowBaselines (innerNodeSize : Size (Option α)) : List (GItem α) → GM α (List (GItem α))
  | [] => pure []
  | it :: rest => do
    let out ← GM.call it.node
      { runMode := .performLayout, sizingMode := .inherentSize, axis := .both, knownDimensions := Size.none,
        parentSize := innerNodeSize, availableSpace := ⟨.minContent, .minContent⟩,
        verticalMarginsAreCollapsible := ⟨false, false⟩ }
    let baseline := out.firstBaselines.y
    let height := out.size.height
    let it' := { it with baseline := some (baseline.getD height + it.margin.top.resolveOrZero innerNodeSize.width) }
    let rest' ← measureRowBaselines innerNodeSize rest
    pure (it' :: rest')

/-- the `while !remaining_items.is_empty()` loop -/
def baselineRows (axis : Ax) (innerNodeSize : Size (Option α)) : Nat → List (GItem α) → GM α (List (GItem α))
  | 0, items => pure items
  | _ + 1, [] => pure []
  | fuel + 1, first :: tl =>
    let items := first :: tl
    let otherAxis := axis.other
    let currentRow := (first.placement otherAxis).start
    let (rowItems, remaining) := match items.findIdx? (fun it => (it.placement otherAxis).start != currentRow) with
      | some i => (items.take i, items.drop i)
      | none => (items, [])
    let rowBaselineItemCount := (rowItems.filter fun it => it.alignSelf == .baseline).length
    if rowBaselineItemCount ≤ 1 then do
      let rest ← baselineRows axis innerNodeSize fuel remaining
      pure (rowItems ++ rest)
    else do
      let rowItems ← measureRowBaselines innerNodeSize rowItems
      let rowMaxBaseline := (maxByTotal (rowItems.map fun it => it.baseline.getD 0)).getD 0
      let rowItems := rowItems.map fun it => { it with baselineShim := rowMaxBaseline - it.baseline.getD 0 }
      let rest ← baselineRows axis innerNodeSize fuel remaining
      pure (rowItems ++ rest)

def resolveItemBaselines (axis : Ax) (items : List (GItem α)) (innerNodeSize : Size (Option α)) :
    GM α (List (GItem α)) :=
  let otherAxis := axis.other
  -- `items.sort_by_key(|item| item.placement(other_axis).start)` (stable)
  let items := items.mergeSort fun a b => decide ((a.placement otherAxis).start ≤ (b.placement otherAxis).start)
  baselineRows axis innerNodeSize (items.length + 1) items

/-! ### 11.5 `resolve_intrinsic_track_sizes` -/

/-- `cmp_by_cross_flex_then_span_then_start(axis)` as a `≤` -/
def itemLe (axis : Ax) (a b : GItem α) : Bool :=
  match a.crossesFlexibleTrack axis, b.crossesFlexibleTrack axis with
  | false, true => true
  | true, false => false
  | _, _ =>
    if a.span axis < b.span axis then true
    else if a.span axis > b.span axis then false
    else decide ((a.placement axis).start ≤ (b.placement axis).start)

/-- `item.overflow.get(axis).is_scroll_container()` -/
def GItem.scroll (it : GItem α) (axis : Ax) : Bool := (pget it.overflow axis).isScrollContainer

/-- the `space` of the `auto` arm of the span-1 path (`limit` = the track's definite limit) and of step 1 of the
general path (`limit` = `spanned_track_limit`, computed after the two contributions) -/
def minimumSpaceM (s : Sizer α) (avail : AvailableSpace α) (it : GItem α) (axisTracks : List (GridTrack α))
    (limit : GItem α → Option α) : GM α (α × GItem α) :=
  match avail with
  | .definite _ => s.minimumContribution it axisTracks
  | _ =>
    if !it.scroll s.axis then do
      let (axisMinimumSize, it) ← s.minimumContribution it axisTracks
      let (axisMinContentSize, it) ← s.minContentContribution it
      pure (Num.fmax (MaybeMath.fo_min axisMinContentSize (limit it)) axisMinimumSize, it)
    else s.minimumContribution it axisTracks

/-- span-1 fast path: the loop body for one item -/
def sizeSpanOneItemM (s : Sizer α) (avail : AvailableSpace α) (axisInner : Option α) (it : GItem α)
    (axisTracks : List (GridTrack α)) : GM α (GItem α × List (GridTrack α)) := do
  let trackIndex := (it.placementIndexes s.axis).start + 1
  match axisTracks[trackIndex]? with
  | none => throw "panic: index out of bounds (axis_tracks[track_index])"
  | some track =>
  -- Handle base sizes
  let (newBaseSize, it) ← (match track.minFn with
    | .minContent => do
      let (c, it) ← s.minContentContribution it
      pure (Num.fmax track.baseSize c, it)
    | .percent _ =>
      if axisInner.isNone then do
        let (c, it) ← s.minContentContribution it
        pure (Num.fmax track.baseSize c, it)
      else pure (track.baseSize, it)
    | .maxContent => do
      let (c, it) ← s.maxContentContribution it
      pure (Num.fmax track.baseSize c, it)
    | .auto => do
      let (space, it) ← minimumSpaceM s avail it axisTracks (fun _ => track.maxFn.definiteLimit axisInner)
      pure (Num.fmax track.baseSize space, it)
    | .length _ => pure (track.baseSize, it) : GM α (α × GItem α))
  let track := { track with baseSize := newBaseSize }
  -- Handle growth limits
  let (track, it) ← (
    if track.maxFn.isFitContent then do
      let (track, it) ← (
        if !it.scroll s.axis then do
          let (mc, it) ← s.minContentContribution it
          pure ({ track with growthLimitPlannedIncrease := Num.fmax track.growthLimitPlannedIncrease mc }, it)
        else pure (track, it) : GM α (GridTrack α × GItem α))
      let fitContentLimit := track.fitContentLimit axisInner
      let (xc, it) ← s.maxContentContribution it
      let maxContentContribution := fitContentLimit.minF xc
      pure ({ track with growthLimitPlannedIncrease := Num.fmax track.growthLimitPlannedIncrease maxContentContribution }, it)
    else if track.maxFn.isMaxContentAlike || (track.maxFn.usesPercentage && axisInner.isNone) then do
      let (xc, it) ← s.maxContentContribution it
      pure ({ track with growthLimitPlannedIncrease := Num.fmax track.growthLimitPlannedIncrease xc }, it)
    else if track.maxFn.isIntrinsic then do
      let (mc, it) ← s.minContentContribution it
      pure ({ track with growthLimitPlannedIncrease := Num.fmax track.growthLimitPlannedIncrease mc }, it)
    else pure (track, it) : GM α (GridTrack α × GItem α))
  pure (it, axisTracks.set trackIndex track)

/-- `if space > 0.0 { distribute_item_space_to_base_size(…, &mut axis_tracks[item range], …) }` -/
def distBase (axis : Ax) (isFlex useFF : Bool) (it : GItem α) (space : α) (aff : GridTrack α → Bool)
    (lim : GridTrack α → Ext α) (ty : ContributionType) (ts : List (GridTrack α)) : List (GridTrack α) :=
  if Num.flt 0 space then
    let (lo, hi) := it.trackRange axis
    onRange ts lo hi fun sl => distributeItemSpaceToBaseSize isFlex useFF space sl aff lim ty
  else ts

/-- `if space > 0.0 { distribute_item_space_to_growth_limit(space, tracks, …, inner_node_size.get(axis)) }` -/
def distGrowth (axis : Ax) (axisInner : Option α) (it : GItem α) (space : α) (aff : GridTrack α → Bool)
    (ts : List (GridTrack α)) : List (GridTrack α) :=
  if Num.flt 0 space then
    let (lo, hi) := it.trackRange axis
    onRange ts lo hi fun sl => distributeItemSpaceToGrowthLimit space sl aff axisInner
  else ts

/-- the limit closure of steps 1 and 2 -/
def minLimit (axis : Ax) (axisInner : Option α) (it : GItem α) : GridTrack α → Ext α :=
  if it.scroll axis then fun t => t.fitContentLimitedGrowthLimit axisInner else fun t => t.growthLimit

/-- the general path of the batch loop (span > 1, or items crossing a flexible track) -/
def sizeBatchGeneralM (s : Sizer α) (avail : AvailableSpace α) (axisInner : Option α) (isFlex : Bool)
    (flexFactorSum : α) (batch : List (GItem α)) (tracks : List (GridTrack α)) :
    GM α (List (GItem α) × List (GridTrack α)) := do
  let axis := s.axis
  let useFF := isFlex && !Num.feq flexFactorSum 0
  -- 1. For intrinsic minimums
  let (batch, tracks) ← forItemsM (fun it ts =>
    if !it.crossesIntrinsicTrack axis then pure (it, ts) else do
      let (space, it) ← minimumSpaceM s avail it ts (fun it => it.spannedTrackLimit axis ts axisInner)
      pure (it, distBase axis isFlex useFF it space (fun t => (t.minFn.definiteValue axisInner).isNone)
        (minLimit axis axisInner it) .minimum ts)) batch tracks
  let tracks := flushPlannedBaseSizeIncreases tracks
  -- 2. For content-based minimums
  let (batch, tracks) ← forItemsM (fun it ts => do
      let (space, it) ← s.minContentContribution it
      pure (it, distBase axis isFlex useFF it space (fun t => t.minFn.isMinOrMaxContent)
        (minLimit axis axisInner it) .minimum ts)) batch tracks
  let tracks := flushPlannedBaseSizeIncreases tracks
  -- 3. For max-content minimums
  let (batch, tracks) ← (match avail with
    | .maxContent => do
      let (batch, tracks) ← forItemsM (fun it ts => do
        let (axisMaxContentSize, it) ← s.maxContentContribution it
        let limit := it.spannedTrackLimit axis ts axisInner
        let space := MaybeMath.fo_min axisMaxContentSize limit
        if (it.spannedTracks axis ts).any (fun t => t.minFn.isMaxContent) then
          pure (it, distBase axis isFlex useFF it space (fun t => t.minFn.isMaxContent) (fun _ => .inf) .maximum ts)
        else
          pure (it, distBase axis isFlex useFF it space (fun t => t.minFn.isAuto && !t.maxFn.isMinContent)
            (fun t => t.fitContentLimitedGrowthLimit axisInner) .maximum ts)) batch tracks
      pure (batch, flushPlannedBaseSizeIncreases tracks)
    | _ => pure (batch, tracks) : GM α (List (GItem α) × List (GridTrack α)))
  -- In all cases, continue to increase the base size of tracks with a min track sizing function of max-content
  let (batch, tracks) ← forItemsM (fun it ts => do
      let (space, it) ← s.maxContentContribution it
      pure (it, distBase axis isFlex useFF it space (fun t => t.minFn.isMaxContent) (fun t => t.growthLimit)
        .maximum ts)) batch tracks
  let tracks := flushPlannedBaseSizeIncreases tracks
  -- 4.
  let tracks := raiseGrowthLimits tracks
  if isFlex then pure (batch, tracks) else do
  -- 5. For intrinsic maximums
  let (batch, tracks) ← forItemsM (fun it ts => do
      let (space, it) ← s.minContentContribution it
      pure (it, distGrowth axis axisInner it space (fun t => !t.maxFn.hasDefiniteValue axisInner) ts)) batch tracks
  let tracks := flushPlannedGrowthLimitIncreases tracks true
  -- 6. For max-content maximums
  let (batch, tracks) ← forItemsM (fun it ts => do
      let (space, it) ← s.maxContentContribution it
      pure (it, distGrowth axis axisInner it space
        (fun t => t.maxFn.isMaxContentAlike || (t.maxFn.usesPercentage && axisInner.isNone)) ts)) batch tracks
  let tracks := flushPlannedGrowthLimitIncreases tracks false
  pure (batch, tracks)

/-- the `ItemBatcher` loop together with the per-batch work -/
def batchLoopM (s : Sizer α) (avail : AvailableSpace α) (axisInner : Option α) (flexFactorSum : α) :
    Nat → List (GItem α) → Nat → List (GridTrack α) → GM α (List (GItem α) × List (GridTrack α))
  | 0, items, _, tracks => pure (items, tracks)
  | fuel + 1, items, offset, tracks =>
    match items[offset]? with
    | none => pure (items, tracks)
    | some item => do
      let axis := s.axis
      let span := item.span axis
      let isFlex := item.crossesFlexibleTrack axis
      let next := if isFlex then items.length
        else (items.findIdx? fun it => it.crossesFlexibleTrack axis || it.span axis > span).getD items.length
      let batch := (items.drop offset).take (next - offset)
      let (batch, tracks) ← (
        if !isFlex && span == 1 then do
          let (batch, tracks) ← forItemsM (fun it ts => sizeSpanOneItemM s avail axisInner it ts) batch tracks
          pure (batch, flushSpanOne tracks)
        else sizeBatchGeneralM s avail axisInner isFlex flexFactorSum batch tracks
        : GM α (List (GItem α) × List (GridTrack α)))
      let items := items.take offset ++ batch ++ items.drop next
      if isFlex then pure (items, tracks) else batchLoopM s avail axisInner flexFactorSum fuel items next tracks

/-- `resolve_intrinsic_track_sizes` -/
def resolveIntrinsicTrackSizesM (s : Sizer α) (tracks : List (GridTrack α)) (items : List (GItem α))
    (avail : AvailableSpace α) : GM α (List (GItem α) × List (GridTrack α)) := do
  let axis := s.axis
  let items := items.mergeSort (itemLe axis)
  let axisInner := sget s.innerNodeSize axis
  let flexFactorSum : α := sumF (tracks.map (·.flexFactor))
  let (items, tracks) ← batchLoopM s avail axisInner flexFactorSum (items.length + 1) items 0 tracks
  let tracks := tracks.map fun t => match t.growthLimit with
    | .inf => { t with growthLimit := .fin t.baseSize }
    | _ => t
  pure (items, tracks)

/-! ### 11.7 `expand_flexible_tracks` -/

/-- "For each grid item that crosses a flexible track, the result of finding the size of an fr …" -/
def flexItemFractions (axis : Ax) (innerNodeSize : Size (Option α)) (tracks : List (GridTrack α)) :
    List (GItem α) → GM α (List (GItem α) × List α)
  | [] => pure ([], [])
  | it :: rest =>
    if it.crossesFlexibleTrack axis then do
      let (mc, it) ← it.maxContentContributionCached axis Size.none innerNodeSize
      let fr := findSizeOfFr (it.spannedTracks axis tracks) mc
      let (rest, frs) ← flexItemFractions axis innerNodeSize tracks rest
      pure (it :: rest, fr :: frs)
    else do
      let (rest, frs) ← flexItemFractions axis innerNodeSize tracks rest
      pure (it :: rest, frs)

def expandFlexibleTracksM (axis : Ax) (tracks : List (GridTrack α)) (items : List (GItem α))
    (axisMinSize axisMaxSize : Option α) (availForExpansion : AvailableSpace α) (innerNodeSize : Size (Option α)) :
    GM α (List (GItem α) × List (GridTrack α)) := do
  let (items, flexFraction) ← (match availForExpansion with
    | .definite availableSpace =>
      let used : α := sumF (tracks.map (·.baseSize))
      let free := availableSpace - used
      pure (items, if Num.fle free 0 then 0 else findSizeOfFr tracks availableSpace)
    | .minContent => pure (items, 0)
    | .maxContent => do
      let a := (maxByTotal ((tracks.filter (·.maxFn.isFr)).map fun t =>
        let ff := t.flexFactor
        if Num.flt 1 ff then t.baseSize / ff else t.baseSize)).getD 0
      let (items, frs) ← flexItemFractions axis innerNodeSize tracks items
      let b := (maxByTotal frs).getD 0
      let flexFraction := Num.fmax a b
      let hypothetical : α := sumF (tracks.map fun t => match t.maxFn with
        | .fr v => Num.fmax t.baseSize (v * flexFraction)
        | _ => t.baseSize)
      let mn := axisMinSize.getD 0
      let r : α :=
        if Num.flt hypothetical mn then findSizeOfFr tracks mn
        else match axisMaxSize with
          | some mx => if Num.flt mx hypothetical then findSizeOfFr tracks mx else flexFraction
          | none => flexFraction
      pure (items, r) : GM α (List (GItem α) × α))
  let tracks := tracks.map fun t => match t.maxFn with
    | .fr v => { t with baseSize := Num.fmax t.baseSize (v * flexFraction) }
    | _ => t
  pure (items, tracks)

/-! ### `track_sizing_algorithm` -/

/-- the arguments of one run that are not tracks or items -/
structure RunArgs (α : Type) where
  axis : Ax
  axisMinSize : Option α
  axisMaxSize : Option α
  axisAlignment : AlignContent
  otherAxisAlignment : AlignContent
  availableGridSpace : Size (AvailableSpace α)
  innerNodeSize : Size (Option α)
  est : Estimate
  hasBaselineAlignedItem : Bool

/-- the tracks of both axes and the items, all of which a run mutates -/
structure RunState (α : Type) where
  axisTracks : List (GridTrack α)
  otherAxisTracks : List (GridTrack α)
  items : List (GItem α)

def trackSizingAlgorithmM (a : RunArgs α) (st : RunState α) : GM α (RunState α) := do
  let axis := a.axis
  let axisInner := sget a.innerNodeSize axis
  -- 11.4 Initialise Track sizes
  let axisTracks := initializeTrackSizes st.axisTracks axisInner
  -- 11.5.1 Shim item baselines
  let items ← (if a.hasBaselineAlignedItem then resolveItemBaselines axis st.items a.innerNodeSize
    else pure st.items : GM α (List (GItem α)))
  -- If all tracks have base_size = growth_limit, then skip the rest of this function
  if axisTracks.all (fun t => t.growthLimit.eqF t.baseSize) then
    pure { axisTracks, otherAxisTracks := st.otherAxisTracks, items }
  else do
  let gutterAlignmentAdjustment := computeAlignmentGutterAdjustment a.otherAxisAlignment
    (sget a.innerNodeSize axis.other) a.est st.otherAxisTracks
  let otherAxisTracks := setGutterAdjustment gutterAlignmentAdjustment st.otherAxisTracks
  -- 11.5 Resolve Intrinsic Track Sizes
  let avail := sget a.availableGridSpace axis
  let sizer : Sizer α := { otherAxisTracks, est := a.est, axis, innerNodeSize := a.innerNodeSize }
  let (items, axisTracks) ← resolveIntrinsicTrackSizesM sizer axisTracks items avail
  -- 11.6 Maximise Tracks
  let axisTracks := maximiseTracks axisTracks axisInner avail
  let availForExpansion : AvailableSpace α := match axisInner with
    | some s => .definite s
    | none => match avail with
      | .minContent => .minContent
      | _ => .maxContent
  -- 11.7 Expand Flexible Tracks
  let (items, axisTracks) ←
    expandFlexibleTracksM axis axisTracks items a.axisMinSize a.axisMaxSize availForExpansion a.innerNodeSize
  -- 11.8 Stretch auto Tracks
  let axisTracks :=
    if a.axisAlignment == .stretch then stretchAutoTracks axisTracks a.axisMinSize availForExpansion else axisTracks
  pure { axisTracks, otherAxisTracks, items }

end GridModel
