/-
  C12 — content-box / border-box: the style rewriting `toBorderBox` and its domain `Eligible`.

  A node with `box-sizing: content-box` whose size / min-size / max-size / flex-basis are `auto` or lengths (no
  percentages), whose padding and border are lengths and which has no aspect ratio is rewritten into the
  `box-sizing: border-box` node that describes the same box: every non-auto length is increased by the
  padding+border sum of its axis.  `flex-basis` lives on the *parent's* main axis, hence the `mainIsRow` argument.

  The sums are associated exactly as the Rust computes `(padding + border).sum_axes()`:
  `(padding.left + border.left) + (padding.right + border.right)`.

  No Mathlib here.
-/
import TaffyVerif.Model.Eval
import TaffyVerif.Model.Leaf
import TaffyVerif.Model.Block

namespace BoxSizingModel
variable {α : Type} [Num α]

/-- the value of a length (`0` for a percentage: never used on eligible styles) -/
def lpLen : LP α → α
  | .length v => v
  | .percent _ => 0

def rectLen (r : Rect (LP α)) : Rect α := ⟨lpLen r.left, lpLen r.right, lpLen r.top, lpLen r.bottom⟩

/-- `(padding + border).sum_axes()` of a style whose padding and border are lengths -/
def pbSum (s : Style α) : Size α := ((rectLen s.padding).add (rectLen s.border)).sumAxes

/-- a non-auto length grows by `p`; `auto` (and a percentage, excluded by `Eligible`) is left alone -/
def bumpDim (d : Dimension α) (p : α) : Dimension α :=
  match d with
  | .length v => .length (v + p)
  | x => x

def bumpSize (d : Size (Dimension α)) (p : Size α) : Size (Dimension α) :=
  ⟨bumpDim d.width p.width, bumpDim d.height p.height⟩

/-- the border-box description of the same box -/
def toBorderBox (mainIsRow : Bool) (s : Style α) : Style α :=
  { s with
    boxSizing := .borderBox
    size := bumpSize s.size (pbSum s)
    minSize := bumpSize s.minSize (pbSum s)
    maxSize := bumpSize s.maxSize (pbSum s)
    flexBasis := bumpDim s.flexBasis (if mainIsRow then (pbSum s).width else (pbSum s).height) }

/-! ### eligibility (decidable without comparing numbers) -/

def lpIsLength : LP α → Bool
  | .length _ => true
  | .percent _ => false

def rectIsLength (r : Rect (LP α)) : Bool :=
  lpIsLength r.left && lpIsLength r.right && lpIsLength r.top && lpIsLength r.bottom

/-- `auto` or a length -/
def dimNoPercent : Dimension α → Bool
  | .percent _ => false
  | _ => true

def sizeNoPercent (d : Size (Dimension α)) : Bool := dimNoPercent d.width && dimNoPercent d.height

def eligibleB (s : Style α) : Bool :=
  (match s.boxSizing with | .contentBox => true | .borderBox => false)
    && s.aspectRatio.isNone
    && rectIsLength s.padding && rectIsLength s.border
    && sizeNoPercent s.size && sizeNoPercent s.minSize && sizeNoPercent s.maxSize
    && dimNoPercent s.flexBasis

/-- the domain of `toBorderBox` -/
def Eligible (s : Style α) : Prop := eligibleB s = true

instance (s : Style α) : Decidable (Eligible s) := by unfold Eligible; infer_instance

/-! ### style relations used by the site and tree theorems -/

/-- `sB` is `sA` or its border-box description (flex-basis along the axis `mainIsRow`) -/
def StyleRel (mainIsRow : Bool) (sA sB : Style α) : Prop :=
  sB = sA ∨ (Eligible sA ∧ sB = toBorderBox mainIsRow sA)

/-- child-style lists of equal length, pairwise `StyleRel` (any subset switched) -/
def StylesRel (mainIsRow : Bool) : List (Style α) → List (Style α) → Prop
  | [], [] => True
  | a :: as, b :: bs => StyleRel mainIsRow a b ∧ StylesRel mainIsRow as bs
  | _, _ => False

/-- the same with an arbitrary axis per child (a block container never reads `flex_basis`) -/
def StylesRelAny : List (Style α) → List (Style α) → Prop
  | [], [] => True
  | a :: as, b :: bs => (∃ m, StyleRel m a b) ∧ StylesRelAny as bs
  | _, _ => False

mutual
/-- two style trees of the same shape and the same leaf contents; at each node the styles are equal or the second is
the border-box description of the (eligible) first, the flex-basis being rewritten along the parent's main axis
(`mainIsRow` = the parent's `flex_direction.is_row()`; immaterial for the root and under non-flex parents, which
never read `flex_basis`) -/
def BoxRel (mainIsRow : Bool) : STree α → STree α → Prop
  | .node sA cA kA, .node sB cB kB =>
    StyleRel mainIsRow sA sB ∧ cA = cB ∧ BoxRelList sA.flexDirection.isRow kA kB
def BoxRelList (mainIsRow : Bool) : List (STree α) → List (STree α) → Prop
  | [], [] => True
  | a :: as, b :: bs => BoxRel mainIsRow a b ∧ BoxRelList mainIsRow as bs
  | _, _ => False
end

/-! ### the hypothesis of the tree theorem: the algorithms do not see the rewriting -/

/-- a container algorithm yields the same interaction program when its own (eligible) style is switched and when any
subset of (eligible) child styles is switched (flex-basis along the container's main axis) -/
structure ContainerBlind (alg : Style α → List (Style α) → LayoutInput α → ProgM α (LayoutOutput α)) : Prop where
  own : ∀ (s : Style α) (cs : List (Style α)) (inp : LayoutInput α) (m : Bool),
    Eligible s → alg s cs inp = alg (toBorderBox m s) cs inp
  items : ∀ (s : Style α) (cs cs' : List (Style α)) (inp : LayoutInput α),
    StylesRel s.flexDirection.isRow cs cs' → alg s cs inp = alg s cs' inp

structure BoxBlind (algs : Eval.Algs α) : Prop where
  leaf : ∀ (inp : LayoutInput α) (s : Style α) (m : Bool) (mf : Size (Option α) → Size (AvailableSpace α) → Size α),
    Eligible s → algs.leaf inp s mf = algs.leaf inp (toBorderBox m s) mf
  block : ContainerBlind algs.block
  flex : ContainerBlind algs.flex
  grid : ContainerBlind algs.grid

/-- the concrete leaf algorithm as the evaluator's `Algs.leaf`: `compute_leaf_layout`, its one panic
(`unreachable!()` for the hidden run mode, which the evaluator never passes to a leaf) mapped to the hidden output -/
def leafAlg (inp : LayoutInput α) (s : Style α) (mf : Size (Option α) → Size (AvailableSpace α) → Size α) :
    LayoutOutput α :=
  match LeafModel.computeLeafLayout inp s mf with
  | .ok (out, _) => out
  | .error _ => LayoutOutput.hidden

/-- the modelled algorithms (leaf, block) with flex and grid left abstract -/
def algsWith (flex grid : Style α → List (Style α) → LayoutInput α → ProgM α (LayoutOutput α)) : Eval.Algs α :=
  { leaf := leafAlg, block := BlockModel.computeBlockLayout, flex, grid }

/-! ### an unmodelled site that is NOT equivalent (found by the site table, replayed on the real code)

  grid_item.rs `GridItem::minimum_contribution`, l.517–522: for a compressible replaced item the content-based minimum
  contribution is capped by `self.size` / `self.max_size` — raw copies of `style.size()` / `style.max_size()`
  (l.113–115) resolved against zero, *without* `maybe_add(box_sizing_adjustment)` (which is in scope, l.470).
  The four lines are transliterated here only to state the witness in Lean; this definition is not tied to the code by
  a correspondence run (grid track sizing is not modelled) — the witness is replayed on the real code instead. -/

/-- `minimum_contribution.maybe_min(size).maybe_min(max_size)` with
`size = self.size.get(axis).maybe_resolve(Some(0.0))`, `max_size = self.max_size.get(axis).maybe_resolve(Some(0.0))` -/
def gridCompressibleCap (s : Style α) (inlineAxis : Bool) (minimumContribution : α) : α :=
  let size := (if inlineAxis then s.size.width else s.size.height).maybeResolve (some 0)
  let maxSize := (if inlineAxis then s.maxSize.width else s.maxSize.height).maybeResolve (some 0)
  MaybeMath.fo_min (MaybeMath.fo_min minimumContribution size) maxSize

/-- the one-line repair: add the (in-scope) `box_sizing_adjustment.get(axis)` to both caps -/
def gridCompressibleCapRepaired (s : Style α) (inlineAxis : Bool) (adjustment : Size α) (minimumContribution : α) : α :=
  let adj := if inlineAxis then adjustment.width else adjustment.height
  let size := MaybeMath.of_add ((if inlineAxis then s.size.width else s.size.height).maybeResolve (some 0)) adj
  let maxSize := MaybeMath.of_add ((if inlineAxis then s.maxSize.width else s.maxSize.height).maybeResolve (some 0)) adj
  MaybeMath.fo_min (MaybeMath.fo_min minimumContribution size) maxSize

end BoxSizingModel
