/-
  Model of src/compute/grid/types/grid_item.rs: `GridItem` with its per-run caches, and the functions through which
  the track sizing algorithm calls back into the tree (`measure_child_size`).  In the whole-algorithm model these are
  interaction programs: every `min_content_contribution` / `max_content_contribution` that misses the item's cache is a
  `ProgM.call` with exactly the `LayoutInput` the Rust builds, in the order the Rust issues it.

  Correspondence of names (Rust → Lean):
    GridItem::new_with_placement_style_and_order → `GItem.new`
    placement / placement_indexes / track_range_excluding_lines / span / crosses_*  → same names
    spanned_track_limit / spanned_fixed_track_limit → `GItem.spannedTrackLimit` / `spannedFixedTrackLimit`
    known_dimensions                             → `GItem.knownDimensions`
    available_space / available_space_cached     → `GItem.availableSpace` / `availableSpaceCached`
    margins_axis_sums_with_baseline_shims        → `GItem.marginsAxisSums`
    min_content_contribution[_cached]            → `GItem.minContentContribution[Cached]`
    max_content_contribution[_cached]            → `GItem.maxContentContribution[Cached]`
    minimum_contribution[_cached]                → `GItem.minimumContribution[Cached]`

  `GM α` = `ExceptT String (ProgM α)`: interaction programs in which a Rust panic (checked integer arithmetic of the
  placement code, `assert!`, slice indexing) is an explicit `throw`.
  No Mathlib.
-/
import TaffyVerif.Model.Prog
import TaffyVerif.Model.GridStyle
import TaffyVerif.Model.FrSize

namespace GridModel
open GridTracks

/-- interaction programs that may panic -/
abbrev GM (α : Type) := ExceptT String (ProgM α)

namespace GM
variable {α β : Type}
/-- `tree.compute_child_layout(child, input)` -/
def call (child : Nat) (input : LayoutInput α) : GM α (LayoutOutput α) :=
  ExceptT.lift (ProgM.computeChildLayout child input)
/-- `tree.set_unrounded_layout(child, &layout)` -/
def setLayout (child : Nat) (layout : Layout α) : GM α Unit :=
  ExceptT.lift (ProgM.setUnroundedLayout child layout)
/-- outcomes of the integer-coordinate code: everything but `ok` is a panic of the implementation -/
def ofOutcome : GridPlacement.Outcome β → GM α β
  | .ok a => pure a
  | .panic m => throw ("panic: " ++ m)
  | .overflow => throw "overflow"
  | .outOfFuel => throw "outOfFuel"
def ofExcept : Except GErr β → GM α β
  | .ok a => pure a
  | .error .overflow => throw "overflow"
  | .error .unwrapNone => throw "panic: unwrap on None"
end GM

/-- `AbstractAxis`: `inl` = Inline = horizontal (columns), `blk` = Block = vertical (rows) -/
inductive Ax where
  | inl | blk
deriving Repr, BEq, DecidableEq, Inhabited

namespace Ax
def other : Ax → Ax
  | .inl => .blk
  | .blk => .inl
end Ax

/-- `Size::get(AbstractAxis)` -/
def sget {β : Type} (s : Size β) : Ax → β
  | .inl => s.width
  | .blk => s.height
/-- `Size::set(AbstractAxis, value)` -/
def sset {β : Type} (s : Size β) (a : Ax) (v : β) : Size β :=
  match a with
  | .inl => { s with width := v }
  | .blk => { s with height := v }
/-- `Point::get(AbstractAxis)` -/
def pget {β : Type} (p : Point β) : Ax → β
  | .inl => p.x
  | .blk => p.y

/-- `struct GridItem` -/
structure GItem (α : Type) where
  /-- `node`: index of the child in the container's child list (= `source_order`) -/
  node : Nat
  sourceOrder : Nat
  row : Line Int
  column : Line Int
  isCompressibleReplaced : Bool
  overflow : Point Overflow
  boxSizing : BoxSizing
  size : Size (Dimension α)
  minSize : Size (Dimension α)
  maxSize : Size (Dimension α)
  aspectRatio : Option α
  padding : Rect (LP α)
  border : Rect (LP α)
  margin : Rect (LPA α)
  alignSelf : AlignItems
  justifySelf : AlignItems
  baseline : Option α
  baselineShim : α
  rowIndexes : Line Nat
  columnIndexes : Line Nat
  crossesFlexibleRow : Bool
  crossesFlexibleColumn : Bool
  crossesIntrinsicRow : Bool
  crossesIntrinsicColumn : Bool
  availableSpaceCache : Option (Size (Option α))
  minContentContributionCache : Size (Option α)
  minimumContributionCache : Size (Option α)
  maxContentContributionCache : Size (Option α)
  yPosition : α
  height : α
deriving Repr, Inhabited

/-- which `get_track_size_estimate` closure a run of the track sizing algorithm was given -/
inductive Estimate where
  /-- `|track, parent_size, tree| track.max_track_sizing_function.definite_value(parent_size, …)` -/
  | maxFnDefinite
  /-- `|track, _, _| Some(track.base_size)` -/
  | baseSize
deriving Repr, BEq, DecidableEq, Inhabited

section
variable {α : Type} [Num α]

def Estimate.eval (e : Estimate) (t : GridTrack α) (parent : Option α) : Option α :=
  match e with
  | .maxFnDefinite => t.maxFn.definiteValue parent
  | .baseSize => some t.baseSize

namespace GItem

/-- `GridItem::new_with_placement_style_and_order` -/
def new (node : Nat) (colSpan rowSpan : Line Int) (cs : Style α) (parentAlignItems parentJustifyItems : AlignItems)
    (sourceOrder : Nat) : GItem α :=
  { node, sourceOrder, row := rowSpan, column := colSpan,
    isCompressibleReplaced := cs.itemIsReplaced, overflow := cs.overflow, boxSizing := cs.boxSizing,
    size := cs.size, minSize := cs.minSize, maxSize := cs.maxSize, aspectRatio := cs.aspectRatio,
    padding := cs.padding, border := cs.border, margin := cs.margin,
    alignSelf := cs.alignSelf.getD parentAlignItems, justifySelf := cs.justifySelf.getD parentJustifyItems,
    baseline := none, baselineShim := 0, rowIndexes := ⟨0, 0⟩, columnIndexes := ⟨0, 0⟩,
    crossesFlexibleRow := false, crossesFlexibleColumn := false, crossesIntrinsicRow := false,
    crossesIntrinsicColumn := false, availableSpaceCache := none,
    minContentContributionCache := Size.none, minimumContributionCache := Size.none,
    maxContentContributionCache := Size.none, yPosition := 0, height := 0 }

def placement (it : GItem α) : Ax → Line Int
  | .blk => it.row
  | .inl => it.column

def placementIndexes (it : GItem α) : Ax → Line Nat
  | .blk => it.rowIndexes
  | .inl => it.columnIndexes

/-- `track_range_excluding_lines`: `(indexes.start + 1)..indexes.end` as `(lo, hi)` -/
def trackRange (it : GItem α) (axis : Ax) : Nat × Nat :=
  let idx := it.placementIndexes axis
  (idx.start + 1, idx.end)

/-- `Line<OriginZeroLine>::span`: `max(end − start, 0) as u16` -/
def span (it : GItem α) (axis : Ax) : Nat :=
  let p := it.placement axis
  (max (p.end - p.start) 0).toNat

def crossesFlexibleTrack (it : GItem α) : Ax → Bool
  | .inl => it.crossesFlexibleColumn
  | .blk => it.crossesFlexibleRow

def crossesIntrinsicTrack (it : GItem α) : Ax → Bool
  | .inl => it.crossesIntrinsicColumn
  | .blk => it.crossesIntrinsicRow

/-- the slice `&axis_tracks[self.track_range_excluding_lines(axis)]` -/
def spannedTracks (it : GItem α) (axis : Ax) (axisTracks : List (GridTrack α)) : List (GridTrack α) :=
  let (lo, hi) := it.trackRange axis
  sliceOf axisTracks lo hi

/-- `spanned_track_limit` -/
def spannedTrackLimit (it : GItem α) (axis : Ax) (axisTracks : List (GridTrack α)) (axisParentSize : Option α) :
    Option α :=
  (allSome ((it.spannedTracks axis axisTracks).map fun t => t.maxFn.definiteLimit axisParentSize)).map sumF

/-- `spanned_fixed_track_limit` -/
def spannedFixedTrackLimit (it : GItem α) (axis : Ax) (axisTracks : List (GridTrack α)) (axisParentSize : Option α) :
    Option α :=
  (allSome ((it.spannedTracks axis axisTracks).map fun t => t.maxFn.definiteValue axisParentSize)).map sumF

/-- `margins_axis_sums_with_baseline_shims(inner_node_width)` -/
def marginsAxisSums (it : GItem α) (innerNodeWidth : Option α) : Size α :=
  let r : Rect α :=
    { left := it.margin.left.resolveOrZero (some 0), right := it.margin.right.resolveOrZero (some 0),
      top := it.margin.top.resolveOrZero innerNodeWidth + it.baselineShim,
      bottom := it.margin.bottom.resolveOrZero innerNodeWidth }
  r.sumAxes

/-- `style.X().maybe_resolve(ctx).maybe_apply_aspect_ratio(ar).maybe_add(box_sizing_adjustment)` -/
def resolveSize (d : Size (Dimension α)) (ctx : Size (Option α)) (ar : Option α) (adj : Size α) : Size (Option α) :=
  ((Resolve.sizeMaybe d ctx).maybeApplyAspectRatio ar).of_add adj

/-- `known_dimensions(tree, inner_node_size, grid_area_size)` -/
def knownDimensions (it : GItem α) (innerNodeSize gridAreaSize : Size (Option α)) : Size (Option α) :=
  let margins := it.marginsAxisSums innerNodeSize.width
  let ar := it.aspectRatio
  let padding := Resolve.rectLPOrZeroSize it.padding gridAreaSize
  let border := Resolve.rectLPOrZeroSize it.border gridAreaSize
  let pbSize := (padding.add border).sumAxes
  let adj : Size α := if it.boxSizing == .contentBox then pbSize else Size.zero
  let inherentSize := resolveSize it.size gridAreaSize ar adj
  let minSize := resolveSize it.minSize gridAreaSize ar adj
  let maxSize := resolveSize it.maxSize gridAreaSize ar adj
  let areaMinusMargins := gridAreaSize.of_sub margins
  let width : Option α := match inherentSize.width with
    | some w => some w
    | none =>
      if !it.margin.left.isAuto && !it.margin.right.isAuto && it.justifySelf == .stretch then areaMinusMargins.width
      else none
  let s1 := (⟨width, inherentSize.height⟩ : Size (Option α)).maybeApplyAspectRatio ar
  let height : Option α := match s1.height with
    | some h => some h
    | none =>
      if !it.margin.top.isAuto && !it.margin.bottom.isAuto && it.alignSelf == .stretch then areaMinusMargins.height
      else none
  let s2 := (⟨s1.width, height⟩ : Size (Option α)).maybeApplyAspectRatio ar
  s2.oo_clamp minSize maxSize

/-- `available_space(axis, other_axis_tracks, other_axis_available_space, get_track_size_estimate)` -/
def availableSpace (it : GItem α) (axis : Ax) (otherAxisTracks : List (GridTrack α)) (otherAxisAvail : Option α)
    (est : Estimate) : Size (Option α) :=
  let v : Option α :=
    (allSome ((it.spannedTracks axis.other otherAxisTracks).map fun t =>
      (est.eval t otherAxisAvail).map fun size => size + t.contentAlignmentAdjustment)).map sumF
  sset (Size.none : Size (Option α)) axis.other v

/-- `available_space_cached` -/
def availableSpaceCached (it : GItem α) (axis : Ax) (otherAxisTracks : List (GridTrack α)) (otherAxisAvail : Option α)
    (est : Estimate) : Size (Option α) × GItem α :=
  match it.availableSpaceCache with
  | some a => (a, it)
  | none =>
    let a := it.availableSpace axis otherAxisTracks otherAxisAvail est
    (a, { it with availableSpaceCache := some a })

/-- the `LayoutInput` of a contribution query; `indefinite` is what `None` available space becomes -/
def contributionInput (it : GItem α) (axis : Ax) (availableSpace innerNodeSize : Size (Option α))
    (indefinite : AvailableSpace α) : LayoutInput α :=
  let f : Option α → AvailableSpace α := fun o => match o with
    | some s => .definite s
    | none => indefinite
  { runMode := .computeSize, sizingMode := .inherentSize,
    axis := (match axis with | .inl => .horizontal | .blk => .vertical),
    knownDimensions := it.knownDimensions innerNodeSize availableSpace,
    parentSize := innerNodeSize,
    availableSpace := ⟨f availableSpace.width, f availableSpace.height⟩,
    verticalMarginsAreCollapsible := ⟨false, false⟩ }

/-- `min_content_contribution`: `tree.measure_child_size(…)` -/
def minContentContribution (it : GItem α) (axis : Ax) (availableSpace innerNodeSize : Size (Option α)) : GM α α := do
  let out ← GM.call it.node (it.contributionInput axis availableSpace innerNodeSize .minContent)
  pure (sget out.size axis)

/-- `min_content_contribution_cached` -/
def minContentContributionCached (it : GItem α) (axis : Ax) (availableSpace innerNodeSize : Size (Option α)) :
    GM α (α × GItem α) :=
  match sget it.minContentContributionCache axis with
  | some v => pure (v, it)
  | none => do
    let v ← it.minContentContribution axis availableSpace innerNodeSize
    pure (v, { it with minContentContributionCache := sset it.minContentContributionCache axis (some v) })

/-- `max_content_contribution` -/
def maxContentContribution (it : GItem α) (axis : Ax) (availableSpace innerNodeSize : Size (Option α)) : GM α α := do
  let out ← GM.call it.node (it.contributionInput axis availableSpace innerNodeSize .maxContent)
  pure (sget out.size axis)

/-- `max_content_contribution_cached` -/
def maxContentContributionCached (it : GItem α) (axis : Ax) (availableSpace innerNodeSize : Size (Option α)) :
    GM α (α × GItem α) :=
  match sget it.maxContentContributionCache axis with
  | some v => pure (v, it)
  | none => do
    let v ← it.maxContentContribution axis availableSpace innerNodeSize
    pure (v, { it with maxContentContributionCache := sset it.maxContentContributionCache axis (some v) })

/-- `minimum_contribution(tree, axis, axis_tracks, known_dimensions, inner_node_size)` -/
def minimumContribution (it : GItem α) (axis : Ax) (axisTracks : List (GridTrack α))
    (knownDimensions innerNodeSize : Size (Option α)) : GM α (α × GItem α) := do
  let padding := Resolve.rectLPOrZeroSize it.padding innerNodeSize
  let border := Resolve.rectLPOrZeroSize it.border innerNodeSize
  let pbSize := (padding.add border).sumAxes
  let adj : Size α := if it.boxSizing == .contentBox then pbSize else Size.zero
  let fromStyle : Option α :=
    ((sget (resolveSize it.size innerNodeSize it.aspectRatio adj) axis).or
      (sget (resolveSize it.minSize innerNodeSize it.aspectRatio adj) axis)).or
      (pget it.overflow axis).maybeIntoAutomaticMinSize
  let (size, it) ← (match fromStyle with
    | some v => (pure (v, it) : GM α (α × GItem α))
    | none => do
      -- Automatic minimum size
      let itemAxisTracks := it.spannedTracks axis axisTracks
      let spansAutoMinTrack := axisTracks.any fun t => t.minFn.isAuto
      let onlySpanOneTrack := itemAxisTracks.length == 1
      let spansAFlexibleTrack := axisTracks.any fun t => t.maxFn.isFr
      let useContentBasedMinimum := spansAutoMinTrack && (onlySpanOneTrack || !spansAFlexibleTrack)
      if useContentBasedMinimum then do
        let (mc, it) ← it.minContentContributionCached axis knownDimensions innerNodeSize
        if it.isCompressibleReplaced then
          let size := MaybeMath.of_add ((sget it.size axis).maybeResolve (some 0)) (sget adj axis)
          let maxSize := MaybeMath.of_add ((sget it.maxSize axis).maybeResolve (some 0)) (sget adj axis)
          pure (MaybeMath.fo_min (MaybeMath.fo_min mc size) maxSize, it)
        else pure (mc, it)
      else pure (0, it))
  let limit := it.spannedFixedTrackLimit axis axisTracks (sget innerNodeSize axis)
  pure (MaybeMath.fo_min size limit, it)

/-- `minimum_contribution_cached` -/
def minimumContributionCached (it : GItem α) (axis : Ax) (axisTracks : List (GridTrack α))
    (knownDimensions innerNodeSize : Size (Option α)) : GM α (α × GItem α) :=
  match sget it.minimumContributionCache axis with
  | some v => pure (v, it)
  | none => do
    let (v, it) ← it.minimumContribution axis axisTracks knownDimensions innerNodeSize
    pure (v, { it with minimumContributionCache := sset it.minimumContributionCache axis (some v) })

end GItem

/-! ### `IntrisicSizeMeasurer` (track_sizing.rs) -/

/-- the fields of `IntrisicSizeMeasurer` -/
structure Sizer (α : Type) where
  otherAxisTracks : List (GridTrack α)
  est : Estimate
  axis : Ax
  innerNodeSize : Size (Option α)

namespace Sizer

/-- `available_space(item)` -/
def availableSpace (s : Sizer α) (it : GItem α) : Size (Option α) × GItem α :=
  it.availableSpaceCached s.axis s.otherAxisTracks (sget s.innerNodeSize s.axis.other) s.est

/-- `margins_axis_sums_with_baseline_shims(item)` -/
def marginAxisSums (s : Sizer α) (it : GItem α) : Size α := it.marginsAxisSums s.innerNodeSize.width

/-- `min_content_contribution(item)` (margins included) -/
def minContentContribution (s : Sizer α) (it : GItem α) : GM α (α × GItem α) := do
  let (av, it) := s.availableSpace it
  let m := s.marginAxisSums it
  let (c, it) ← it.minContentContributionCached s.axis av s.innerNodeSize
  pure (c + sget m s.axis, it)

/-- `max_content_contribution(item)` (margins included) -/
def maxContentContribution (s : Sizer α) (it : GItem α) : GM α (α × GItem α) := do
  let (av, it) := s.availableSpace it
  let m := s.marginAxisSums it
  let (c, it) ← it.maxContentContributionCached s.axis av s.innerNodeSize
  pure (c + sget m s.axis, it)

/-- `minimum_contribution(item, axis_tracks)` (margins included) -/
def minimumContribution (s : Sizer α) (it : GItem α) (axisTracks : List (GridTrack α)) : GM α (α × GItem α) := do
  let (av, it) := s.availableSpace it
  let m := s.marginAxisSums it
  let (c, it) ← it.minimumContributionCached s.axis axisTracks av s.innerNodeSize
  pure (c + sget m s.axis, it)

end Sizer
end

end GridModel
