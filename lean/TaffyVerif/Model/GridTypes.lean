/-
  The grid-specific style *types* (no functions), placed below Model/Style.lean so that `Style α` can carry them:

    GridTracks.MinTrack / MaxTrack / TrackFn / Repetition / TrackDef     (style/grid.rs; functions: Model/GridTracksInit.lean)
    GridPlacement.Placement / AutoFlow                                   (style/grid.rs; functions: Model/GridPlacement.lean)
    GridExt α   the grid fields of `taffy::Style`: what `GridContainerStyle` reads of a container
                (`grid_template_rows/columns`, `grid_auto_rows/columns`, `grid_auto_flow`) and what `GridItemStyle` reads
                of a child (`grid_row`, `grid_column`); every field defaults to `Style::DEFAULT`'s value

  The declarations are moved here verbatim (same namespaces, same names), so nothing that mentions them changes.
  No Mathlib.
-/
import TaffyVerif.Model.Geometry

namespace GridTracks

/-- `MinTrackSizingFunction` (public constructors; `From<LengthPercentage>` for gutters) -/
inductive MinTrack (α : Type) where
  | length (v : α)
  | percent (v : α)
  | auto
  | minContent
  | maxContent
deriving Repr, BEq, DecidableEq, Inhabited

/-- `MaxTrackSizingFunction` -/
inductive MaxTrack (α : Type) where
  | length (v : α)
  | percent (v : α)
  | auto
  | minContent
  | maxContent
  | fitContentPx (v : α)
  | fitContentPercent (v : α)
  | fr (v : α)
deriving Repr, BEq, DecidableEq, Inhabited

/-- `NonRepeatedTrackSizingFunction = MinMax<MinTrackSizingFunction, MaxTrackSizingFunction>` -/
structure TrackFn (α : Type) where
  min : MinTrack α
  max : MaxTrack α
deriving Repr, BEq, DecidableEq, Inhabited

/-- `GridTrackRepetition` -/
inductive Repetition where
  | autoFill
  | autoFit
  | count (n : Nat)
deriving Repr, BEq, DecidableEq, Inhabited

/-- `TrackSizingFunction` -/
inductive TrackDef (α : Type) where
  | single (f : TrackFn α)
  | rep (r : Repetition) (fs : List (TrackFn α))
deriving Repr, BEq, DecidableEq, Inhabited

end GridTracks

namespace GridPlacement

/-- `GenericGridPlacement<_>`: `line` carries an i16 (CSS line number, or origin-zero line), `span` a u16 -/
inductive Placement where
  | auto
  | line (n : Int)
  | span (n : Int)
deriving Repr, BEq, DecidableEq, Inhabited

inductive AutoFlow where
  | row | column | rowDense | columnDense
deriving Repr, BEq, DecidableEq, Inhabited

end GridPlacement

/-- the grid fields of `taffy::Style` (defaults = `Style::DEFAULT`) -/
structure GridExt (α : Type) where
  templateRows : List (GridTracks.TrackDef α) := []
  templateColumns : List (GridTracks.TrackDef α) := []
  autoRows : List (GridTracks.TrackFn α) := []
  autoColumns : List (GridTracks.TrackFn α) := []
  autoFlow : GridPlacement.AutoFlow := .row
  row : Line GridPlacement.Placement := ⟨.auto, .auto⟩
  column : Line GridPlacement.Placement := ⟨.auto, .auto⟩
deriving Repr, BEq, DecidableEq, Inhabited
