/-
  Model of src/compute/flexbox.rs (CSS flexbox), the WHOLE algorithm, written as an interaction program (`ProgM`).

  Correspondence of names (Rust → Lean), all in namespace `FlexModel`:
    struct FlexItem / FlexLine / AlgoConstants        → `FlexItem` / `FlexLineS` / `AlgoConstants`
    compute_flexbox_layout                            → `computeFlexboxLayout` (`styledBasedKnownDimensions`)
    compute_preliminary                               → `computePreliminary`
    compute_constants                                 → `computeConstants`
    generate_anonymous_flex_items                     → `generateAnonymousFlexItems` / `generateItem`
    determine_available_space                         → `determineAvailableSpace`
    determine_flex_base_size                          → `determineFlexBaseSize` / `flexBaseSizeItem`
    collect_flex_lines                                → `collectFlexLines`
    determine_container_main_size                     → `determineContainerMainSize` (`longestLineLength`, `intrinsicItem`,
                                                         `intrinsicLines`)
    resolve_flexible_lengths                          → `resolveFlexibleLengthsLine` (through `FlexLine.resolveFlexibleLengths`,
                                                         the function C07's theorems are about, on the main-axis projection)
    determine_hypothetical_cross_size                 → `hypotheticalCrossItem` / `determineHypotheticalCrossSize`
    calculate_children_base_lines                     → `calculateChildrenBaseLines`
    calculate_cross_size                              → `calculateCrossSize`
    handle_align_content_stretch                      → `handleAlignContentStretch`
    determine_used_cross_size                         → `determineUsedCrossSize`
    distribute_remaining_free_space                   → `distributeLine` (through `FlexLine.distributeRemainingFreeSpace`)
    resolve_cross_axis_auto_margins                   → `resolveCrossAxisAutoMargins`
    align_flex_items_along_cross_axis                 → `alignFlexItemsAlongCrossAxis`
    determine_container_cross_size                    → `determineContainerCrossSize`
    align_flex_lines_per_align_content                → `alignFlexLinesPerAlignContent`
    calculate_flex_item / calculate_layout_line       → `calculateFlexItem` / `calculateLayoutLine`
    final_layout_pass                                 → `finalLayoutPass`
    perform_absolute_layout_on_absolute_children      → `absLoop` (loop body = the stages of `AbsPos.absFlex`, the function
                                                         C11's theorems are about)
    hidden loop                                       → `BlockModel.hiddenLoop` (the same text as in block.rs)
    sum_axis_gaps                                     → `FlexLine.sumAxisGaps`

  Children are addressed by their index in the container's child list; the children's styles are pure reads.  The order
  of `call`/`setLayout` effects is the order in which the Rust calls `measure_child_size` / `perform_child_layout` /
  `set_unrounded_layout`.  Arithmetic is in the order written in the Rust (bit-exact at Float32): `sum::<f32>()` folds
  from −0.0 (`FlexLine.sumF`), `fold(0.0, …)` folds from +0.0, `a += b + c` is `a + (b + c)`.

  `f32::INFINITY` as "no maximum" in `determine_container_main_size` is an `Option` (`none` = +∞); `max_by(total_cmp)` is
  `maxByTotalCmp` (last of equal maxima, −0.0 < +0.0).
-/
import TaffyVerif.Model.Block
import TaffyVerif.Model.FlexLine
import TaffyVerif.Model.AbsPos

namespace FlexModel
open FlexLine (sumF sumAxisGaps NumX)
open AbsPos (Dir.mainStart Dir.mainEnd Dir.crossStart Dir.crossEnd Dir.pMain Dir.pCross)

variable {α : Type} [Num α]

/-! ### small geometry helpers (geometry.rs) -/

def setMain {β : Type} (s : Size β) (d : FlexDirection) (v : β) : Size β :=
  if d.isRow then { s with width := v } else { s with height := v }
def setCross {β : Type} (s : Size β) (d : FlexDirection) (v : β) : Size β :=
  if d.isRow then { s with height := v } else { s with width := v }
/-- `Size::<Option<f32>>::from_cross` -/
def fromCross {β : Type} (d : FlexDirection) (v : Option β) : Size (Option β) := setCross Size.none d v
def setMainStart {β : Type} (r : Rect β) (d : FlexDirection) (v : β) : Rect β :=
  if d.isRow then { r with left := v } else { r with top := v }
def setMainEnd {β : Type} (r : Rect β) (d : FlexDirection) (v : β) : Rect β :=
  if d.isRow then { r with right := v } else { r with bottom := v }
def setCrossStart {β : Type} (r : Rect β) (d : FlexDirection) (v : β) : Rect β :=
  if d.isRow then { r with top := v } else { r with left := v }
def setCrossEnd {β : Type} (r : Rect β) (d : FlexDirection) (v : β) : Rect β :=
  if d.isRow then { r with bottom := v } else { r with right := v }

/-- `x == -0.0` bitwise (over ℚ: never) -/
def isNegZero (x : α) : Bool := Num.feq x 0 && Num.flt (1 / x) 0

/-- `a.total_cmp(&b) == Ordering::Greater` for non-NaN operands -/
def totalGt (a b : α) : Bool := Num.fgt a b || (Num.feq a b && isNegZero b && !isNegZero a)

/-- `iter.max_by(|a, b| a.total_cmp(b))` = `reduce(|x, y| if x > y { x } else { y })` -/
def maxByTotalCmp : List α → Option α
  | [] => none
  | x :: rest => some (rest.foldl (fun acc y => if totalGt acc y then acc else y) x)

/-! ### structures -/

/-- `struct FlexItem` -/
structure FlexItem (α : Type) where
  /-- `node`: index of the child in the container's child list (= `order`) -/
  nodeIdx : Nat
  order : Nat
  size : Size (Option α)
  minSize : Size (Option α)
  maxSize : Size (Option α)
  alignSelf : AlignItems
  overflow : Point Overflow
  scrollbarWidth : α
  flexShrink : α
  flexGrow : α
  resolvedMinimumMainSize : α
  inset : Rect (Option α)
  margin : Rect α
  marginIsAuto : Rect Bool
  padding : Rect α
  border : Rect α
  flexBasis : α
  innerFlexBasis : α
  violation : α
  frozen : Bool
  contentFlexFraction : α
  hypotheticalInnerSize : Size α
  hypotheticalOuterSize : Size α
  targetSize : Size α
  outerTargetSize : Size α
  baseline : α
  offsetMain : α
  offsetCross : α
deriving Repr, BEq, Inhabited

namespace FlexItem
def isScrollContainer (i : FlexItem α) : Bool := i.overflow.x.isScrollContainer || i.overflow.y.isScrollContainer
end FlexItem

/-- `struct FlexLine` -/
structure FlexLineS (α : Type) where
  items : List (FlexItem α)
  crossSize : α
  offsetCross : α
deriving Repr, BEq, Inhabited

/-- `struct AlgoConstants` -/
structure AlgoConstants (α : Type) where
  dir : FlexDirection
  isRow : Bool
  isColumn : Bool
  isWrap : Bool
  isWrapReverse : Bool
  minSize : Size (Option α)
  maxSize : Size (Option α)
  margin : Rect α
  border : Rect α
  contentBoxInset : Rect α
  scrollbarGutter : Point α
  gap : Size α
  alignItems : AlignItems
  alignContent : AlignContent
  justifyContent : Option AlignContent
  nodeOuterSize : Size (Option α)
  nodeInnerSize : Size (Option α)
  containerSize : Size α
  innerContainerSize : Size α
deriving Repr, BEq, Inhabited

/-! ### compute_flexbox_layout: styled_based_known_dimensions -/

def styledBasedKnownDimensions (style : Style α) (inputs : LayoutInput α) : Size (Option α) :=
  let parentSize := inputs.parentSize
  let padding := Resolve.rectLPOrZero style.padding parentSize.width
  let border := Resolve.rectLPOrZero style.border parentSize.width
  let paddingBorderSum := Size.add padding.sumAxes border.sumAxes
  let adj := BlockModel.boxSizingAdjustment style paddingBorderSum
  let minSize := BlockModel.resolveStyleSize style.minSize parentSize style.aspectRatio adj
  let maxSize := BlockModel.resolveStyleSize style.maxSize parentSize style.aspectRatio adj
  let clampedStyleSize : Size (Option α) :=
    if inputs.sizingMode == .inherentSize then
      (BlockModel.resolveStyleSize style.size parentSize style.aspectRatio adj).oo_clamp minSize maxSize
    else Size.none
  let mm : Option α → Option α → Option α := fun mn mx =>
    match mn, mx with
    | some mn, some mx => if Num.fle mx mn then some mn else none
    | _, _ => none
  let minMaxDefiniteSize : Size (Option α) := ⟨mm minSize.width maxSize.width, mm minSize.height maxSize.height⟩
  inputs.knownDimensions.orOpt ((minMaxDefiniteSize.orOpt clampedStyleSize).of_max paddingBorderSum)

/-! ### compute_constants -/

def computeConstants (style : Style α) (knownDimensions parentSize : Size (Option α)) : AlgoConstants α :=
  let dir := style.flexDirection
  let margin := Resolve.rectLPAOrZero style.margin parentSize.width
  let padding := Resolve.rectLPOrZero style.padding parentSize.width
  let border := Resolve.rectLPOrZero style.border parentSize.width
  let paddingBorderSum := Size.add padding.sumAxes border.sumAxes
  let adj := BlockModel.boxSizingAdjustment style paddingBorderSum
  let scrollbarGutter := AbsPos.scrollbarGutter style
  let pb := padding.add border
  let contentBoxInset : Rect α :=
    { pb with right := pb.right + scrollbarGutter.x, bottom := pb.bottom + scrollbarGutter.y }
  let nodeOuterSize := knownDimensions
  let nodeInnerSize := nodeOuterSize.of_sub contentBoxInset.sumAxes
  let gap := Resolve.sizeLPOrZero style.gap (nodeInnerSize.orOpt ⟨some 0, some 0⟩)
  { dir, isRow := dir.isRow, isColumn := dir.isColumn,
    isWrap := style.flexWrap == .wrap || style.flexWrap == .wrapReverse,
    isWrapReverse := style.flexWrap == .wrapReverse,
    minSize := BlockModel.resolveStyleSize style.minSize parentSize style.aspectRatio adj,
    maxSize := BlockModel.resolveStyleSize style.maxSize parentSize style.aspectRatio adj,
    margin, border, gap, contentBoxInset, scrollbarGutter,
    alignItems := style.alignItems.getD .stretch,
    alignContent := style.alignContent.getD .stretch,
    justifyContent := style.justifyContent,
    nodeOuterSize, nodeInnerSize, containerSize := Size.zero, innerContainerSize := Size.zero }

/-! ### generate_anonymous_flex_items -/

def generateItem (k : AlgoConstants α) (idx : Nat) (cs : Style α) : FlexItem α :=
  let ar := cs.aspectRatio
  let inner := k.nodeInnerSize
  let padding := Resolve.rectLPOrZero cs.padding inner.width
  let border := Resolve.rectLPOrZero cs.border inner.width
  let pbSum := (padding.add border).sumAxes
  let adj := BlockModel.boxSizingAdjustment cs pbSum
  { nodeIdx := idx, order := idx,
    size := BlockModel.resolveStyleSize cs.size inner ar adj,
    minSize := BlockModel.resolveStyleSize cs.minSize inner ar adj,
    maxSize := BlockModel.resolveStyleSize cs.maxSize inner ar adj,
    inset := ⟨cs.inset.left.maybeResolve inner.width, cs.inset.right.maybeResolve inner.width,
              cs.inset.top.maybeResolve inner.height, cs.inset.bottom.maybeResolve inner.height⟩,
    margin := Resolve.rectLPAOrZero cs.margin inner.width,
    marginIsAuto := ⟨cs.margin.left.isAuto, cs.margin.right.isAuto, cs.margin.top.isAuto, cs.margin.bottom.isAuto⟩,
    padding, border,
    alignSelf := cs.alignSelf.getD k.alignItems,
    overflow := cs.overflow, scrollbarWidth := cs.scrollbarWidth,
    flexGrow := cs.flexGrow, flexShrink := cs.flexShrink,
    flexBasis := 0, innerFlexBasis := 0, violation := 0, frozen := false,
    resolvedMinimumMainSize := 0,
    hypotheticalInnerSize := Size.zero, hypotheticalOuterSize := Size.zero,
    targetSize := Size.zero, outerTargetSize := Size.zero, contentFlexFraction := 0,
    baseline := 0, offsetMain := 0, offsetCross := 0 }

/-- `.enumerate().filter(position != Absolute).filter(box_generation_mode != None).map(..)` -/
def generateItemsFrom (k : AlgoConstants α) : List (Style α) → Nat → List (FlexItem α)
  | [], _ => []
  | cs :: rest, idx =>
    if cs.position == .absolute || cs.isHidden then generateItemsFrom k rest (idx + 1)
    else generateItem k idx cs :: generateItemsFrom k rest (idx + 1)

def generateAnonymousFlexItems (k : AlgoConstants α) (childStyles : List (Style α)) : List (FlexItem α) :=
  generateItemsFrom k childStyles 0

/-! ### determine_available_space -/

def determineAvailableSpace (knownDimensions : Size (Option α)) (outer : Size (AvailableSpace α))
    (k : AlgoConstants α) : Size (AvailableSpace α) :=
  let width : AvailableSpace α := match knownDimensions.width with
    | some w => .definite (w - k.contentBoxInset.horizontalAxisSum)
    | none => MaybeMath.af_sub (MaybeMath.af_sub outer.width k.margin.horizontalAxisSum) k.contentBoxInset.horizontalAxisSum
  let height : AvailableSpace α := match knownDimensions.height with
    | some h => .definite (h - k.contentBoxInset.verticalAxisSum)
    | none => MaybeMath.af_sub (MaybeMath.af_sub outer.height k.margin.verticalAxisSum) k.contentBoxInset.verticalAxisSum
  ⟨width, height⟩

/-! ### determine_flex_base_size -/

/-- `child.size.with_main(dir, None)` + stretch fill-in of the cross axis -/
def childKnownDimensions (dir : FlexDirection) (item : FlexItem α) (crossAvail : AvailableSpace α) : Size (Option α) :=
  let ckd := setMain item.size dir none
  if item.alignSelf == .stretch && (ckd.cross dir).isNone then
    setCross ckd dir (MaybeMath.of_sub crossAvail.intoOption (item.margin.crossAxisSum dir))
  else ckd

def flexBaseSizeItem (k : AlgoConstants α) (availableSpace : Size (AvailableSpace α)) (cs : Style α)
    (child : FlexItem α) : ProgM α (FlexItem α) := do
  let dir := k.dir
  -- Parent size for child sizing
  let crossAxisParentSize := k.nodeInnerSize.cross dir
  let childParentSize : Size (Option α) := fromCross dir crossAxisParentSize
  -- Available space for child sizing
  let crossAxisMarginSum := k.margin.crossAxisSum dir
  let childMinCross := MaybeMath.of_add (child.minSize.cross dir) crossAxisMarginSum
  let childMaxCross := MaybeMath.of_add (child.maxSize.cross dir) crossAxisMarginSum
  let crossAxisAvailableSpace : AvailableSpace α :=
    match availableSpace.cross dir with
    | .definite val => .definite (MaybeMath.fo_clamp (crossAxisParentSize.getD val) childMinCross childMaxCross)
    | .minContent => (match childMinCross with | some mn => .definite mn | none => .minContent)
    | .maxContent => (match childMaxCross with | some mx => .definite mx | none => .maxContent)
  let childKnown := childKnownDimensions dir child crossAxisAvailableSpace
  let containerWidth := k.nodeInnerSize.main dir
  let boxSizingAdjustment : α :=
    (if cs.boxSizing == .contentBox then
      let padding := Resolve.rectLPOrZero cs.padding containerWidth
      let border := Resolve.rectLPOrZero cs.border containerWidth
      (padding.add border).sumAxes
    else Size.zero).main dir
  let flexBasisStyle : Option α := MaybeMath.of_add (cs.flexBasis.maybeResolve containerWidth) boxSizingAdjustment
  let mainSize := child.size.main dir
  let flexBasis ← (match flexBasisStyle.or mainSize with
    | some fb => (pure fb : ProgM α α)
    | none =>
      let mainAv : AvailableSpace α :=
        match availableSpace.main dir with | .minContent => .minContent | _ => .maxContent
      let childAvailableSpace : Size (AvailableSpace α) :=
        setCross (setMain ⟨.maxContent, .maxContent⟩ dir mainAv) dir crossAxisAvailableSpace
      ProgM.measureChildSize child.nodeIdx childKnown childParentSize childAvailableSpace .contentSize dir.isRow
        ⟨false, false⟩)
  -- Floor flex-basis by the padding_border_sum
  let paddingBorderSum := child.padding.mainAxisSum dir + child.border.mainAxisSum dir
  let flexBasis := Num.fmax flexBasis paddingBorderSum
  let innerFlexBasis := flexBasis - child.padding.mainAxisSum dir - child.border.mainAxisSum dir
  let paddingBorderAxesSums : Size α := (child.padding.add child.border).sumAxes
  let autoMin : Size (Option α) :=
    ⟨child.overflow.x.maybeIntoAutomaticMinSize, child.overflow.y.maybeIntoAutomaticMinSize⟩
  let styleMinMainSize : Option α := (child.minSize.orOpt autoMin).main dir
  -- NB `unwrap_or({ … })`: the block (and its child query) is evaluated whether or not the style minimum exists
  let minContentMainSize ← ProgM.measureChildSize child.nodeIdx childKnown childParentSize
    (setCross ⟨.minContent, .minContent⟩ dir crossAxisAvailableSpace) .contentSize dir.isRow ⟨false, false⟩
  let clampedMinContentSize :=
    MaybeMath.fo_min (MaybeMath.fo_min minContentMainSize (child.size.main dir)) (child.maxSize.main dir)
  let contentMin := Num.fmax clampedMinContentSize (paddingBorderAxesSums.main dir)
  let resolvedMinimumMainSize := styleMinMainSize.getD contentMin
  let hypotheticalInnerMinMain := Num.fmax resolvedMinimumMainSize (paddingBorderAxesSums.main dir)
  let hypotheticalInnerSize :=
    MaybeMath.fo_clamp flexBasis (some hypotheticalInnerMinMain) (child.maxSize.main dir)
  let hypotheticalOuterSize := hypotheticalInnerSize + child.margin.mainAxisSum dir
  pure { child with
    flexBasis, innerFlexBasis, resolvedMinimumMainSize,
    hypotheticalInnerSize := setMain child.hypotheticalInnerSize dir hypotheticalInnerSize,
    hypotheticalOuterSize := setMain child.hypotheticalOuterSize dir hypotheticalOuterSize }

def determineFlexBaseSize (k : AlgoConstants α) (availableSpace : Size (AvailableSpace α)) (styleOf : Nat → Style α) :
    List (FlexItem α) → ProgM α (List (FlexItem α))
  | [] => pure []
  | child :: rest => do
    let child' ← flexBaseSizeItem k availableSpace (styleOf child.nodeIdx) child
    let rest' ← determineFlexBaseSize k availableSpace styleOf rest
    pure (child' :: rest')

/-! ### collect_flex_lines -/

def mkLine (items : List (FlexItem α)) : FlexLineS α := { items, crossSize := 0, offsetCross := 0 }

/-- the `find` of the `Definite` arm: index of the first item of the next line (or the length) -/
def breakIndex (dir : FlexDirection) (avail gap : α) : List (FlexItem α) → Nat → α → Nat
  | [], idx, _ => idx
  | c :: rest, idx, len =>
    let gapContribution : α := if idx == 0 then 0 else gap
    let len := len + (c.hypotheticalOuterSize.main dir + gapContribution)
    if Num.fgt len avail && idx != 0 then idx else breakIndex dir avail gap rest (idx + 1) len

def splitLines (dir : FlexDirection) (avail gap : α) : Nat → List (FlexItem α) → List (FlexLineS α)
  | 0, _ => []
  | _, [] => []
  | fuel + 1, items =>
    let index := breakIndex dir avail gap items 0 0
    mkLine (items.take index) :: splitLines dir avail gap fuel (items.drop index)

def collectFlexLines (k : AlgoConstants α) (availableSpace : Size (AvailableSpace α)) (items : List (FlexItem α)) :
    List (FlexLineS α) :=
  if !k.isWrap then [mkLine items]
  else
    let mainAv : AvailableSpace α := match k.maxSize.main k.dir with
      | some mx => .definite (MaybeMath.fo_max ((availableSpace.main k.dir).intoOption.getD mx) (k.minSize.main k.dir))
      | none => availableSpace.main k.dir
    match mainAv with
    | .maxContent => [mkLine items]
    | .minContent => items.map fun i => mkLine [i]
    | .definite av => splitLines k.dir av (k.gap.main k.dir) items.length items

/-! ### determine_container_main_size -/

/-- the `Definite` / `MinContent if is_wrap` arms: longest line by flex basis -/
def longestLineLength (k : AlgoConstants α) (lines : List (FlexLineS α)) : α :=
  let dir := k.dir
  (maxByTotalCmp (lines.map fun line =>
    let lineMainAxisGap := sumAxisGaps (k.gap.main dir) line.items.length
    let totalTargetSize := sumF (line.items.map fun child =>
      let paddingBorderSum := (child.padding.add child.border).mainAxisSum dir
      Num.fmax (MaybeMath.fo_max child.flexBasis (child.minSize.main dir) + child.margin.mainAxisSum dir)
        paddingBorderSum)
    totalTargetSize + lineMainAxisGap)).getD 0

/-- the body of the inner `for item in line.items.iter_mut()` of the intrinsic arm -/
def intrinsicItem (k : AlgoConstants α) (availableSpace : Size (AvailableSpace α)) (mainContentBoxInset : α)
    (item : FlexItem α) : ProgM α (FlexItem α) := do
  let dir := k.dir
  let styleMin := item.minSize.main dir
  let stylePreferred := item.size.main dir
  let styleMax := item.maxSize.main dir
  let clampingBasis : Option α := MaybeMath.oo_max (some item.flexBasis) stylePreferred
  let flexBasisMin : Option α := if Num.feq item.flexShrink 0 then clampingBasis else none
  let flexBasisMax : Option α := if Num.feq item.flexGrow 0 then clampingBasis else none
  let minMainSize : α :=
    Num.fmax (((MaybeMath.oo_max styleMin flexBasisMin).or flexBasisMin).getD item.resolvedMinimumMainSize)
      item.resolvedMinimumMainSize
  -- `none` = `f32::INFINITY`
  let maxMainSize : Option α := (MaybeMath.oo_min styleMax flexBasisMax).or flexBasisMax
  let marginSum := item.margin.mainAxisSum dir
  let maxLeMin : Bool := match maxMainSize with | some mx => Num.fle mx minMainSize | none => false
  let arm1 : Option α :=
    match stylePreferred, maxMainSize with
    | some pref, some mx =>
      if Num.fle mx minMainSize || Num.fle mx pref then some (Num.fmax (Num.fmin pref mx) minMainSize + marginSum)
      else none
    | _, _ => none
  let contentContribution ← (match arm1 with
    | some v => (pure v : ProgM α α)
    | none =>
      if maxLeMin then pure (minMainSize + marginSum)
      else if item.isScrollContainer then pure (item.flexBasis + marginSum)
      else do
        let crossAxisParentSize := k.nodeInnerSize.cross dir
        let crossAxisMarginSum := k.margin.crossAxisSum dir
        let childMinCross := MaybeMath.of_add (item.minSize.cross dir) crossAxisMarginSum
        let childMaxCross := MaybeMath.of_add (item.maxSize.cross dir) crossAxisMarginSum
        let crossAv0 : AvailableSpace α := match availableSpace.cross dir with
          | .definite val => .definite (crossAxisParentSize.getD val)
          | x => x
        let crossAxisAvailableSpace := MaybeMath.ao_clamp crossAv0 childMinCross childMaxCross
        let childAvailableSpace := setCross availableSpace dir crossAxisAvailableSpace
        let childKnown := childKnownDimensions dir item crossAxisAvailableSpace
        let m ← ProgM.measureChildSize item.nodeIdx childKnown k.nodeInnerSize childAvailableSpace .inherentSize
          dir.isRow ⟨false, false⟩
        let contentMainSize := m + marginSum
        if k.isRow then
          pure (Num.fmax (MaybeMath.fo_clamp contentMainSize styleMin styleMax) mainContentBoxInset)
        else
          pure (Num.fmax (MaybeMath.fo_clamp (Num.fmax contentMainSize item.flexBasis) styleMin styleMax)
            mainContentBoxInset))
  let diff := contentContribution - item.flexBasis
  let contentFlexFraction : α :=
    if Num.fgt diff 0 then diff / Num.fmax 1 item.flexGrow
    else if Num.flt diff 0 then
      -- the scaled flex shrink factor, the flex shrink factor (not the product) floored at 1
      let scaledShrinkFactor := Num.fmax 1 item.flexShrink * item.innerFlexBasis
      if Num.fgt scaledShrinkFactor 0 then diff / scaledShrinkFactor else 0
    else 0
  pure { item with contentFlexFraction }

def intrinsicItems (k : AlgoConstants α) (availableSpace : Size (AvailableSpace α)) (mainContentBoxInset : α) :
    List (FlexItem α) → ProgM α (List (FlexItem α))
  | [] => pure []
  | item :: rest => do
    let item' ← intrinsicItem k availableSpace mainContentBoxInset item
    let rest' ← intrinsicItems k availableSpace mainContentBoxInset rest
    pure (item' :: rest')

/-- the `.map(|item| …)` of `item_main_size_sum` -/
def intrinsicTarget (dir : FlexDirection) (item : FlexItem α) : FlexItem α × α :=
  let flexFraction := item.contentFlexFraction
  let flexContribution : α :=
    if Num.fgt item.contentFlexFraction 0 then Num.fmax 1 item.flexGrow * flexFraction
    else if Num.flt item.contentFlexFraction 0 then
      (Num.fmax 1 item.flexShrink * item.innerFlexBasis) * flexFraction
    else 0
  let size := item.flexBasis + flexContribution
  ({ item with outerTargetSize := setMain item.outerTargetSize dir size,
               targetSize := setMain item.targetSize dir size }, size)

/-- the outer `for line in lines.iter_mut()` of the intrinsic arm; threads `main_size` -/
def intrinsicLines (k : AlgoConstants α) (availableSpace : Size (AvailableSpace α)) (mainContentBoxInset : α) :
    List (FlexLineS α) → α → ProgM α (List (FlexLineS α) × α)
  | [], mainSize => pure ([], mainSize)
  | line :: rest, mainSize => do
    let items ← intrinsicItems k availableSpace mainContentBoxInset line.items
    let ts := items.map (intrinsicTarget k.dir)
    let itemMainSizeSum := sumF (ts.map (·.2))
    let gapSum := sumAxisGaps (k.gap.main k.dir) line.items.length
    let mainSize := Num.fmax mainSize (itemMainSizeSum + gapSum)
    let (rest', mainSize') ← intrinsicLines k availableSpace mainContentBoxInset rest mainSize
    pure ({ line with items := ts.map (·.1) } :: rest', mainSize')

def determineContainerMainSize (k : AlgoConstants α) (availableSpace : Size (AvailableSpace α))
    (lines : List (FlexLineS α)) : ProgM α (List (FlexLineS α) × AlgoConstants α) := do
  let dir := k.dir
  let mainContentBoxInset := k.contentBoxInset.mainAxisSum dir
  let (lines, outerMainSize) ← (match k.nodeOuterSize.main dir with
    | some v => (pure (lines, v) : ProgM α (List (FlexLineS α) × α))
    | none =>
      match availableSpace.main dir with
      | .definite mainAxisAvailableSpace =>
        let size := longestLineLength k lines + mainContentBoxInset
        pure (lines, if lines.length > 1 then Num.fmax size mainAxisAvailableSpace else size)
      | .minContent =>
        if k.isWrap then pure (lines, longestLineLength k lines + mainContentBoxInset)
        else do
          let (lines', mainSize) ← intrinsicLines k availableSpace mainContentBoxInset lines 0
          pure (lines', mainSize + mainContentBoxInset)
      | .maxContent => do
        let (lines', mainSize) ← intrinsicLines k availableSpace mainContentBoxInset lines 0
        pure (lines', mainSize + mainContentBoxInset))
  let outerMainSize :=
    Num.fmax (MaybeMath.fo_clamp outerMainSize (k.minSize.main dir) (k.maxSize.main dir))
      (mainContentBoxInset - Dir.pMain k.scrollbarGutter dir)
  let innerMainSize := Num.fmax (outerMainSize - mainContentBoxInset) 0
  pure (lines,
    { k with containerSize := setMain k.containerSize dir outerMainSize,
             innerContainerSize := setMain k.innerContainerSize dir innerMainSize,
             nodeInnerSize := setMain k.nodeInnerSize dir (some innerMainSize) })

/-! ### main-axis projection (`FlexLine.FlexItemM`) -/

def toM (dir : FlexDirection) (i : FlexItem α) : FlexLine.FlexItemM α :=
  { flexBasis := i.flexBasis, innerFlexBasis := i.innerFlexBasis,
    hypInner := i.hypotheticalInnerSize.main dir, hypOuter := i.hypotheticalOuterSize.main dir,
    resolvedMinMain := i.resolvedMinimumMainSize, maxMain := i.maxSize.main dir,
    flexGrow := i.flexGrow, flexShrink := i.flexShrink,
    marginStart := Dir.mainStart i.margin dir, marginEnd := Dir.mainEnd i.margin dir,
    marginStartAuto := Dir.mainStart i.marginIsAuto dir, marginEndAuto := Dir.mainEnd i.marginIsAuto dir,
    insetStart := Dir.mainStart i.inset dir, insetEnd := Dir.mainEnd i.inset dir,
    frozen := i.frozen, violation := i.violation,
    targetMain := i.targetSize.main dir, outerTargetMain := i.outerTargetSize.main dir, offsetMain := i.offsetMain }

/-- write the fields the main-axis functions assign back into the full item -/
def fromM (dir : FlexDirection) (i : FlexItem α) (m : FlexLine.FlexItemM α) : FlexItem α :=
  { i with frozen := m.frozen, violation := m.violation,
           targetSize := setMain i.targetSize dir m.targetMain,
           outerTargetSize := setMain i.outerTargetSize dir m.outerTargetMain,
           margin := setMainEnd (setMainStart i.margin dir m.marginStart) dir m.marginEnd,
           offsetMain := m.offsetMain }

def zipBack (dir : FlexDirection) : List (FlexItem α) → List (FlexLine.FlexItemM α) → List (FlexItem α)
  | i :: is, m :: ms => fromM dir i m :: zipBack dir is ms
  | is, _ => is

/-! ### resolve_flexible_lengths -/

/-- one line; the loop runs under fuel `n + 1` (`C07.freeze_loop_terminates`: `n` suffices); if the fuel ran out (the Rust
would not return) the items are left as they are -/
def resolveFlexibleLengthsLine [NumX α] (k : AlgoConstants α) (line : FlexLineS α) : FlexLineS α :=
  let ms := line.items.map (toM k.dir)
  match FlexLine.resolveFlexibleLengths ms (k.nodeInnerSize.main k.dir) (k.gap.main k.dir) (ms.length + 1) with
  | some ms' => { line with items := zipBack k.dir line.items ms' }
  | none => line

/-! ### determine_hypothetical_cross_size -/

def hypotheticalCrossItem (k : AlgoConstants α) (availableSpace : Size (AvailableSpace α)) (child : FlexItem α) :
    ProgM α (FlexItem α) := do
  let dir := k.dir
  let paddingBorderSum := (child.padding.add child.border).crossAxisSum dir
  let childKnownMain : AvailableSpace α := .definite (k.containerSize.main dir)
  let childCross : Option α :=
    MaybeMath.of_max (MaybeMath.oo_clamp (child.size.cross dir) (child.minSize.cross dir) (child.maxSize.cross dir))
      paddingBorderSum
  let childAvailableCross : AvailableSpace α :=
    MaybeMath.af_max (MaybeMath.ao_clamp (availableSpace.cross dir) (child.minSize.cross dir) (child.maxSize.cross dir))
      paddingBorderSum
  let childInnerCross ← (match childCross with
    | some v => (pure v : ProgM α α)
    | none => do
      let m ← ProgM.measureChildSize child.nodeIdx
        ⟨if k.isRow then some child.targetSize.width else childCross,
         if k.isRow then childCross else some child.targetSize.height⟩
        k.nodeInnerSize
        ⟨if k.isRow then childKnownMain else childAvailableCross,
         if k.isRow then childAvailableCross else childKnownMain⟩
        .contentSize (!dir.isRow) ⟨false, false⟩
      pure (Num.fmax (MaybeMath.fo_clamp m (child.minSize.cross dir) (child.maxSize.cross dir)) paddingBorderSum))
  let childOuterCross := childInnerCross + child.margin.crossAxisSum dir
  pure { child with
    hypotheticalInnerSize := setCross child.hypotheticalInnerSize dir childInnerCross,
    hypotheticalOuterSize := setCross child.hypotheticalOuterSize dir childOuterCross }

def hypotheticalCrossItems (k : AlgoConstants α) (availableSpace : Size (AvailableSpace α)) :
    List (FlexItem α) → ProgM α (List (FlexItem α))
  | [] => pure []
  | c :: rest => do
    let c' ← hypotheticalCrossItem k availableSpace c
    let rest' ← hypotheticalCrossItems k availableSpace rest
    pure (c' :: rest')

def determineHypotheticalCrossSize (k : AlgoConstants α) (availableSpace : Size (AvailableSpace α)) :
    List (FlexLineS α) → ProgM α (List (FlexLineS α))
  | [] => pure []
  | line :: rest => do
    let items ← hypotheticalCrossItems k availableSpace line.items
    let rest' ← determineHypotheticalCrossSize k availableSpace rest
    pure ({ line with items } :: rest')

/-! ### calculate_children_base_lines -/

def baselineItems (k : AlgoConstants α) (nodeSize : Size (Option α)) (availableSpace : Size (AvailableSpace α)) :
    List (FlexItem α) → ProgM α (List (FlexItem α))
  | [] => pure []
  | child :: rest =>
    if child.alignSelf != .baseline then do
      let rest' ← baselineItems k nodeSize availableSpace rest
      pure (child :: rest')
    else do
      let out ← ProgM.performChildLayout child.nodeIdx
        ⟨if k.isRow then some child.targetSize.width else some child.hypotheticalInnerSize.width,
         if k.isRow then some child.hypotheticalInnerSize.height else some child.targetSize.height⟩
        k.nodeInnerSize
        ⟨if k.isRow then .definite k.containerSize.width else availableSpace.width.maybeSet nodeSize.width,
         if k.isRow then availableSpace.height.maybeSet nodeSize.height else .definite k.containerSize.height⟩
        .contentSize ⟨false, false⟩
      let baseline := out.firstBaselines.y
      let height := out.size.height
      let child' := { child with baseline := baseline.getD height + child.margin.top }
      let rest' ← baselineItems k nodeSize availableSpace rest
      pure (child' :: rest')

def baselineLines (k : AlgoConstants α) (nodeSize : Size (Option α)) (availableSpace : Size (AvailableSpace α)) :
    List (FlexLineS α) → ProgM α (List (FlexLineS α))
  | [] => pure []
  | line :: rest => do
    let count := (line.items.filter fun c => c.alignSelf == .baseline).length
    let line' ← (if count ≤ 1 then (pure line : ProgM α (FlexLineS α)) else do
      let items ← baselineItems k nodeSize availableSpace line.items
      pure { line with items })
    let rest' ← baselineLines k nodeSize availableSpace rest
    pure (line' :: rest')

def calculateChildrenBaseLines (k : AlgoConstants α) (nodeSize : Size (Option α))
    (availableSpace : Size (AvailableSpace α)) (lines : List (FlexLineS α)) : ProgM α (List (FlexLineS α)) :=
  if !k.isRow then pure lines else baselineLines k nodeSize availableSpace lines

/-! ### calculate_cross_size -/

/-- `line.items.iter().map(|c| c.baseline).fold(0.0, |acc, x| acc.max(x))` -/
def maxBaseline (items : List (FlexItem α)) : α := items.foldl (fun acc c => Num.fmax acc c.baseline) 0

def mapHead {β : Type} (f : β → β) : List β → List β
  | [] => []
  | x :: xs => f x :: xs

def calculateCrossSize (k : AlgoConstants α) (nodeSize : Size (Option α)) (lines : List (FlexLineS α)) :
    List (FlexLineS α) :=
  let dir := k.dir
  if !k.isWrap && (nodeSize.cross dir).isSome then
    let crossAxisPaddingBorder := k.contentBoxInset.crossAxisSum dir
    let crossMinSize := k.minSize.cross dir
    let crossMaxSize := k.maxSize.cross dir
    let v : α :=
      (MaybeMath.of_max (MaybeMath.of_sub (MaybeMath.oo_clamp (nodeSize.cross dir) crossMinSize crossMaxSize)
        crossAxisPaddingBorder) 0).getD 0
    mapHead (fun l => { l with crossSize := v }) lines
  else
    let lines := lines.map fun line =>
      let mb := maxBaseline line.items
      let cs : α := line.items.foldl (fun acc child =>
        let x : α :=
          if child.alignSelf == .baseline && !Dir.crossStart child.marginIsAuto dir
              && !Dir.crossEnd child.marginIsAuto dir then
            mb - child.baseline + child.hypotheticalOuterSize.cross dir
          else child.hypotheticalOuterSize.cross dir
        Num.fmax acc x) 0
      { line with crossSize := cs }
    if !k.isWrap then
      let crossAxisPaddingBorder := k.contentBoxInset.crossAxisSum dir
      let crossMinSize := k.minSize.cross dir
      let crossMaxSize := k.maxSize.cross dir
      let mn := MaybeMath.of_sub crossMinSize crossAxisPaddingBorder
      let mx := MaybeMath.of_sub crossMaxSize crossAxisPaddingBorder
      mapHead (fun l => { l with crossSize := MaybeMath.fo_clamp l.crossSize mn mx }) lines
    else lines

/-! ### handle_align_content_stretch -/

def handleAlignContentStretch (k : AlgoConstants α) (nodeSize : Size (Option α)) (lines : List (FlexLineS α)) :
    List (FlexLineS α) :=
  let dir := k.dir
  if k.alignContent == .stretch then
    let crossAxisPaddingBorder := k.contentBoxInset.crossAxisSum dir
    let crossMinSize := k.minSize.cross dir
    let crossMaxSize := k.maxSize.cross dir
    let containerMinInnerCross : α :=
      (MaybeMath.of_max (MaybeMath.of_sub (MaybeMath.oo_clamp ((nodeSize.cross dir).or crossMinSize) crossMinSize
        crossMaxSize) crossAxisPaddingBorder) 0).getD 0
    let totalCrossAxisGap := sumAxisGaps (k.gap.cross dir) lines.length
    let linesTotalCross : α := sumF (lines.map (·.crossSize)) + totalCrossAxisGap
    if Num.flt linesTotalCross containerMinInnerCross then
      let remaining := containerMinInnerCross - linesTotalCross
      let addition := remaining / Num.ofNat lines.length
      lines.map fun l => { l with crossSize := l.crossSize + addition }
    else lines
  else lines

/-! ### determine_used_cross_size -/

def usedCrossItem (k : AlgoConstants α) (lineCrossSize : α) (cs : Style α) (child : FlexItem α) : FlexItem α :=
  let dir := k.dir
  let cross : α :=
    if child.alignSelf == .stretch && !Dir.crossStart child.marginIsAuto dir && !Dir.crossEnd child.marginIsAuto dir
        && (cs.size.cross dir).isAuto then
      let padding := Resolve.rectLPOrZeroSize cs.padding k.nodeInnerSize
      let border := Resolve.rectLPOrZeroSize cs.border k.nodeInnerSize
      let pbSum := (padding.add border).sumAxes
      let adj := BlockModel.boxSizingAdjustment cs pbSum
      let maxSizeIgnoringAspectRatio := (Resolve.sizeMaybe cs.maxSize k.nodeInnerSize).of_add adj
      MaybeMath.fo_clamp (lineCrossSize - child.margin.crossAxisSum dir) (child.minSize.cross dir)
        (maxSizeIgnoringAspectRatio.cross dir)
    else child.hypotheticalInnerSize.cross dir
  let targetSize := setCross child.targetSize dir cross
  { child with
    targetSize := targetSize,
    outerTargetSize := setCross child.outerTargetSize dir (targetSize.cross dir + child.margin.crossAxisSum dir) }

def determineUsedCrossSize (k : AlgoConstants α) (styleOf : Nat → Style α) (lines : List (FlexLineS α)) :
    List (FlexLineS α) :=
  lines.map fun line =>
    { line with items := line.items.map fun c => usedCrossItem k line.crossSize (styleOf c.nodeIdx) c }

/-! ### distribute_remaining_free_space -/

def distributeLine (k : AlgoConstants α) (line : FlexLineS α) : FlexLineS α :=
  let ms := line.items.map (toM k.dir)
  let ms' := FlexLine.distributeRemainingFreeSpace ms (k.innerContainerSize.main k.dir) (k.gap.main k.dir)
    k.justifyContent k.dir
  { line with items := zipBack k.dir line.items ms' }

/-! ### resolve_cross_axis_auto_margins + align_flex_items_along_cross_axis -/

def alignFlexItemsAlongCrossAxis (k : AlgoConstants α) (child : FlexItem α) (freeSpace maxBaseline : α) : α :=
  match child.alignSelf with
  | .start => 0
  | .flexStart => if k.isWrapReverse then freeSpace else 0
  | .«end» => freeSpace
  | .flexEnd => if k.isWrapReverse then 0 else freeSpace
  | .center => freeSpace / Num.two
  | .baseline =>
    if k.isRow then maxBaseline - child.baseline
    else if k.isWrapReverse then freeSpace else 0
  | .stretch => if k.isWrapReverse then freeSpace else 0

def crossAutoMarginItem (k : AlgoConstants α) (lineCrossSize maxBaseline : α) (child : FlexItem α) : FlexItem α :=
  let dir := k.dir
  let freeSpace := lineCrossSize - child.outerTargetSize.cross dir
  let autoStart := Dir.crossStart child.marginIsAuto dir
  let autoEnd := Dir.crossEnd child.marginIsAuto dir
  if autoStart && autoEnd then
    { child with margin := setCrossEnd (setCrossStart child.margin dir (freeSpace / Num.two)) dir (freeSpace / Num.two) }
  else if autoStart then { child with margin := setCrossStart child.margin dir freeSpace }
  else if autoEnd then { child with margin := setCrossEnd child.margin dir freeSpace }
  else { child with offsetCross := alignFlexItemsAlongCrossAxis k child freeSpace maxBaseline }

def resolveCrossAxisAutoMargins (k : AlgoConstants α) (lines : List (FlexLineS α)) : List (FlexLineS α) :=
  lines.map fun line =>
    let mb := maxBaseline line.items
    { line with items := line.items.map (crossAutoMarginItem k line.crossSize mb) }

/-! ### determine_container_cross_size -/

def determineContainerCrossSize (k : AlgoConstants α) (nodeSize : Size (Option α)) (lines : List (FlexLineS α)) :
    α × AlgoConstants α :=
  let dir := k.dir
  let totalCrossAxisGap := sumAxisGaps (k.gap.cross dir) lines.length
  let totalLineCrossSize : α := sumF (lines.map (·.crossSize))
  let paddingBorderSum := k.contentBoxInset.crossAxisSum dir
  let crossScrollbarGutter := Dir.pCross k.scrollbarGutter dir
  let minCrossSize := k.minSize.cross dir
  let maxCrossSize := k.maxSize.cross dir
  let outerContainerSize :=
    Num.fmax (MaybeMath.fo_clamp ((nodeSize.cross dir).getD (totalLineCrossSize + totalCrossAxisGap + paddingBorderSum))
      minCrossSize maxCrossSize) (paddingBorderSum - crossScrollbarGutter)
  let innerContainerSize := Num.fmax (outerContainerSize - paddingBorderSum) 0
  (totalLineCrossSize,
    { k with containerSize := setCross k.containerSize dir outerContainerSize,
             innerContainerSize := setCross k.innerContainerSize dir innerContainerSize })

/-! ### align_flex_lines_per_align_content -/

/-- `iter_mut().enumerate().for_each(align_line)`: the first visited line has `i == 0` -/
def alignForward (f : Bool → α) : List (FlexLineS α) → List (FlexLineS α)
  | [] => []
  | l :: rest => { l with offsetCross := f true } :: rest.map fun l => { l with offsetCross := f false }

def alignFlexLinesPerAlignContent (k : AlgoConstants α) (totalCrossSize : α) (lines : List (FlexLineS α)) :
    List (FlexLineS α) :=
  let numLines := lines.length
  let gap := k.gap.cross k.dir
  let totalCrossAxisGap := sumAxisGaps gap numLines
  let freeSpace := k.innerContainerSize.cross k.dir - totalCrossSize - totalCrossAxisGap
  let mode := FlexLine.applyAlignmentFallback freeSpace numLines k.alignContent false
  let f := fun isFirst => FlexLine.computeAlignmentOffset freeSpace numLines gap mode k.isWrapReverse isFirst
  if k.isWrapReverse then (alignForward f lines.reverse).reverse else alignForward f lines

/-! ### calculate_flex_item / calculate_layout_line / final_layout_pass -/

/-- returns the updated item (its `baseline`), the new `total_offset_main` and the new `total_content_size` -/
def calculateFlexItem (k : AlgoConstants α) (item : FlexItem α) (totalOffsetMain totalOffsetCross lineOffsetCross : α)
    (totalContentSize : Size α) : ProgM α (FlexItem α × α × Size α) := do
  let direction := k.dir
  let out ← ProgM.performChildLayout item.nodeIdx ⟨some item.targetSize.width, some item.targetSize.height⟩
    k.nodeInnerSize ⟨.definite k.containerSize.width, .definite k.containerSize.height⟩ .contentSize ⟨false, false⟩
  let size := out.size
  let contentSize := out.contentSize
  let offsetMain := totalOffsetMain + item.offsetMain + Dir.mainStart item.margin direction
    + (((Dir.mainStart item.inset direction).or ((Dir.mainEnd item.inset direction).map fun pos => -pos)).getD 0)
  let offsetCross := totalOffsetCross + item.offsetCross + lineOffsetCross + Dir.crossStart item.margin direction
    + (((Dir.crossStart item.inset direction).or ((Dir.crossEnd item.inset direction).map fun pos => -pos)).getD 0)
  let innerBaseline := out.firstBaselines.y.getD size.height
  let baseline : α :=
    if direction.isRow then (totalOffsetCross + item.offsetCross + Dir.crossStart item.margin direction) + innerBaseline
    else (totalOffsetMain + item.offsetMain + Dir.mainStart item.margin direction) + innerBaseline
  let location : Point α := if direction.isRow then ⟨offsetMain, offsetCross⟩ else ⟨offsetCross, offsetMain⟩
  let scrollbarSize : Size α :=
    ⟨if item.overflow.y == .scroll then item.scrollbarWidth else 0,
     if item.overflow.x == .scroll then item.scrollbarWidth else 0⟩
  ProgM.setUnroundedLayout item.nodeIdx
    { order := item.order, size, contentSize, scrollbarSize, location, padding := item.padding,
      border := item.border, margin := item.margin }
  let totalOffsetMain := totalOffsetMain + (item.offsetMain + item.margin.mainAxisSum direction + size.main direction)
  let totalContentSize :=
    totalContentSize.f32Max (BlockModel.contentSizeContribution location size contentSize item.overflow)
  pure ({ item with baseline }, totalOffsetMain, totalContentSize)

/-- the `for item in …` of `calculate_layout_line`, over the items in visiting order -/
def layoutItems (k : AlgoConstants α) (totalOffsetCross lineOffsetCross : α) :
    List (FlexItem α) → α → Size α → ProgM α (List (FlexItem α) × Size α)
  | [], _, cs => pure ([], cs)
  | item :: rest, totalOffsetMain, cs => do
    let (item', tom, cs') ← calculateFlexItem k item totalOffsetMain totalOffsetCross lineOffsetCross cs
    let (rest', cs'') ← layoutItems k totalOffsetCross lineOffsetCross rest tom cs'
    pure (item' :: rest', cs'')

/-- returns the updated line, the new `total_offset_cross` and the new content size -/
def calculateLayoutLine (k : AlgoConstants α) (line : FlexLineS α) (totalOffsetCross : α) (contentSize : Size α) :
    ProgM α (FlexLineS α × α × Size α) := do
  let direction := k.dir
  let totalOffsetMain := Dir.mainStart k.contentBoxInset direction
  let lineOffsetCross := line.offsetCross
  let (items, cs) ← (if direction.isReverse then do
      let (its, cs) ← layoutItems k totalOffsetCross lineOffsetCross line.items.reverse totalOffsetMain contentSize
      pure (its.reverse, cs)
    else layoutItems k totalOffsetCross lineOffsetCross line.items totalOffsetMain contentSize)
  pure ({ line with items }, totalOffsetCross + (lineOffsetCross + line.crossSize), cs)

def layoutLines (k : AlgoConstants α) : List (FlexLineS α) → α → Size α → ProgM α (List (FlexLineS α) × Size α)
  | [], _, cs => pure ([], cs)
  | line :: rest, toc, cs => do
    let (line', toc', cs') ← calculateLayoutLine k line toc cs
    let (rest', cs'') ← layoutLines k rest toc' cs'
    pure (line' :: rest', cs'')

def finalLayoutPass (k : AlgoConstants α) (lines : List (FlexLineS α)) : ProgM α (List (FlexLineS α) × Size α) := do
  let totalOffsetCross := Dir.crossStart k.contentBoxInset k.dir
  let (lines, cs) ← (if k.isWrapReverse then do
      let (ls, cs) ← layoutLines k lines.reverse totalOffsetCross Size.zero
      pure (ls.reverse, cs)
    else layoutLines k lines totalOffsetCross Size.zero)
  let cs : Size α :=
    ⟨cs.width + (k.contentBoxInset.right - k.border.right - k.scrollbarGutter.x),
     cs.height + (k.contentBoxInset.bottom - k.border.bottom - k.scrollbarGutter.y)⟩
  pure (lines, cs)

/-! ### perform_absolute_layout_on_absolute_children -/

def absArgs (k : AlgoConstants α) (order : Nat) : AbsPos.FlexArgs α :=
  { containerSize := k.containerSize, border := k.border, scrollbarGutter := k.scrollbarGutter,
    contentBoxInset := k.contentBoxInset, nodeInnerSize := k.nodeInnerSize, dir := k.dir,
    isWrapReverse := k.isWrapReverse, justifyContent := k.justifyContent, alignItems := k.alignItems, order }

/-- the loop body for one absolutely positioned child (the stages of `AbsPos.absFlex`, the child answer coming from the
tree) -/
def absItem (k : AlgoConstants α) (order : Nat) (cs : Style α) (acc : Size α) : ProgM α (Size α) := do
  let a := absArgs k order
  let r := AbsPos.flexResolve a cs
  let kd := AbsPos.flexKnown a r cs.aspectRatio
  let out ← ProgM.computeChildLayout order (AbsPos.flexChildInput a r kd)
  let finalSize := AbsPos.flexFinalSize r kd out.size
  let rm := AbsPos.flexResolvedMargin a r finalSize
  let location := AbsPos.flexLocation a r finalSize rm
  ProgM.setUnroundedLayout order
    { order, size := finalSize, contentSize := out.contentSize, scrollbarSize := AbsPos.scrollbarSize cs,
      location, padding := r.padding, border := r.border, margin := rm }
  let w : α := match cs.overflow.x with
    | .visible => Num.fmax finalSize.width out.contentSize.width
    | _ => finalSize.width
  let h : α := match cs.overflow.y with
    | .visible => Num.fmax finalSize.height out.contentSize.height
    | _ => finalSize.height
  if Num.fgt w 0 && Num.fgt h 0 then pure (acc.f32Max ⟨location.x + w, location.y + h⟩) else pure acc

def absLoop (k : AlgoConstants α) : List (Style α) → Nat → Size α → ProgM α (Size α)
  | [], _, acc => pure acc
  | cs :: rest, order, acc =>
    if cs.isHidden || cs.position != .absolute then absLoop k rest (order + 1) acc
    else do
      let acc' ← absItem k order cs acc
      absLoop k rest (order + 1) acc'

/-! ### compute_preliminary -/

/-- 8.5 Flex Container Baselines -/
def firstVerticalBaseline (k : AlgoConstants α) (lines : List (FlexLineS α)) : Option α :=
  match lines with
  | [] => none
  | line :: _ =>
    ((line.items.find? fun item => k.isColumn || item.alignSelf == .baseline).or line.items.head?).map fun child =>
      let offsetVertical := if k.isRow then child.offsetCross else child.offsetMain
      offsetVertical + child.baseline

variable [NumX α]

def computePreliminary (style : Style α) (childStyles : List (Style α)) (inputs : LayoutInput α) :
    ProgM α (LayoutOutput α) := do
  let knownDimensions := inputs.knownDimensions
  let parentSize := inputs.parentSize
  let runMode := inputs.runMode
  let styleOf : Nat → Style α := fun i => (childStyles[i]?).getD Style.default
  let k := computeConstants style knownDimensions parentSize
  -- 1. Generate anonymous flex items
  let flexItems := generateAnonymousFlexItems k childStyles
  -- 2. Determine the available main and cross space for the flex items
  let availableSpace := determineAvailableSpace knownDimensions inputs.availableSpace k
  -- 3. Determine the flex base size and hypothetical main size of each item
  let flexItems ← determineFlexBaseSize k availableSpace styleOf flexItems
  -- 5. Collect flex items into flex lines
  let lines := collectFlexLines k availableSpace flexItems
  -- If container size is undefined, determine the container's main size and then re-resolve gaps
  let (lines, k) ← (match k.nodeInnerSize.main k.dir with
    | some innerMainSize =>
      let outerMainSize := innerMainSize + k.contentBoxInset.mainAxisSum k.dir
      (pure (lines,
        { k with innerContainerSize := setMain k.innerContainerSize k.dir innerMainSize,
                 containerSize := setMain k.containerSize k.dir outerMainSize }) :
        ProgM α (List (FlexLineS α) × AlgoConstants α))
    | none => do
      let (lines, k) ← determineContainerMainSize k availableSpace lines
      let k := { k with nodeInnerSize := setMain k.nodeInnerSize k.dir (some (k.innerContainerSize.main k.dir)),
                        nodeOuterSize := setMain k.nodeOuterSize k.dir (some (k.containerSize.main k.dir)) }
      let innerContainerSize := k.innerContainerSize.main k.dir
      let newGap := (style.gap.main k.dir).resolveOrZero (some innerContainerSize)
      pure (lines, { k with gap := setMain k.gap k.dir newGap }))
  -- 6. Resolve the flexible lengths of all the flex items to find their used main size
  let lines := lines.map (resolveFlexibleLengthsLine k)
  -- 7. Determine the hypothetical cross size of each item
  let lines ← determineHypotheticalCrossSize k availableSpace lines
  let lines ← calculateChildrenBaseLines k knownDimensions availableSpace lines
  -- 8. Calculate the cross size of each flex line
  let lines := calculateCrossSize k knownDimensions lines
  -- 9. Handle 'align-content: stretch'
  let lines := handleAlignContentStretch k knownDimensions lines
  -- 11. Determine the used cross size of each flex item
  let lines := determineUsedCrossSize k styleOf lines
  -- 12. Distribute any remaining free space
  let lines := lines.map (distributeLine k)
  -- 13. Resolve cross-axis auto margins (also includes 14)
  let lines := resolveCrossAxisAutoMargins k lines
  -- 15. Determine the flex container's used cross size
  let (totalLineCrossSize, k) := determineContainerCrossSize k knownDimensions lines
  if runMode == .computeSize then pure (LayoutOutput.fromOuterSize k.containerSize) else
  -- 16. Align all flex lines per align-content
  let lines := alignFlexLinesPerAlignContent k totalLineCrossSize lines
  -- final layout pass
  let (lines, inflowContentSize) ← finalLayoutPass k lines
  -- absolutely positioned children
  let absoluteContentSize ← absLoop k childStyles 0 Size.zero
  -- hidden children
  BlockModel.hiddenLoop childStyles 0
  pure (LayoutOutput.fromSizesAndBaselines k.containerSize (inflowContentSize.f32Max absoluteContentSize)
    ⟨none, firstVerticalBaseline k lines⟩)

/-! ### compute_flexbox_layout -/

def computeFlexboxLayout (style : Style α) (childStyles : List (Style α)) (inputs : LayoutInput α) :
    ProgM α (LayoutOutput α) :=
  let kd := styledBasedKnownDimensions style inputs
  match inputs.runMode, kd.width, kd.height with
  | .computeSize, some w, some h => pure (LayoutOutput.fromOuterSize ⟨w, h⟩)
  | _, _, _ => computePreliminary style childStyles { inputs with knownDimensions := kd }

end FlexModel

/-- the same definitions elaborate at ℚ, the instance theorems are stated at -/
example : ProgM Rat (LayoutOutput Rat) := FlexModel.computeFlexboxLayout (α := Rat) Style.default [] default
