/-
  Grid-specific style: the shared `Style α` (Model/Style.lean) has no grid fields.

    GridStyle α       = what `GridContainerStyle` reads of a container: the shared style + the two templates, the two
                        auto-track lists and `grid_auto_flow`
    GridChildStyle α  = what `GridItemStyle` reads of a child: the shared style + `grid_row` / `grid_column`

  The track types are those of Model/GridTracksInit.lean, the placements those of Model/GridPlacement.lean.
  With the generalisation of /tmp/w_gridm/eval_generalisation.patch (`Style.grid : GridExt α`) both are views of a
  `Style α`: see Model/GridEval.lean.  This file does not depend on that patch.
  No Mathlib.
-/
import TaffyVerif.Model.Style
import TaffyVerif.Model.GridPlacement
import TaffyVerif.Model.GridTracksInit

structure GridStyle (α : Type) where
  base : Style α
  gridTemplateRows : List (GridTracks.TrackDef α)
  gridTemplateColumns : List (GridTracks.TrackDef α)
  gridAutoRows : List (GridTracks.TrackFn α)
  gridAutoColumns : List (GridTracks.TrackFn α)
  gridAutoFlow : GridPlacement.AutoFlow
deriving Repr, BEq, Inhabited

structure GridChildStyle (α : Type) where
  base : Style α
  gridRow : Line GridPlacement.Placement
  gridColumn : Line GridPlacement.Placement
deriving Repr, BEq, Inhabited
