/-
  Model of the structural part of src/tree/taffy_tree.rs: `TaffyTree`'s three slot maps (`nodes`, `children`,
  `parents`) plus the `node_context_data` secondary map, and every structural method exactly as written —
  including what the code does *not* do:
    * `add_child` / `insert_child_at_index` / `replace_child_at_index` / `new_with_children` do not detach the child
      from a previous parent;
    * `set_children` detaches the old children, then moves each new child out of its previous parent
      (`remove_child(..).unwrap()`), then overwrites the list;
    * `remove` uses `retain` on the parent's list, marks the former parent dirty (the `Index` panic site of `mark_dirty`),
      orphans the children and leaves `node_context_data` alone;
    * `clear` leaves `node_context_data` alone.
  Every panic site (slot-map `Index`/`IndexMut` of a dead key, `unwrap`, `Vec::drain` range check) is an explicit
  `panic` outcome; after a `panic` the returned state is the torn state at the panic site.
  `TaffyError::ChildIndexOutOfBounds` is an explicit `err` outcome.

  Tie: every method below is proved equal, on every state and argument, to the statement-by-statement translation of its Rust
  body that `tvextract` regenerates on every run (`Generated/TreeOps.lean`, `Props/TieTree.lean`), besides the differential run (C14).

  Scope notes.
  * `NodeData` is reduced to `has_context`; style, layouts and the cache are not structural. `mark_dirty(n)` is modelled
    as its panic site `nodes[n]` only: in a tree on which no layout was ever computed every cache is empty, so
    `Cache::clear` answers `AlreadyEmpty` and the recursion to the ancestors never starts (dirtiness is C15's subject).
  * `NodeId -> DefaultKey` is `KeyData::from_ffi`, which forces the version odd. Every `NodeId` the tree hands out has
    an odd version, so the conversion is the identity on them; the driver applies `| 1` when parsing an id.
  * Context values are natural numbers (the harness instantiates `TaffyTree<u32>`).
  No Mathlib.
-/
import TaffyVerif.Model.SlotMap

namespace TreeModel
open SlotMapModel

abbrev Id := Key

structure NodeData where
  hasContext : Bool
deriving Repr, DecidableEq

structure Tree where
  nodes : SlotMap NodeData
  children : SlotMap (List Id)
  parents : SlotMap (Option Id)
  ctx : SecMap Nat

def Tree.new : Tree := { nodes := SlotMap.new, children := SlotMap.new, parents := SlotMap.new, ctx := SecMap.new }

inductive Err where
  | childIndexOutOfBounds (parent : Id) (childIndex childCount : Nat)
deriving Repr, DecidableEq

inductive Val where
  | unit
  | id (n : Id)
  | ids (l : List Id)
  | optId (o : Option Id)
  | nat (n : Nat)
  | optNat (o : Option Nat)
deriving Repr, DecidableEq

inductive Out where
  | ok (v : Val)
  | err (e : Err)
  | panic
deriving Repr, DecidableEq

inductive Op where
  | newLeaf
  | newLeafWithContext (x : Nat)
  | newWithChildren (cs : List Id)
  | clear
  | remove (n : Id)
  | setNodeContext (n : Id) (x : Option Nat)
  | getNodeContext (n : Id)
  | addChild (p c : Id)
  | insertChildAtIndex (p : Id) (i : Nat) (c : Id)
  | setChildren (p : Id) (cs : List Id)
  | removeChild (p c : Id)
  | removeChildAtIndex (p : Id) (i : Nat)
  | removeChildrenRange (p : Id) (a b : Nat)
  | replaceChildAtIndex (p : Id) (i : Nat) (c : Id)
  | childAtIndex (p : Id) (i : Nat)
  | totalNodeCount
  | childCount (p : Id)
  | children (p : Id)
  | parent (n : Id)
deriving Repr, DecidableEq

/-- `mark_dirty(node)`: `nodes[node_key].mark_dirty()`; `false` = the `Index` panic -/
def markDirty (t : Tree) (n : Id) : Bool := (t.nodes.get n).isSome

/-- `new_leaf` -/
def newLeaf (t : Tree) : Tree × Out :=
  match t.nodes.insert ⟨false⟩ with
  | none => (t, .panic)
  | some (nodes, id) =>
    let t := { t with nodes }
    match t.children.insert [] with
    | none => (t, .panic)
    | some (children, _) =>
      let t := { t with children }
      match t.parents.insert none with
      | none => (t, .panic)
      | some (parents, _) => ({ t with parents }, .ok (.id id))

/-- `new_leaf_with_context` -/
def newLeafWithContext (t : Tree) (x : Nat) : Tree × Out :=
  match t.nodes.insert ⟨true⟩ with
  | none => (t, .panic)
  | some (nodes, id) =>
    let t := { t with nodes, ctx := t.ctx.insert id x }
    match t.children.insert [] with
    | none => (t, .panic)
    | some (children, _) =>
      let t := { t with children }
      match t.parents.insert none with
      | none => (t, .panic)
      | some (parents, _) => ({ t with parents }, .ok (.id id))

/-- `for child in cs { self.parents[child] = v }`; `none` = `IndexMut` panic (with the torn map) -/
def setParents (parents : SlotMap (Option Id)) (v : Option Id) : List Id → SlotMap (Option Id) × Bool
  | [] => (parents, true)
  | c :: rest =>
    match parents.get c with
    | none => (parents, false)
    | some _ => setParents (parents.set c v) v rest

/-- `new_with_children` -/
def newWithChildren (t : Tree) (cs : List Id) : Tree × Out :=
  match t.nodes.insert ⟨false⟩ with
  | none => (t, .panic)
  | some (nodes, id) =>
    let t := { t with nodes }
    match setParents t.parents (some id) cs with
    | (parents, false) => ({ t with parents }, .panic)
    | (parents, true) =>
      let t := { t with parents }
      match t.children.insert cs with
      | none => (t, .panic)
      | some (children, _) =>
        let t := { t with children }
        match t.parents.insert none with
        | none => (t, .panic)
        | some (parents, _) => ({ t with parents }, .ok (.id id))

/-- `clear` -/
def clear (t : Tree) : Tree × Out :=
  ({ t with nodes := t.nodes.clear, children := t.children.clear, parents := t.parents.clear }, .ok .unit)

/-- first block of `remove`:
    `if let Some(parent) = self.parents[key] { if let Some(children) = self.children.get_mut(parent) { children.retain(|f| *f != node) } }` -/
def retainInParent (t : Tree) (par : Option Id) (node : Id) : Tree :=
  match par with
  | some parent =>
    match t.children.get parent with
    | some l => { t with children := t.children.set parent (l.filter (fun f => f ≠ node)) }
    | none => t
  | none => t

/-- `self.mark_dirty(parent)?` as the last statement of `if let Some(parent) = self.parents[key] { … }` in `remove`
    (`false` = the `Index` panic of `mark_dirty`; no call when the node has no parent) -/
def markDirtyOpt (t : Tree) : Option Id → Bool
  | some parent => markDirty t parent
  | none => true

/-- `remove` -/
def remove (t : Tree) (node : Id) : Tree × Out :=
  match t.parents.get node with
  | none => (t, .panic)
  | some par =>
    let t := retainInParent t par node
    if markDirtyOpt t par then
      -- if let Some(children) = self.children.get(key) { for child in children { self.parents[child] = None } }
      let r : Tree × Bool :=
        match t.children.get node with
        | some l =>
          match setParents t.parents none l with
          | (parents, b) => ({ t with parents }, b)
        | none => (t, true)
      match r with
      | (t, false) => (t, .panic)
      | (t, true) =>
        ({ t with children := (t.children.remove node).1, parents := (t.parents.remove node).1,
                  nodes := (t.nodes.remove node).1 }, .ok (.id node))
    else (t, .panic)

/-- `set_node_context` -/
def setNodeContext (t : Tree) (node : Id) (x : Option Nat) : Tree × Out :=
  match t.nodes.get node with
  | none => (t, .panic)
  | some _ =>
    let t :=
      match x with
      | some m => { t with nodes := t.nodes.set node ⟨true⟩, ctx := t.ctx.insert node m }
      | none => { t with nodes := t.nodes.set node ⟨false⟩, ctx := t.ctx.remove node }
    if markDirty t node then (t, .ok .unit) else (t, .panic)

/-- `get_node_context` (never panics: `SecondaryMap::get`) -/
def getNodeContext (t : Tree) (node : Id) : Tree × Out := (t, .ok (.optNat (t.ctx.get node)))

/-- `add_child` -/
def addChild (t : Tree) (parent child : Id) : Tree × Out :=
  match t.parents.get child with
  | none => (t, .panic)
  | some _ =>
    let t := { t with parents := t.parents.set child (some parent) }
    match t.children.get parent with
    | none => (t, .panic)
    | some l =>
      let t := { t with children := t.children.set parent (l ++ [child]) }
      if markDirty t parent then (t, .ok .unit) else (t, .panic)

/-- `insert_child_at_index` -/
def insertChildAtIndex (t : Tree) (parent : Id) (childIndex : Nat) (child : Id) : Tree × Out :=
  match t.children.get parent with
  | none => (t, .panic)
  | some l =>
    let childCount := l.length
    if childIndex > childCount then (t, .err (.childIndexOutOfBounds parent childIndex childCount))
    else
      match t.parents.get child with
      | none => (t, .panic)
      | some _ =>
        let t := { t with parents := t.parents.set child (some parent) }
        -- `Vec::insert(child_index, child)` (in range by the test above)
        let t := { t with children := t.children.set parent (l.take childIndex ++ child :: l.drop childIndex) }
        if markDirty t parent then (t, .ok .unit) else (t, .panic)

/-- `remove_child_at_index` -/
def removeChildAtIndex (t : Tree) (parent : Id) (childIndex : Nat) : Tree × Out :=
  match t.children.get parent with
  | none => (t, .panic)
  | some l =>
    let childCount := l.length
    if childIndex ≥ childCount then (t, .err (.childIndexOutOfBounds parent childIndex childCount))
    else
      match l[childIndex]? with
      | none => (t, .panic) -- not reachable: the index was just checked (`Vec::remove`)
      | some child =>
        let t := { t with children := t.children.set parent (l.take childIndex ++ l.drop (childIndex + 1)) }
        match t.parents.get child with
        | none => (t, .panic)
        | some _ =>
          let t := { t with parents := t.parents.set child none }
          if markDirty t parent then (t, .ok (.id child)) else (t, .panic)

/-- `remove_child`: `position(..).unwrap()` then `remove_child_at_index` -/
def removeChild (t : Tree) (parent child : Id) : Tree × Out :=
  match t.children.get parent with
  | none => (t, .panic)
  | some l =>
    match l.findIdx? (fun n => n = child) with
    | none => (t, .panic)
    | some index => removeChildAtIndex t parent index

/-- the second loop of `set_children`: `for &child in children { if let Some(prev) = parents[child] {
    remove_child(prev, child).unwrap() }; parents[child] = Some(parent) }` -/
def reparentLoop (t : Tree) (parent : Id) : List Id → Tree × Bool
  | [] => (t, true)
  | child :: rest =>
    match t.parents.get child with
    | none => (t, false)
    | some par =>
      let r : Tree × Bool :=
        match par with
        | some previousParent =>
          match removeChild t previousParent child with
          | (t, .ok _) => (t, true)
          | (t, _) => (t, false)
        | none => (t, true)
      match r with
      | (t, false) => (t, false)
      | (t, true) =>
        match t.parents.get child with
        | none => (t, false)
        | some _ => reparentLoop { t with parents := t.parents.set child (some parent) } parent rest

/-- `set_children` -/
def setChildren (t : Tree) (parent : Id) (cs : List Id) : Tree × Out :=
  match t.children.get parent with
  | none => (t, .panic)
  | some old =>
    match setParents t.parents none old with
    | (parents, false) => ({ t with parents }, .panic)
    | (parents, true) =>
      let t := { t with parents }
      match reparentLoop t parent cs with
      | (t, false) => (t, .panic)
      | (t, true) =>
        match t.children.get parent with
        | none => (t, .panic)
        | some _ =>
          let t := { t with children := t.children.set parent cs }
          if markDirty t parent then (t, .ok .unit) else (t, .panic)

/-- `remove_children_range(parent, a..b)`; `Vec::drain` panics unless `a ≤ b ≤ len` -/
def removeChildrenRange (t : Tree) (parent : Id) (a b : Nat) : Tree × Out :=
  match t.children.get parent with
  | none => (t, .panic)
  | some l =>
    if a > b ∨ b > l.length then (t, .panic)
    else
      match setParents t.parents none ((l.take b).drop a) with
      | (parents, false) =>
        -- the `Drain` guard still removes the range while unwinding
        ({ t with parents, children := t.children.set parent (l.take a ++ l.drop b) }, .panic)
      | (parents, true) =>
        let t := { t with parents, children := t.children.set parent (l.take a ++ l.drop b) }
        if markDirty t parent then (t, .ok .unit) else (t, .panic)

/-- `replace_child_at_index` -/
def replaceChildAtIndex (t : Tree) (parent : Id) (childIndex : Nat) (newChild : Id) : Tree × Out :=
  match t.children.get parent with
  | none => (t, .panic)
  | some l =>
    let childCount := l.length
    if childIndex ≥ childCount then (t, .err (.childIndexOutOfBounds parent childIndex childCount))
    else
      match t.parents.get newChild with
      | none => (t, .panic)
      | some _ =>
        let t := { t with parents := t.parents.set newChild (some parent) }
        match l[childIndex]? with
        | none => (t, .panic) -- not reachable: the index was just checked
        | some oldChild =>
          let t := { t with children := t.children.set parent (l.take childIndex ++ newChild :: l.drop (childIndex + 1)) }
          match t.parents.get oldChild with
          | none => (t, .panic)
          | some _ =>
            let t := { t with parents := t.parents.set oldChild none }
            if markDirty t parent then (t, .ok (.id oldChild)) else (t, .panic)

/-- `child_at_index` -/
def childAtIndex (t : Tree) (parent : Id) (childIndex : Nat) : Tree × Out :=
  match t.children.get parent with
  | none => (t, .panic)
  | some l =>
    let childCount := l.length
    if childIndex ≥ childCount then (t, .err (.childIndexOutOfBounds parent childIndex childCount))
    else
      match l[childIndex]? with
      | none => (t, .panic)
      | some c => (t, .ok (.id c))

/-- `total_node_count` -/
def totalNodeCount (t : Tree) : Tree × Out := (t, .ok (.nat t.nodes.len))

/-- `child_count` (`TraversePartialTree`) -/
def childCount (t : Tree) (parent : Id) : Tree × Out :=
  match t.children.get parent with
  | none => (t, .panic)
  | some l => (t, .ok (.nat l.length))

/-- `children` -/
def children (t : Tree) (parent : Id) : Tree × Out :=
  match t.children.get parent with
  | none => (t, .panic)
  | some l => (t, .ok (.ids l))

/-- `parent` -/
def parent (t : Tree) (child : Id) : Tree × Out :=
  match t.parents.get child with
  | none => (t, .panic)
  | some p => (t, .ok (.optId p))

def step (t : Tree) : Op → Tree × Out
  | .newLeaf => newLeaf t
  | .newLeafWithContext x => newLeafWithContext t x
  | .newWithChildren cs => newWithChildren t cs
  | .clear => clear t
  | .remove n => remove t n
  | .setNodeContext n x => setNodeContext t n x
  | .getNodeContext n => getNodeContext t n
  | .addChild p c => addChild t p c
  | .insertChildAtIndex p i c => insertChildAtIndex t p i c
  | .setChildren p cs => setChildren t p cs
  | .removeChild p c => removeChild t p c
  | .removeChildAtIndex p i => removeChildAtIndex t p i
  | .removeChildrenRange p a b => removeChildrenRange t p a b
  | .replaceChildAtIndex p i c => replaceChildAtIndex t p i c
  | .childAtIndex p i => childAtIndex t p i
  | .totalNodeCount => totalNodeCount t
  | .childCount p => childCount t p
  | .children p => children t p
  | .parent n => parent t n

/-- state after a history from `TaffyTree::new()`; the history is a stack: **newest operation first** -/
def runH : List Op → Tree
  | [] => Tree.new
  | op :: h => (step (runH h) op).1

end TreeModel
