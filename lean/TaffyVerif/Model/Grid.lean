/-
  Model of src/compute/grid/mod.rs `compute_grid_layout` — the whole grid algorithm as ONE interaction program.

      GridModel.computeGridLayout (style : GridStyle α) (childStyles : List (GridChildStyle α)) (inputs : LayoutInput α)
        : ProgM α (LayoutOutput α)

  Parts that were already modelled function by function are reused, not rewritten:
    Model/GridTracksInit.lean  `computeExplicitGridSizeInAxis`, `initializeGridTracks`
    Model/GridPlacement.lean   `computeGridSizeEstimate`, `Matrix.withTrackCounts`, `placeGridItems`
    Model/FrSize.lean          every step of track sizing that does not read an item contribution
    Model/Alignment.lean       `alignTracks`
    Model/AbsPos.lean          `gridResolve`, `gridKnown`, `gridChildInput`, `gridFinalSize`, `alignItemWithinArea`
                               (= alignment.rs `align_and_position_item`, for in-flow and absolute children alike)
    Model/Block.lean           `contentSizeContribution`
  New here: the glue of `compute_grid_layout` (sizes of step 1, the two + two runs of the track sizing algorithm with
  their arguments, step 7 with its re-run conditions, container size, item positioning, the hidden/absolute loop with
  its grid-area computation, the container baseline, content size); Model/GridItem.lean (the item and its contribution
  queries); Model/GridSizing.lean (track sizing as an interaction program).

  Children are addressed by their index in the container's child list.  A panic of the implementation (checked integer
  arithmetic in placement, `assert!`s of `into_track_vec_index` for in-flow items, slice indexing) is the `Except.error` outcome of
  `computeGridLayoutE`; `computeGridLayout` maps it to `LayoutOutput.hidden` (the driver prints `panic` instead).
  `set_detailed_grid_info` is not modelled.  No Mathlib.
-/
import TaffyVerif.Model.GridSizing
import TaffyVerif.Model.Alignment
import TaffyVerif.Model.AbsPos
import TaffyVerif.Model.Block

namespace GridModel
open GridTracks
variable {α : Type} [Num α] [NumCast α]

/-! ### the container's own sizes (step 1) -/

structure Ctx (α : Type) where
  padding : Rect α
  border : Rect α
  paddingBorderSize : Size α
  minSize : Size (Option α)
  maxSize : Size (Option α)
  preferredSize : Size (Option α)
  scrollbarGutter : Point α
  contentBoxInset : Rect α
  alignContent : AlignContent
  justifyContent : AlignContent
  alignItems : Option AlignItems
  justifyItems : Option AlignItems
  availableGridSpace : Size (AvailableSpace α)
  outerNodeSize : Size (Option α)
  innerNodeSize : Size (Option α)
  autoFitContainerSize : Size (Option α)
deriving Repr, Inhabited

def mkCtx (s : Style α) (inputs : LayoutInput α) : Ctx α :=
  let knownDimensions := inputs.knownDimensions
  let parentSize := inputs.parentSize
  let availableSpace := inputs.availableSpace
  let aspectRatio := s.aspectRatio
  let padding := Resolve.rectLPOrZero s.padding parentSize.width
  let border := Resolve.rectLPOrZero s.border parentSize.width
  let paddingBorder := padding.add border
  let paddingBorderSize := paddingBorder.sumAxes
  let adj : Size α := if s.boxSizing == .contentBox then paddingBorderSize else Size.zero
  let minSize := GItem.resolveSize s.minSize parentSize aspectRatio adj
  let maxSize := GItem.resolveSize s.maxSize parentSize aspectRatio adj
  let preferredSize : Size (Option α) :=
    if inputs.sizingMode == .inherentSize then GItem.resolveSize s.size parentSize aspectRatio adj else Size.none
  -- `style.overflow().transpose().map(…)`
  let scrollbarGutter : Point α :=
    ⟨if s.overflow.y == .scroll then s.scrollbarWidth else 0, if s.overflow.x == .scroll then s.scrollbarWidth else 0⟩
  let contentBoxInset : Rect α :=
    { paddingBorder with right := paddingBorder.right + scrollbarGutter.x,
                         bottom := paddingBorder.bottom + scrollbarGutter.y }
  let kdOrPref := knownDimensions.orOpt preferredSize
  let pick : Option α → AvailableSpace α → AvailableSpace α := fun o a => match o with
    | some v => .definite v
    | none => a
  let constrained : Size (AvailableSpace α) :=
    ⟨MaybeMath.af_max (MaybeMath.ao_clamp (pick kdOrPref.width availableSpace.width) minSize.width maxSize.width)
        paddingBorderSize.width,
     MaybeMath.af_max (MaybeMath.ao_clamp (pick kdOrPref.height availableSpace.height) minSize.height maxSize.height)
        paddingBorderSize.height⟩
  let availableGridSpace : Size (AvailableSpace α) :=
    ⟨MaybeMath.af_sub constrained.width contentBoxInset.horizontalAxisSum,
     MaybeMath.af_sub constrained.height contentBoxInset.verticalAxisSum⟩
  let outerNodeSize := (kdOrPref.oo_clamp minSize maxSize).of_max paddingBorderSize
  let innerNodeSize := outerNodeSize.of_sub contentBoxInset.sumAxes
  let autoFitContainerSize :=
    ((((outerNodeSize.orOpt maxSize).orOpt minSize).oo_clamp minSize maxSize).of_max paddingBorderSize).of_sub
      contentBoxInset.sumAxes
  { padding, border, paddingBorderSize, minSize, maxSize, preferredSize, scrollbarGutter, contentBoxInset,
    alignContent := s.alignContent.getD .stretch, justifyContent := s.justifyContent.getD .stretch,
    alignItems := s.alignItems, justifyItems := s.justifyItems, availableGridSpace, outerNodeSize, innerNodeSize,
    autoFitContainerSize }

/-! ### placement glue (steps 2–5) -/

/-- `CellOccupancyMatrix::column_is_occupied` -/
def columnIsOccupied (m : GridPlacement.Matrix) (i : Nat) : Bool :=
  if i ≥ m.inner.cols then false
  else (List.range m.inner.rows).any fun r => (m.inner.data[r * m.inner.cols + i]?).getD .unoccupied != .unoccupied

/-- `CellOccupancyMatrix::row_is_occupied` -/
def rowIsOccupied (m : GridPlacement.Matrix) (i : Nat) : Bool :=
  if i ≥ m.inner.rows then false
  else (List.range m.inner.cols).any fun c => (m.inner.data[i * m.inner.cols + c]?).getD .unoccupied != .unoccupied

def toNatCounts (c : GridPlacement.TrackCounts) : GridTracks.TrackCounts :=
  ⟨c.negativeImplicit.toNat, c.explicit.toNat, c.positiveImplicit.toNat⟩

/-! ### alignment.rs `align_and_position_item` -/

/-- returns `(content_size_contribution, y_position, height)` -/
def alignAndPositionItem (node : Nat) (cs : Style α) (order : Nat) (gridArea : Rect α)
    (justifyItems alignItems : Option AlignItems) (baselineShim : α) : GM α (Size α × α × α) := do
  let a : AbsPos.GridArgs α := { gridArea, justifyItems, alignItems, baselineShim, order }
  let r := AbsPos.gridResolve a cs
  let kd := AbsPos.gridKnown r cs.position cs.aspectRatio
  let out ← GM.call node (AbsPos.gridChildInput r kd)
  let finalSize := AbsPos.gridFinalSize r kd out.size
  let (x, xMargin) :=
    AbsPos.alignItemWithinArea ⟨gridArea.left, gridArea.right⟩ (cs.justifySelf.getD r.alignH) finalSize.width cs.position
      r.insetH ⟨r.margin.left, r.margin.right⟩ 0
  let (y, yMargin) :=
    AbsPos.alignItemWithinArea ⟨gridArea.top, gridArea.bottom⟩ (cs.alignSelf.getD r.alignV) finalSize.height cs.position
      r.insetV ⟨r.margin.top, r.margin.bottom⟩ baselineShim
  GM.setLayout node
    { order, location := ⟨x, y⟩, size := finalSize, contentSize := out.contentSize,
      scrollbarSize := AbsPos.scrollbarSize cs, padding := r.padding, border := r.border,
      margin := { left := xMargin.start, right := xMargin.end, top := yMargin.start, bottom := yMargin.end } }
  pure (BlockModel.contentSizeContribution ⟨x, y⟩ finalSize out.contentSize cs.overflow, y, finalSize.height)

/-! ### step 7: re-resolution of percentage tracks and the re-run conditions -/

/-- `column.base_size = column.base_size.maybe_clamp(min, max)` with the percentage sizes resolved against the content box -/
def reresolvePercentTracks (contentBox : α) (tracks : List (GridTrack α)) : List (GridTrack α) :=
  tracks.map fun t =>
    let mn := t.minFn.resolvedPercentageSize contentBox
    let mx := t.maxFn.resolvedPercentageSize contentBox
    { t with baseSize := MaybeMath.fo_clamp t.baseSize mn mx }

/-- `items.iter_mut().filter(|item| item.crosses_intrinsic_column).any(|item| { … has_changed })` for `axis`
(short-circuiting: items after the first changed one are not visited) -/
def minContentChanged (axis : Ax) (otherAxisTracks : List (GridTrack α)) (innerNodeSize : Size (Option α)) :
    List (GItem α) → GM α (Bool × List (GItem α))
  | [] => pure (false, [])
  | it :: rest =>
    -- NB: the filter reads `crosses_intrinsic_column` for both axes, as the Rust does
    if !it.crossesIntrinsicColumn then do
      let (b, rest) ← minContentChanged axis otherAxisTracks innerNodeSize rest
      pure (b, it :: rest)
    else do
      let availableSpace := it.availableSpace axis otherAxisTracks (sget innerNodeSize axis.other) .baseSize
      let newMin ← it.minContentContribution axis availableSpace innerNodeSize
      -- `Some(new) != cache` on `Option<f32>` (IEEE equality)
      let hasChanged := match sget it.minContentContributionCache axis with
        | some old => !Num.feq newMin old
        | none => true
      let it := { it with availableSpaceCache := some availableSpace,
                          minContentContributionCache := sset it.minContentContributionCache axis (some newMin),
                          maxContentContributionCache := sset it.maxContentContributionCache axis none,
                          minimumContributionCache := sset it.minimumContributionCache axis none }
      if hasChanged then pure (true, it :: rest) else do
        let (b, rest) ← minContentChanged axis otherAxisTracks innerNodeSize rest
        pure (b, it :: rest)

/-- "Clear intrinsic width/height caches" -/
def clearCaches (axis : Ax) (items : List (GItem α)) : List (GItem α) :=
  items.map fun it =>
    { it with availableSpaceCache := none,
              minContentContributionCache := sset it.minContentContributionCache axis none,
              maxContentContributionCache := sset it.maxContentContributionCache axis none,
              minimumContributionCache := sset it.minimumContributionCache axis none }

/-! ### step 9: positioning -/

def trackOffset (tracks : List (GridTrack α)) (i : Nat) : GM α α :=
  match tracks[i]? with
  | some t => pure t.offset
  | none => throw "panic: index out of bounds (track vector)"

/-- "Position in-flow children (stored in items vector)" -/
def positionItems (childStyles : List (GridChildStyle α)) (rows columns : List (GridTrack α))
    (justifyItems alignItems : Option AlignItems) :
    List (GItem α) → Nat → Size α → GM α (List (GItem α) × Size α)
  | [], _, acc => pure ([], acc)
  | it :: rest, index, acc => do
    let top ← trackOffset rows (it.rowIndexes.start + 1)
    let bottom ← trackOffset rows it.rowIndexes.end
    let left ← trackOffset columns (it.columnIndexes.start + 1)
    let right ← trackOffset columns it.columnIndexes.end
    let gridArea : Rect α := { top, bottom, left, right }
    match childStyles[it.node]? with
    | none => throw "panic: no such child"
    | some cs =>
      let (contribution, y, height) ←
        alignAndPositionItem it.node cs.base index gridArea justifyItems alignItems it.baselineShim
      let it := { it with yPosition := y, height := height }
      let (rest, acc) ← positionItems childStyles rows columns justifyItems alignItems rest (index + 1)
        (acc.f32Max contribution)
      pure (it :: rest, acc)

/-- `maybe_grid_line.and_then(|line: OriginZeroLine| line.try_into_track_vec_index(counts))` -/
def absLineIndex (counts : GridPlacement.TrackCounts) : Option Int → GridPlacement.Outcome (Option Int)
  | none => pure none
  | some l => tryIntoTrackVecIndex l counts

/-- `Line<GridPlacement>::into_origin_zero(explicit).resolve_absolutely_positioned_grid_tracks()
.map(|l| l.and_then(|line| line.try_into_track_vec_index(counts)))`: a line outside of the implicit grid is `None` (= auto) -/
def absTrackIndexes (pl : Line GridPlacement.Placement) (counts : GridPlacement.TrackCounts) :
    GridPlacement.Outcome (Line (Option Int)) := do
  let oz ← GridPlacement.intoOriginZero pl counts.explicit
  let r : Line (Option Int) ← (match oz.start, oz.end with
    | .line t1, .line t2 =>
      if t1 = t2 then do
        let e ← GridPlacement.ozAdd t1 1
        pure ⟨some t1, some e⟩
      else pure ⟨some (min t1 t2), some (max t1 t2)⟩
    | .line t, .span s => do
      let e ← GridPlacement.ozAdd t s
      pure ⟨some t, some e⟩
    | .line t, .auto => pure ⟨some t, none⟩
    | .span s, .line t => do
      let st ← GridPlacement.ozSub t s
      pure ⟨some st, some t⟩
    | .auto, .line t => pure ⟨none, some t⟩
    | _, _ => pure ⟨none, none⟩ : GridPlacement.Outcome (Line (Option Int)))
  let s ← absLineIndex counts r.start
  let e ← absLineIndex counts r.end
  pure ⟨s, e⟩

def optOffset (tracks : List (GridTrack α)) (i : Option Int) (dflt : α) : GM α α :=
  match i with
  | none => pure dflt
  | some i => trackOffset tracks i.toNat

/-- "Position hidden and absolutely positioned children" -/
def hiddenAbsLoop (c : Ctx α) (containerBorderBox : Size α) (rows columns : List (GridTrack α))
    (colCounts rowCounts : GridPlacement.TrackCounts) :
    List (GridChildStyle α) → Nat → Nat → Size α → GM α (Size α)
  | [], _, _, acc => pure acc
  | cs :: rest, index, order, acc =>
    if cs.base.isHidden then do
      let _ ← GM.call index
        { runMode := .performLayout, sizingMode := .inherentSize, axis := .both, knownDimensions := Size.none,
          parentSize := Size.none, availableSpace := ⟨.maxContent, .maxContent⟩,
          verticalMarginsAreCollapsible := ⟨false, false⟩ }
      GM.setLayout index (Layout.withOrder order)
      hiddenAbsLoop c containerBorderBox rows columns colCounts rowCounts rest (index + 1) (order + 1) acc
    else if cs.base.position == .absolute then do
      let colIdx ← GM.ofOutcome (absTrackIndexes cs.gridColumn colCounts)
      let rowIdx ← GM.ofOutcome (absTrackIndexes cs.gridRow rowCounts)
      let top ← optOffset rows rowIdx.start c.border.top
      let bottom ← optOffset rows rowIdx.end (containerBorderBox.height - c.border.bottom - c.scrollbarGutter.y)
      let left ← optOffset columns colIdx.start c.border.left
      let right ← optOffset columns colIdx.end (containerBorderBox.width - c.border.right - c.scrollbarGutter.x)
      let gridArea : Rect α := { top, bottom, left, right }
      let (contribution, _, _) ← alignAndPositionItem index cs.base order gridArea c.justifyItems c.alignItems 0
      hiddenAbsLoop c containerBorderBox rows columns colCounts rowCounts rest (index + 1) (order + 1)
        (acc.f32Max contribution)
    else hiddenAbsLoop c containerBorderBox rows columns colCounts rowCounts rest (index + 1) order acc

/-- "Determine the grid container baseline(s)" (items non-empty) -/
def gridContainerBaseline (items : List (GItem α)) : α :=
  -- `items.sort_by_key(|item| item.row_indexes.start)` (stable)
  let items := items.mergeSort fun a b => decide (a.rowIndexes.start ≤ b.rowIndexes.start)
  match items with
  | [] => 0
  | first :: _ =>
    let firstRow := first.rowIndexes.start
    let firstRowItems := items.takeWhile fun it => it.rowIndexes.start == firstRow
    let item := (firstRowItems.find? fun it => it.alignSelf == .baseline).getD first
    item.yPosition + item.baseline.getD item.height

/-! ### `compute_grid_layout` -/

def computeGridLayoutE (style : GridStyle α) (childStyles : List (GridChildStyle α)) (inputs : LayoutInput α) :
    GM α (LayoutOutput α) := do
  let s := style.base
  let knownDimensions := inputs.knownDimensions
  let availableSpace := inputs.availableSpace
  let runMode := inputs.runMode
  -- 1. Compute "available grid space"
  let c := mkCtx s inputs
  match runMode, c.outerNodeSize.width, c.outerNodeSize.height with
  | .computeSize, some width, some height => pure (LayoutOutput.fromOuterSize ⟨width, height⟩)
  | _, _, _ =>
  -- 2. Resolve the explicit grid
  let explicitColCount ← GM.ofExcept (computeExplicitGridSizeInAxis s.size.width s.maxSize.width s.gap.width
    style.gridTemplateColumns c.autoFitContainerSize.width)
  let explicitRowCount ← GM.ofExcept (computeExplicitGridSizeInAxis s.size.height s.maxSize.height s.gap.height
    style.gridTemplateRows c.autoFitContainerSize.height)
  -- 3. Implicit Grid: Estimate Track Counts
  let boxChildren : List GridPlacement.Child :=
    ((childStyles.filter fun cs => !cs.base.isHidden).filter fun cs => cs.base.position != .absolute).map fun cs =>
      ⟨cs.gridRow, cs.gridColumn⟩
  let (estColCounts, estRowCounts) ←
    GM.ofOutcome (GridPlacement.computeGridSizeEstimate explicitColCount explicitRowCount boxChildren)
  -- 4. Grid Item Placement
  let matrix0 ← GM.ofOutcome (GridPlacement.Matrix.withTrackCounts estColCounts estRowCounts)
  let inFlow : List (Nat × GridPlacement.Child) :=
    ((GridPlacement.enumFrom 0 childStyles).filter fun ic =>
      !ic.2.base.isHidden && ic.2.base.position != .absolute).map fun ic => (ic.1, ⟨ic.2.gridRow, ic.2.gridColumn⟩)
  let placed ← GM.ofOutcome (GridPlacement.placeGridItems GridPlacement.defaultFuel matrix0 inFlow style.gridAutoFlow)
  let matrix := placed.matrix
  let parentAlignItems := c.alignItems.getD .stretch
  let parentJustifyItems := c.justifyItems.getD .stretch
  let items : List (GItem α) := placed.items.reverse.map fun p =>
    GItem.new p.index p.column p.row ((childStyles[p.index]?).map (·.base) |>.getD Style.default)
      parentAlignItems parentJustifyItems p.index
  let finalColCounts := matrix.columns
  let finalRowCounts := matrix.rows
  -- 5. Initialize Tracks
  let columns ← GM.ofExcept (initializeGridTracks (toNatCounts finalColCounts) style.gridTemplateColumns
    style.gridAutoColumns s.gap.width (columnIsOccupied matrix))
  let rows ← GM.ofExcept (initializeGridTracks (toNatCounts finalRowCounts) style.gridTemplateRows
    style.gridAutoRows s.gap.height (rowIsOccupied matrix))
  -- 6. Track Sizing
  let items ← GM.ofOutcome (resolveItemTrackIndexes items finalColCounts finalRowCounts)
  let items := determineCrossings items columns rows
  let hasBaselineAlignedItem := items.any fun it => it.alignSelf == .baseline
  let innerNodeSize := c.innerNodeSize
  -- Run track sizing algorithm for Inline axis
  let colArgs : RunArgs α :=
    { axis := .inl, axisMinSize := c.minSize.width, axisMaxSize := c.maxSize.width,
      axisAlignment := c.justifyContent, otherAxisAlignment := c.alignContent,
      availableGridSpace := c.availableGridSpace, innerNodeSize, est := .maxFnDefinite, hasBaselineAlignedItem }
  let st ← trackSizingAlgorithmM colArgs { axisTracks := columns, otherAxisTracks := rows, items }
  let columns := st.axisTracks
  let rows := st.otherAxisTracks
  let items := st.items
  let initialColumnSum : α := sumF (columns.map (·.baseSize))
  let innerNodeSize : Size (Option α) := { innerNodeSize with width := innerNodeSize.width.or (some initialColumnSum) }
  let items := items.map fun it => { it with availableSpaceCache := none }
  -- Run track sizing algorithm for Block axis
  let rowArgs : RunArgs α :=
    { axis := .blk, axisMinSize := c.minSize.height, axisMaxSize := c.maxSize.height,
      axisAlignment := c.alignContent, otherAxisAlignment := c.justifyContent,
      availableGridSpace := c.availableGridSpace, innerNodeSize, est := .baseSize, hasBaselineAlignedItem := false }
  let st ← trackSizingAlgorithmM rowArgs { axisTracks := rows, otherAxisTracks := columns, items }
  let rows := st.axisTracks
  let columns := st.otherAxisTracks
  let items := st.items
  let initialRowSum : α := sumF (rows.map (·.baseSize))
  let innerNodeSize : Size (Option α) := { innerNodeSize with height := innerNodeSize.height.or (some initialRowSum) }
  -- 6. Compute container size
  let resolvedStyleSize := knownDimensions.orOpt c.preferredSize
  let containerBorderBox : Size α :=
    ⟨Num.fmax (MaybeMath.fo_clamp (resolvedStyleSize.width.getD (initialColumnSum + c.contentBoxInset.horizontalAxisSum))
        c.minSize.width c.maxSize.width) c.paddingBorderSize.width,
     Num.fmax (MaybeMath.fo_clamp (resolvedStyleSize.height.getD (initialRowSum + c.contentBoxInset.verticalAxisSum))
        c.minSize.height c.maxSize.height) c.paddingBorderSize.height⟩
  let containerContentBox : Size α :=
    ⟨Num.fmax 0 (containerBorderBox.width - c.contentBoxInset.horizontalAxisSum),
     Num.fmax 0 (containerBorderBox.height - c.contentBoxInset.verticalAxisSum)⟩
  -- If only the container's size has been requested
  if runMode == .computeSize then pure (LayoutOutput.fromOuterSize containerBorderBox) else do
  -- 7. Resolve percentage track base sizes
  let columns :=
    if !c.availableGridSpace.width.isDefinite then reresolvePercentTracks containerContentBox.width columns else columns
  let rows :=
    if !c.availableGridSpace.height.isDefinite then reresolvePercentTracks containerContentBox.height rows else rows
  -- Column sizing must be re-run (once) if …
  let hasPercentageColumn := columns.any (·.usesPercentage)
  let parentWidthIndefinite := !availableSpace.width.isDefinite
  let rerunColumnSizing0 := parentWidthIndefinite && hasPercentageColumn
  let (rerunColumnSizing, items) ← (
    if !rerunColumnSizing0 then minContentChanged .inl rows innerNodeSize items
    else pure (true, clearCaches .inl items) : GM α (Bool × List (GItem α)))
  let (columns, rows, items) ← (
    if rerunColumnSizing then do
      -- Re-run track sizing algorithm for Inline axis
      let st ← trackSizingAlgorithmM { colArgs with innerNodeSize, est := .baseSize }
        { axisTracks := columns, otherAxisTracks := rows, items }
      let columns := st.axisTracks
      let rows := st.otherAxisTracks
      let items := st.items
      -- Row sizing must be re-run (once) if …
      let hasPercentageRow := rows.any (·.usesPercentage)
      let parentHeightIndefinite := !availableSpace.height.isDefinite
      let rerunRowSizing0 := parentHeightIndefinite && hasPercentageRow
      let (rerunRowSizing, items) ← (
        if !rerunRowSizing0 then minContentChanged .blk columns innerNodeSize items
        else pure (true, clearCaches .blk items) : GM α (Bool × List (GItem α)))
      if rerunRowSizing then do
        -- Re-run track sizing algorithm for Block axis
        let st ← trackSizingAlgorithmM { rowArgs with innerNodeSize }
          { axisTracks := rows, otherAxisTracks := columns, items }
        pure (st.otherAxisTracks, st.axisTracks, st.items)
      else pure (columns, rows, items)
    else pure (columns, rows, items) : GM α (List (GridTrack α) × List (GridTrack α) × List (GItem α)))
  -- 8. Track Alignment
  let columns := alignTracks containerContentBox.width c.padding.left c.border.left columns c.justifyContent
  let rows := alignTracks containerContentBox.height c.padding.top c.border.top rows c.alignContent
  -- 9. Size, Align, and Position Grid Items
  -- `items.sort_by_key(|item| item.source_order)` (stable)
  let items := items.mergeSort fun a b => decide (a.sourceOrder ≤ b.sourceOrder)
  let (items, itemContentSize) ← positionItems childStyles rows columns c.justifyItems c.alignItems items 0 Size.zero
  -- Position hidden and absolutely positioned children
  let itemContentSize ← hiddenAbsLoop c containerBorderBox rows columns finalColCounts finalRowCounts childStyles 0
    items.length itemContentSize
  -- If there are not items then return just the container size (no baseline)
  if items.isEmpty then pure (LayoutOutput.fromOuterSize containerBorderBox) else
  pure (LayoutOutput.fromSizesAndBaselines containerBorderBox itemContentSize ⟨none, some (gridContainerBaseline items)⟩)

/-- `compute_grid_layout`; a panic of the implementation is `LayoutOutput.hidden` here (see `computeGridLayoutE`) -/
def computeGridLayout (style : GridStyle α) (childStyles : List (GridChildStyle α)) (inputs : LayoutInput α) :
    ProgM α (LayoutOutput α) := do
  match ← (computeGridLayoutE style childStyles inputs).run with
  | .ok out => pure out
  | .error _ => pure LayoutOutput.hidden

end GridModel
