/-
  Geometry and layout I/O types of taffy (src/geometry.rs, src/tree/layout.rs, src/style/available_space.rs).
-/
import TaffyVerif.Num

structure Size (α : Type) where
  width : α
  height : α
deriving Repr, BEq, DecidableEq, Inhabited

structure Point (α : Type) where
  x : α
  y : α
deriving Repr, BEq, DecidableEq, Inhabited

structure Rect (α : Type) where
  left : α
  right : α
  top : α
  bottom : α
deriving Repr, BEq, DecidableEq, Inhabited

structure Line (α : Type) where
  start : α
  «end» : α
deriving Repr, BEq, DecidableEq, Inhabited

inductive AvailableSpace (α : Type) where
  | definite (v : α)
  | minContent
  | maxContent
deriving Repr, BEq, DecidableEq, Inhabited

inductive RunMode where
  | performLayout
  | computeSize
  | performHiddenLayout
deriving Repr, BEq, DecidableEq, Inhabited

inductive SizingMode where
  | contentSize
  | inherentSize
deriving Repr, BEq, DecidableEq, Inhabited

inductive RequestedAxis where
  | horizontal
  | vertical
  | both
deriving Repr, BEq, DecidableEq, Inhabited

/-- `CollapsibleMarginSet` (tree/layout.rs) -/
structure MarginSet (α : Type) where
  positive : α
  negative : α
deriving Repr, BEq, DecidableEq, Inhabited

structure LayoutOutput (α : Type) where
  size : Size α
  contentSize : Size α
  firstBaselines : Point (Option α)
  topMargin : MarginSet α
  bottomMargin : MarginSet α
  marginsCanCollapseThrough : Bool
deriving Repr, BEq, DecidableEq, Inhabited

structure LayoutInput (α : Type) where
  runMode : RunMode
  sizingMode : SizingMode
  axis : RequestedAxis
  knownDimensions : Size (Option α)
  parentSize : Size (Option α)
  availableSpace : Size (AvailableSpace α)
  verticalMarginsAreCollapsible : Line Bool
deriving Repr, BEq, DecidableEq, Inhabited

structure Layout (α : Type) where
  order : Nat
  location : Point α
  size : Size α
  contentSize : Size α
  scrollbarSize : Size α
  border : Rect α
  padding : Rect α
  margin : Rect α
deriving Repr, BEq, DecidableEq, Inhabited

namespace MarginSet
variable {α : Type} [Num α]
def zero : MarginSet α := ⟨0, 0⟩
def fromMargin (m : α) : MarginSet α :=
  if Num.fge m 0 then ⟨m, 0⟩ else ⟨0, m⟩
def collapseWithMargin (s : MarginSet α) (m : α) : MarginSet α :=
  if Num.fge m 0 then { s with positive := Num.fmax s.positive m }
  else { s with negative := Num.fmin s.negative m }
def collapseWithSet (s o : MarginSet α) : MarginSet α :=
  ⟨Num.fmax s.positive o.positive, Num.fmin s.negative o.negative⟩
def resolve (s : MarginSet α) : α := s.positive + s.negative
end MarginSet

namespace LayoutOutput
variable {α : Type} [Num α]
def hidden : LayoutOutput α :=
  { size := ⟨0, 0⟩, contentSize := ⟨0, 0⟩, firstBaselines := ⟨none, none⟩,
    topMargin := MarginSet.zero, bottomMargin := MarginSet.zero, marginsCanCollapseThrough := false }
def fromSizesAndBaselines (size contentSize : Size α) (b : Point (Option α)) : LayoutOutput α :=
  { size, contentSize, firstBaselines := b,
    topMargin := MarginSet.zero, bottomMargin := MarginSet.zero, marginsCanCollapseThrough := false }
def fromSizes (size contentSize : Size α) : LayoutOutput α :=
  fromSizesAndBaselines size contentSize ⟨none, none⟩
def fromOuterSize (size : Size α) : LayoutOutput α := fromSizes size ⟨0, 0⟩
end LayoutOutput

namespace Layout
variable {α : Type} [Num α]
def withOrder (order : Nat) : Layout α :=
  { order, location := ⟨0, 0⟩, size := ⟨0, 0⟩, contentSize := ⟨0, 0⟩, scrollbarSize := ⟨0, 0⟩,
    border := ⟨0, 0, 0, 0⟩, padding := ⟨0, 0, 0, 0⟩, margin := ⟨0, 0, 0, 0⟩ }
def new : Layout α := withOrder 0
end Layout
