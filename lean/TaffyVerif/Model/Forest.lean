/-
  Reference specification for C14: the tree as a user thinks of it.
    live : the ids that exist            kids : id → ordered child list           parent: derived from `kids`
  `specStep` is what each structural method of `TaffyTree` is *supposed* to do when its precondition `specPre` holds
  (ids live; a node is attached by add/insert/replace/new_with_children only while detached; `set_children`'s
  argument duplicate-free — it may reparent). Creating a node is nondeterministic in the spec (any id that is not
  live); the id chosen by the implementation is passed in.
  No Mathlib (the driver's property monitor executes this).
-/
import TaffyVerif.Model.Tree

namespace ForestSpec
open SlotMapModel TreeModel

structure Forest where
  live : List Id
  kids : Id → List Id

def Forest.empty : Forest := { live := [], kids := fun _ => [] }

/-- the parent of `c`: the live node that lists `c` as a child (unique in a well-formed forest) -/
def Forest.parentOf (f : Forest) (c : Id) : Option Id := f.live.find? (fun p => decide (c ∈ f.kids p))

def Forest.isLive (f : Forest) (n : Id) : Bool := decide (n ∈ f.live)

def Forest.detached (f : Forest) (c : Id) : Bool := f.live.all (fun p => decide (c ∉ f.kids p))

def Forest.setKids (f : Forest) (p : Id) (l : List Id) : Forest :=
  { f with kids := fun q => if q = p then l else f.kids q }

/-- precondition of the property (C14 statement): what a caller must respect for the spec to apply -/
def specPre (f : Forest) : Op → Bool
  | .newLeaf | .newLeafWithContext _ | .clear | .totalNodeCount | .getNodeContext _ => true
  | .newWithChildren cs => cs.all (fun c => f.isLive c && f.detached c) && decide cs.Nodup
  | .remove n | .setNodeContext n _ | .parent n => f.isLive n
  | .addChild p c | .insertChildAtIndex p _ c | .replaceChildAtIndex p _ c =>
    f.isLive p && f.isLive c && f.detached c
  | .setChildren p cs => f.isLive p && cs.all f.isLive && decide cs.Nodup
  | .removeChild p c => f.isLive p && decide (c ∈ f.kids p)
  | .removeChildAtIndex p _ | .childAtIndex p _ | .childCount p | .children p => f.isLive p
  | .removeChildrenRange p a b => f.isLive p && decide (a ≤ b) && decide (b ≤ (f.kids p).length)

/-- the specified effect and answer; `newId` is only read by the three creating operations -/
def specStep (f : Forest) (newId : Id) : Op → Forest × Out
  | .newLeaf | .newLeafWithContext _ =>
    ({ live := f.live ++ [newId], kids := fun q => if q = newId then [] else f.kids q }, .ok (.id newId))
  | .newWithChildren cs =>
    ({ live := f.live ++ [newId], kids := fun q => if q = newId then cs else f.kids q }, .ok (.id newId))
  | .clear => (Forest.empty, .ok .unit)
  | .remove n =>
    ({ live := f.live.filter (fun q => q ≠ n),
       kids := fun q => if q = n then [] else (f.kids q).filter (fun c => c ≠ n) }, .ok (.id n))
  | .setNodeContext _ _ => (f, .ok .unit)
  | .getNodeContext _ => (f, .ok (.optNat none)) -- contexts are not part of the structural spec
  | .addChild p c => (f.setKids p (f.kids p ++ [c]), .ok .unit)
  | .insertChildAtIndex p i c =>
    if i > (f.kids p).length then (f, .err (.childIndexOutOfBounds p i (f.kids p).length))
    else (f.setKids p ((f.kids p).take i ++ c :: (f.kids p).drop i), .ok .unit)
  | .setChildren p cs =>
    ({ f with kids := fun q => if q = p then cs else (f.kids q).filter (fun c => decide (c ∉ cs)) }, .ok .unit)
  | .removeChild p c => (f.setKids p ((f.kids p).filter (fun x => x ≠ c)), .ok (.id c))
  | .removeChildAtIndex p i =>
    match (f.kids p)[i]? with
    | none => (f, .err (.childIndexOutOfBounds p i (f.kids p).length))
    | some c => (f.setKids p ((f.kids p).take i ++ (f.kids p).drop (i + 1)), .ok (.id c))
  | .removeChildrenRange p a b => (f.setKids p ((f.kids p).take a ++ (f.kids p).drop b), .ok .unit)
  | .replaceChildAtIndex p i c =>
    match (f.kids p)[i]? with
    | none => (f, .err (.childIndexOutOfBounds p i (f.kids p).length))
    | some old => (f.setKids p ((f.kids p).take i ++ c :: (f.kids p).drop (i + 1)), .ok (.id old))
  | .childAtIndex p i =>
    match (f.kids p)[i]? with
    | none => (f, .err (.childIndexOutOfBounds p i (f.kids p).length))
    | some c => (f, .ok (.id c))
  | .totalNodeCount => (f, .ok (.nat f.live.length))
  | .childCount p => (f, .ok (.nat (f.kids p).length))
  | .children p => (f, .ok (.ids (f.kids p)))
  | .parent n => (f, .ok (.optId (f.parentOf n)))

end ForestSpec
