/-
  Driver plumbing: a handler is a state machine over request lines (already split into words).
-/
import TaffyVerif.Proto
import TaffyVerif.Model.Geometry

structure Handler where
  σ : Type
  init : σ
  step : σ → List String → σ × String

namespace Drv
open Proto

def parseAv (s : String) : Option (AvailableSpace Float32) :=
  if s = "min" then some .minContent
  else if s = "max" then some .maxContent
  else if s.startsWith "d:" then (parseF32 (s.drop 2).toString).map .definite
  else none

def showAv : AvailableSpace Float32 → String
  | .minContent => "min"
  | .maxContent => "max"
  | .definite v => "d:" ++ showF32 v

def parseMode (s : String) : Option RunMode :=
  if s = "L" then some .performLayout
  else if s = "S" then some .computeSize
  else if s = "H" then some .performHiddenLayout
  else none

/-- 11 tokens: size w h, content w h, baselines x y, top pos neg, bottom pos neg, collapse -/
def parseOutput (ws : List String) : Option (LayoutOutput Float32) :=
  match ws with
  | [sw, sh, cw, ch, bx, by_, tp, tn, bp, bn, ct] => do
    let sw ← parseF32 sw; let sh ← parseF32 sh
    let cw ← parseF32 cw; let ch ← parseF32 ch
    let bx ← parseOptF32 bx; let by_ ← parseOptF32 by_
    let tp ← parseF32 tp; let tn ← parseF32 tn
    let bp ← parseF32 bp; let bn ← parseF32 bn
    let ct ← parseBool ct
    pure { size := ⟨sw, sh⟩, contentSize := ⟨cw, ch⟩, firstBaselines := ⟨bx, by_⟩,
           topMargin := ⟨tp, tn⟩, bottomMargin := ⟨bp, bn⟩, marginsCanCollapseThrough := ct }
  | _ => none

def showOutput (o : LayoutOutput Float32) (f : Float32 → String := showF32) : String :=
  let fo : Option Float32 → String := fun x => match x with | none => "-" | some v => f v
  String.intercalate " " [f o.size.width, f o.size.height, f o.contentSize.width, f o.contentSize.height,
    fo o.firstBaselines.x, fo o.firstBaselines.y, f o.topMargin.positive, f o.topMargin.negative,
    f o.bottomMargin.positive, f o.bottomMargin.negative, showBool o.marginsCanCollapseThrough]

end Drv
