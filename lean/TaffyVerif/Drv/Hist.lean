/-
  C01 / C16 / C17 drivers: the property predicates evaluated on the implementation's observations.

  The harness (harness/src/hist.rs) writes `obs <PROP> …` lines that carry everything needed to re-evaluate the predicate
  (the tree, the available space, every layout list in preorder; the call counts). These handlers parse the line with the
  shared parsers (`Drv.pTree`, `Drv.pLayout`, `Drv.pAv`) and decide the predicate in Lean; the answer is `ok` or
  `bad <tag>`, so impl.txt and model.txt differ exactly when the Rust oracle and the Lean predicate disagree.

  Requests:
    obs C01 <attr> <stream> <rounding> <avail w> <avail h> T <tree> L n <incremental unrounded> L n <incremental layout()>
                                                                     L n <fresh unrounded> L n <fresh layout()>
        predicate: the tree has n nodes and both pairs of lists are equal field by field → `ok`, else `bad <attr>`
        (<attr> = the finding the harness attributes a difference to by replaying the history under its neutralisers;
         the attribution itself needs the implementation and is not re-done here)
    quiet C01 k / quiet C17 k        k passes (cases) whose lists were equal and are not carried → `ok k`
    differs C01 <mode> <attr>        a differing pass beyond the transcript cap of thorough runs (not carried) → `bad <attr>`
    panicked <PROP> …                → `bad panic` (C17: `panicked C17 1` = every driver panicked alike → `ok panic`)
    obs C16 mix N total misses k c₁ … c_k    → total = Σcᵢ and total ≤ 64·N
    obs C16 chain <family> nd c₁ … c_nd      → ∀d, c_d ≤ 64·(d+1)   (d containers + the leaf);  nd > 8 → c_nd ≤ c_8
    obs C17 <rounding> <avail w> <avail h> T <tree> L.. L.. (TaffyTree) L.. L.. (low-level driver)
            X L.. L.. (TaffyTree, exact keys) L.. L.. (driver, exact keys) [F L.. L.. (cache-free)] [Q L.. L.. (exact keys + quiet hits)]
-/
import TaffyVerif.Drv.C02
import TaffyVerif.Drv.TreeParse
import TaffyVerif.Drv.EVAL

namespace DrvHist
open Proto Drv

abbrev F := Float32

/-- canonical bit pattern: every NaN one pattern, −0.0 → +0.0 (the harness prints layouts that way) -/
def fbits (x : F) : Nat :=
  if x.isNaN then 0x7fc00000 else
  let b := x.toBits.toNat
  if b = 0x80000000 then 0 else b

/-- the twenty numeric fields of a layout, in the order of `layout_line` -/
def fields (l : Layout F) : List Nat :=
  [l.location.x, l.location.y, l.size.width, l.size.height, l.contentSize.width, l.contentSize.height,
   l.scrollbarSize.width, l.scrollbarSize.height, l.border.left, l.border.right, l.border.top, l.border.bottom,
   l.padding.left, l.padding.right, l.padding.top, l.padding.bottom,
   l.margin.left, l.margin.right, l.margin.top, l.margin.bottom].map fbits

def layoutEq (a b : Layout F) : Bool := a.order == b.order && fields a == fields b

def listEq : List (Layout F) → List (Layout F) → Bool
  | [], [] => true
  | a :: as, b :: bs => layoutEq a b && listEq as bs
  | _, _ => false

/-- `L n <21·n tokens>` -/
def pLayoutsN : Nat → P (List (Layout F))
  | 0 => fun ts => some ([], ts)
  | n + 1 => fun ts => do
    let (l, ts) ← pLayout ts
    let (ls, ts) ← pLayoutsN n ts
    pure (l :: ls, ts)

def pLayouts : P (List (Layout F)) := fun ts =>
  match ts with
  | "L" :: n :: rest => do
    let n ← parseNat n
    pLayoutsN n rest
  | _ => none

/-- a pair of lists: unrounded, `layout()` -/
abbrev LL := List (Layout F) × List (Layout F)

def pLL : P LL := fun ts => do
  let (a, ts) ← pLayouts ts
  let (b, ts) ← pLayouts ts
  pure ((a, b), ts)

def llEq (a b : LL) : Bool := listEq a.1 b.1 && listEq a.2 b.2

def expect (w : String) : P Unit := fun ts =>
  match ts with
  | t :: rest => if t = w then some ((), rest) else none
  | [] => none

/-- node count / preorder "at or below display:none" flags, by fuel (the tree is a nested inductive) -/
def countF : Nat → STree F → Nat
  | 0, _ => 1
  | fuel + 1, t => 1 + (t.children.map (countF fuel)).foldl (· + ·) 0

def hiddenF : Nat → Bool → STree F → List Bool
  | 0, above, t => [above || t.style.display == Display.none]
  | fuel + 1, above, t =>
    let h := above || t.style.display == Display.none
    h :: (t.children.map (hiddenF fuel h)).foldl (· ++ ·) []

def treeFuel : Nat := 4096

/-! ### C01 -/

def c01 (ws : List String) : String :=
  match ws with
  | attr :: _stream :: r :: rest =>
    let parsed : Option (STree F × LL × LL) := do
      let _ ← parseBool r
      let (_, ts) ← pAv rest
      let (_, ts) ← pAv ts
      let (_, ts) ← expect "T" ts
      let (tree, ts) ← pTree treeFuel ts
      let (inc, ts) ← pLL ts
      let (fresh, ts) ← pLL ts
      if ts.isEmpty then pure (tree, inc, fresh) else none
    match parsed with
    | none => "parse-error"
    | some (tree, inc, fresh) =>
      let n := countF treeFuel tree
      if inc.1.length == n && inc.2.length == n && llEq inc fresh then "ok" else s!"bad {attr}"
  | _ => "parse-error"

def stepC01 (ws : List String) : String :=
  match ws with
  | "obs" :: "C01" :: rest => c01 rest
  | ["quiet", "C01", k] => s!"ok {k}"
  | ["differs", "C01", _mode, attr] => s!"bad {attr}"
  | "panicked" :: _ => "bad panic"
  | _ => "bad-request"

/-! ### C16 -/

def boundFactor : Nat := 64

def sumNat (l : List Nat) : Nat := l.foldl (· + ·) 0

/-- position (1-based depth) of the first count above 64·(depth+1) -/
def chainBlow : Nat → List Nat → Bool
  | _, [] => false
  | d, c :: cs => c > boundFactor * (d + 1) || chainBlow (d + 1) cs

/-- growth of the leaf's count with the depth of the chain, as opposed to periodic variation along the cycle of level
styles (cycle lengths 1–4, so windows of 12 depths): with ≥ 32 depths the maximum over the last 12 exceeds the maximum
over depths 8–19; with fewer (the pass was cut short) the last count exceeds every earlier one and the one at depth 8 -/
def chainGrows (nd : Nat) (cs : List Nat) : Bool :=
  let maxL (l : List Nat) := l.foldl Nat.max 0
  if nd ≥ 32 then maxL (cs.drop (nd - 12)) > maxL ((cs.drop 7).take 12)
  else nd > 8 && cs.getLast?.getD 0 > cs.getD 7 0 && cs.getLast?.getD 0 > maxL (cs.take (nd - 1))

def c16 (ws : List String) : String :=
  match ws with
  | "mix" :: n :: total :: _misses :: k :: counts =>
    match parseNat n, parseNat total, parseNat k, counts.mapM parseNat with
    | some n, some total, some k, some cs =>
      if cs.length != k || sumNat cs != total then "bad c16-count-mismatch"
      else if total ≤ boundFactor * n then "ok" else "bad c16-measure-blowup"
    | _, _, _, _ => "parse-error"
  | "chain" :: _family :: nd :: counts =>
    match parseNat nd, counts.mapM parseNat with
    | some nd, some cs =>
      if cs.length != nd then "bad c16-count-mismatch"
      else if chainBlow 1 cs then "bad c16-measure-blowup"
      else if chainGrows nd cs then "bad c16-chain-growth"
      else "ok"
    | _, _ => "parse-error"
  | _ => "parse-error"

def stepC16 (ws : List String) : String :=
  match ws with
  | "obs" :: "C16" :: rest => c16 rest
  | "panicked" :: _ => "bad panic"
  | _ => "bad-request"

/-! ### C17 -/

/-- 0 = equal, 1 = only `order` of nodes at or below display:none differs, 2 = anything else -/
def kindList : List Bool → List (Layout F) → List (Layout F) → Nat
  | _, [], [] => 0
  | h :: hs, a :: as, b :: bs =>
    let k := if layoutEq a b then 0 else if h && fields a == fields b then 1 else 2
    Nat.max k (kindList hs as bs)
  | _, _, _ => 2

def kindLL (hid : List Bool) (a b : LL) : Nat := Nat.max (kindList hid a.1 b.1) (kindList hid a.2 b.2)

def pOptSection (tag : String) : P (Option LL) := fun ts =>
  match ts with
  | t :: rest => if t = tag then (pLL rest).map fun (x, ts) => (some x, ts) else some (none, ts)
  | [] => some (none, [])

def c17 (ws : List String) : String :=
  match ws with
  | r :: rest =>
    let parsed : Option (STree F × LL × LL × LL × LL × Option LL × Option LL) := do
      let _ ← parseBool r
      let (_, ts) ← pAv rest
      let (_, ts) ← pAv ts
      let (_, ts) ← expect "T" ts
      let (tree, ts) ← pTree treeFuel ts
      let (tReal, ts) ← pLL ts
      let (vReal, ts) ← pLL ts
      let (_, ts) ← expect "X" ts
      let (tExact, ts) ← pLL ts
      let (vExact, ts) ← pLL ts
      let (free, ts) ← pOptSection "F" ts
      let (quiet, ts) ← pOptSection "Q" ts
      if ts.isEmpty then pure (tree, tReal, vReal, tExact, vExact, free, quiet) else none
    match parsed with
    | none => "parse-error"
    | some (tree, tReal, vReal, tExact, vExact, free, quiet) =>
      let n := countF treeFuel tree
      let hid := hiddenF treeFuel false tree
      let driversOk := tReal.1.length == n && llEq tReal vReal && llEq tExact vExact
      let memoKind := match free with | some f => kindLL hid vExact f | none => 0
      let lossyKind := kindLL hid tReal tExact
      let memoStale := memoKind == 2 && (match quiet, free with | some q, some f => kindLL hid q f < 2 | _, _ => false)
      if !driversOk then "bad c17-drivers-differ"
      else if memoStale then "bad c17-stale-layout-after-compute-size"
      else if memoKind == 2 then "bad c17-exact-memo-differs-from-cache-free"
      else if lossyKind == 2 then "bad c17-lossy-cache-key"
      else if memoKind == 1 || lossyKind == 1 then "bad c17-hidden-child-order"
      else "ok"
  | _ => "parse-error"

/-- relayout stream: `obs C17R n <TaffyTree LL> <low-level driver LL>` after layout · edits · layout -/
def c17r (ws : List String) : String :=
  match ws with
  | n :: rest =>
    let parsed : Option (Nat × LL × LL) := do
      let n ← parseNat n
      let (a, ts) ← pLL rest
      let (b, ts) ← pLL ts
      if ts.isEmpty then pure (n, a, b) else none
    match parsed with
    | none => "parse-error"
    | some (n, a, b) => if a.1.length == n && llEq a b then "ok" else "bad c17-drivers-differ-after-edit"
  | _ => "parse-error"

def stepC17 (ws : List String) : String :=
  match ws with
  | "obs" :: "C17" :: rest => c17 rest
  | "obs" :: "C17R" :: rest => c17r rest
  | ["quiet", "C17", k] => s!"ok {k}"
  | ["panicked", "C17", "1"] => "ok panic"
  | "panicked" :: _ => "bad c17-drivers-differ"
  | _ => "bad-request"

def handlerC01 : Handler := { σ := Unit, init := (), step := fun s ws => (s, stepC01 ws) }
/-- C16 also replays, on the cache model, the queries a pass made of each node's cache (`cache new|get|store …`, the
C02 protocol): a lookup the implementation misses and the model hits (or the reverse) is a difference -/
def handlerC16 : Handler :=
  { σ := DrvC02.St, init := DrvC02.init,
    step := fun s ws =>
      match ws with
      | "cache" :: rest => DrvC02.step s rest
      -- cost tie: the evaluator's predicted number of body evaluations per node of a fresh pass
      | "evalgcost" :: _ => (s, (DrvEVAL.step () ws).2)
      | _ => (s, stepC16 ws) }
def handlerC17 : Handler := { σ := Unit, init := (), step := fun s ws => (s, stepC17 ws) }

end DrvHist
