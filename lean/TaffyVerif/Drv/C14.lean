/-
  C14 driver: the TaffyTree structural model, one request per line. Ids are `idx.version`; id lists are
  comma-separated, `-` = empty list / None.
    stream <label>                       -> ok            (label `main*` = precondition-respecting; monitor applies)
    new_leaf | new_leaf_ctx X | new_with_children L        -> ok ID | panic
    clear                                                  -> ok
    remove N | remove_child P C | remove_child_at P I | replace_child P I C   -> ok ID | err P I COUNT | panic
    add_child P C | insert_child P I C | set_children P L | remove_range P A B | set_ctx N X|-  -> ok | err .. | panic
    child_at P I | count | child_count P | children P | parent N | get_ctx N
    dump ID* (live ids) | dumpdead ID* (removed ids)  -> `n=<total_node_count> | <id> p=.. c=.. k=.. a=.. x=.. | ...` for the listed ids (panicking observer = `!`)
  Monitor (`mon <request> => <implementation answer>`): the reference spec `ForestSpec` runs alongside, fed with the
  ids the implementation returned; every answer and every dump of the implementation is compared with the spec, and
  created ids must never have been seen before.
-/
import TaffyVerif.Drv.Common
import TaffyVerif.Model.Tree
import TaffyVerif.Model.Forest

namespace DrvC14
open Proto Drv SlotMapModel TreeModel ForestSpec

def showId (k : Id) : String := toString k.idx ++ "." ++ toString k.version

/-- `NodeId -> DefaultKey` is `KeyData::from_ffi`: the version is forced odd -/
def parseId (s : String) : Option Id :=
  match s.splitOn "." with
  | [a, b] => do
    let i ← a.toNat?
    let v ← b.toNat?
    pure ⟨i, orOne v⟩
  | _ => none

def showIds (l : List Id) : String := if l.isEmpty then "-" else String.intercalate "," (l.map showId)

def parseIds (s : String) : Option (List Id) :=
  if s = "-" then some [] else (s.splitOn ",").mapM parseId

def showOptNat : Option Nat → String
  | none => "-"
  | some n => toString n

def parseOptNat (s : String) : Option (Option Nat) :=
  if s = "-" then some none else s.toNat?.map some

def showVal : Val → String
  | .unit => ""
  | .id n => " " ++ showId n
  | .ids l => " " ++ showIds l
  | .optId none => " -"
  | .optId (some n) => " " ++ showId n
  | .nat n => " " ++ toString n
  | .optNat o => " " ++ showOptNat o

def showOut : Out → String
  | .ok v => "ok" ++ showVal v
  | .err (.childIndexOutOfBounds p i c) => "err " ++ showId p ++ " " ++ toString i ++ " " ++ toString c
  | .panic => "panic"

def parseOp (ws : List String) : Option Op :=
  match ws with
  | ["new_leaf"] => some .newLeaf
  | ["new_leaf_ctx", x] => x.toNat?.map .newLeafWithContext
  | ["new_with_children", l] => (parseIds l).map .newWithChildren
  | ["clear"] => some .clear
  | ["remove", n] => (parseId n).map .remove
  | ["set_ctx", n, x] => do let n ← parseId n; let x ← parseOptNat x; pure (.setNodeContext n x)
  | ["get_ctx", n] => (parseId n).map .getNodeContext
  | ["add_child", p, c] => do let p ← parseId p; let c ← parseId c; pure (.addChild p c)
  | ["insert_child", p, i, c] => do let p ← parseId p; let i ← i.toNat?; let c ← parseId c; pure (.insertChildAtIndex p i c)
  | ["set_children", p, l] => do let p ← parseId p; let l ← parseIds l; pure (.setChildren p l)
  | ["remove_child", p, c] => do let p ← parseId p; let c ← parseId c; pure (.removeChild p c)
  | ["remove_child_at", p, i] => do let p ← parseId p; let i ← i.toNat?; pure (.removeChildAtIndex p i)
  | ["remove_range", p, a, b] => do let p ← parseId p; let a ← a.toNat?; let b ← b.toNat?; pure (.removeChildrenRange p a b)
  | ["replace_child", p, i, c] => do let p ← parseId p; let i ← i.toNat?; let c ← parseId c; pure (.replaceChildAtIndex p i c)
  | ["child_at", p, i] => do let p ← parseId p; let i ← i.toNat?; pure (.childAtIndex p i)
  | ["count"] => some .totalNodeCount
  | ["child_count", p] => (parseId p).map .childCount
  | ["children", p] => (parseId p).map .children
  | ["parent", n] => (parseId n).map .parent
  | _ => none

/-- one observer's answer inside a dump: the value without the `ok ` prefix, `!` for a panic -/
def obsStr (o : Out) : String :=
  match o with
  | .ok v => (showVal v).drop 1 |>.toString
  | .err (.childIndexOutOfBounds _ i c) => "E" ++ toString i ++ "/" ++ toString c
  | .panic => "!"

/-- child_at_index for every index 0..=len (the last one is the error path) -/
def childAtAll (obs : Op → Out) (p : Id) (len : Nat) : String :=
  String.intercalate "," ((List.range (len + 1)).map fun i => obsStr (obs (.childAtIndex p i)))

def dumpNode (obs : Op → Out) (n : Id) : String :=
  let c := obs (.children n)
  let a := match c with
    | .ok (.ids l) => childAtAll obs n l.length
    | _ => obsStr (obs (.childAtIndex n 0))
  showId n ++ " p=" ++ obsStr (obs (.parent n)) ++ " c=" ++ obsStr c ++ " k=" ++ obsStr (obs (.childCount n)) ++ " a=" ++ a

def dump (obs : Op → Out) (withCtx : Bool) (ids : List Id) : String :=
  String.intercalate " | " (("n=" ++ obsStr (obs .totalNodeCount)) ::
    ids.map fun n => dumpNode obs n ++ (if withCtx then " x=" ++ obsStr (obs (.getNodeContext n)) else ""))

/-- drop the ` x=..` fields of an implementation dump (contexts are not part of the structural spec) -/
def stripCtx (ws : List String) : List String := ws.filter (fun w => !w.startsWith "x=")

structure St where
  tree : Tree
  /-- monitor -/
  spec : Forest
  seen : List Id
  monitored : Bool

def init : St := { tree := Tree.new, spec := Forest.empty, seen := [], monitored := false }

def isCreate : Op → Bool
  | .newLeaf | .newLeafWithContext _ | .newWithChildren _ => true
  | _ => false

def monOp (st : St) (op : Op) (ans : List String) : St × String :=
  if !st.monitored then (st, "ok unmonitored") else
  if !specPre st.spec op then (st, "harness-pre-violated") else
  match op with
  | .getNodeContext _ => (st, "ok")
  | _ =>
  if isCreate op then
    match ans with
    | ["ok", ids] =>
      match parseId ids with
      | some id =>
        if st.seen.contains id then (st, "id-reused " ++ showId id)
        else if id.version % 2 = 0 then (st, "even-version " ++ showId id)
        else ({ st with spec := (specStep st.spec id op).1, seen := id :: st.seen }, "ok")
      | none => (st, "bad-answer")
    | _ => (st, "create-failed " ++ String.intercalate " " ans)
  else
    let (f, out) := specStep st.spec ⟨0, 0⟩ op
    let want := showOut out
    let got := String.intercalate " " ans
    if want = got then ({ st with spec := f }, "ok")
    else (st, "answer-differs-from-spec want=" ++ want.replace " " "_")

def step (st : St) (ws : List String) : St × String :=
  match ws with
  | ["stream", label] => ({ st with monitored := label.startsWith "main" }, "ok")
  | "dump" :: ids | "dumpdead" :: ids =>
    match ids.mapM parseId with
    | some ids => (st, dump (fun op => (TreeModel.step st.tree op).2) true ids)
    | none => (st, "bad-op")
  | "mon" :: "dumpdead" :: _ => (st, "ok unmonitored")
  | "mon" :: "stream" :: label :: _ => ({ st with monitored := label.startsWith "main" }, "ok")
  | "mon" :: "dump" :: rest =>
    if !st.monitored then (st, "ok unmonitored") else
    let ids := rest.takeWhile (· ≠ "=>")
    let ans := (rest.dropWhile (· ≠ "=>")).drop 1
    match ids.mapM parseId with
    | some ids =>
      -- the harness lists exactly the nodes it believes live (dead ids go to `dumpdead`)
      if ids.any (fun n => !st.spec.isLive n) || ids.length != st.spec.live.length then (st, "live-set-differs-from-spec")
      else
        let want := dump (fun op => (specStep st.spec ⟨0, 0⟩ op).2) false ids
        let got := String.intercalate " " (stripCtx ans)
        (st, if want = got then "ok" else "dump-differs-from-spec want=" ++ want.replace " " "_")
    | none => (st, "bad-op")
  | "mon" :: rest =>
    let req := rest.takeWhile (· ≠ "=>")
    let ans := (rest.dropWhile (· ≠ "=>")).drop 1
    match parseOp req with
    | some op => monOp st op ans
    | none => (st, "bad-op")
  | _ =>
    match parseOp ws with
    | some op =>
      let (t, out) := TreeModel.step st.tree op
      ({ st with tree := t }, showOut out)
    | none => (st, "bad-op")

def handler : Handler := { σ := St, init := init, step := step }

end DrvC14
