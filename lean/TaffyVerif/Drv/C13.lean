/-
  C13 driver: `round_layout` and the rounding part of the `TaffyTree` state machine at Float32.

  Requests (one per line):
    new                      fresh tree (use_rounding = true, all layouts `Layout::new()`)
    compute <tree>           `compute_layout`; <tree> = the unrounded layouts the implementation's layout pass produced,
                             prefix-serialised, per node
                               order x y w h cw ch sbw sbh  bl br bt bb  pl pr pt pb  ml mr mt mb  nchildren
                             answer: `layout()` of every node in preorder (21 tokens per node, bit-exact)
    enable | disable         `enable_rounding` / `disable_rounding`                      answer: ok
    layout                   `layout()` of every node in preorder
    unrounded                `unrounded_layout()` of every node in preorder
  Monitor (`mon <request> => <implementation answer>`): with rounding on, every rounded field of the implementation's
  answer is an integer, every rounded extent is within one pixel of the unrounded one (exact rational arithmetic on the
  implementation's own numbers), and for every node whose proper ancestors have integral unrounded location on an axis
  and whose near edge is not at a half pixel, near and far absolute rounded edges equal `round` of the absolute
  unrounded edges.
-/
import TaffyVerif.Drv.Common
import TaffyVerif.Model.Round

namespace DrvC13
open Proto Drv RoundModel

abbrev F := Float32

/-! ### parsing / printing -/

def parseLayoutG {β : Type} (pf : String → Option β) (ws : List String) : Option (Layout β × Nat × List String) :=
  match ws with
  | o :: x :: y :: w :: h :: cw :: ch :: sw :: sh :: bl :: br :: bt :: bb :: pl :: pr :: pt :: pb :: ml :: mr :: mt :: mb :: n :: rest => do
    let o ← parseNat o
    let x ← pf x; let y ← pf y; let w ← pf w; let h ← pf h
    let cw ← pf cw; let ch ← pf ch; let sw ← pf sw; let sh ← pf sh
    let bl ← pf bl; let br ← pf br; let bt ← pf bt; let bb ← pf bb
    let pl ← pf pl; let pr ← pf pr; let pt ← pf pt; let pb ← pf pb
    let ml ← pf ml; let mr ← pf mr; let mt ← pf mt; let mb ← pf mb
    let n ← parseNat n
    pure ({ order := o, location := ⟨x, y⟩, size := ⟨w, h⟩, contentSize := ⟨cw, ch⟩, scrollbarSize := ⟨sw, sh⟩,
            border := ⟨bl, br, bt, bb⟩, padding := ⟨pl, pr, pt, pb⟩, margin := ⟨ml, mr, mt, mb⟩ }, n, rest)
  | _ => none

mutual
def parseTreeG {β : Type} (pf : String → Option β) : Nat → List String → Option (LTree β × List String)
  | 0, _ => none
  | fuel + 1, ws =>
    match parseLayoutG pf ws with
    | some (l, n, rest) =>
      match parseForestG pf fuel n rest with
      | some (cs, rest) => some (.node l cs, rest)
      | none => none
    | none => none
def parseForestG {β : Type} (pf : String → Option β) : Nat → Nat → List String → Option (List (LTree β) × List String)
  | _, 0, ws => some ([], ws)
  | 0, _ + 1, _ => none
  | fuel + 1, n + 1, ws =>
    match parseTreeG pf fuel ws with
    | some (c, rest) =>
      match parseForestG pf fuel n rest with
      | some (cs, rest) => some (c :: cs, rest)
      | none => none
    | none => none
end

/-- a whole line must be exactly one tree -/
def parseWhole {β : Type} (pf : String → Option β) (ws : List String) : Option (LTree β) :=
  match parseTreeG pf (ws.length + 1) ws with
  | some (t, []) => some t
  | _ => none

/-- 21 tokens per layout (no child count) -/
def parseAnswerG {β : Type} (pf : String → Option β) : Nat → List String → Option (List (Layout β))
  | _, [] => some []
  | 0, _ => none
  | fuel + 1, ws =>
    -- reuse the node parser by supplying a dummy child count after the 21 layout tokens
    match parseLayoutG pf (ws.take 21 ++ ["0"]) with
    | some (l, _, _) => (parseAnswerG pf fuel (ws.drop 21)).map (l :: ·)
    | none => none

def showLayout (l : Layout F) : String :=
  String.intercalate " " (toString l.order :: [l.location.x, l.location.y, l.size.width, l.size.height,
    l.contentSize.width, l.contentSize.height, l.scrollbarSize.width, l.scrollbarSize.height,
    l.border.left, l.border.right, l.border.top, l.border.bottom,
    l.padding.left, l.padding.right, l.padding.top, l.padding.bottom,
    l.margin.left, l.margin.right, l.margin.top, l.margin.bottom].map showF32)

def showTree (t : LTree F) : String := String.intercalate " " (t.flatten.map showLayout)

/-! ### model state -/

structure St where
  /-- `none` until the first `compute` tells the shape -/
  model : Option (TreeState F)
  /-- flag before the shape is known -/
  flag : Bool
  /-- monitor: the flag as driven by the `mon` lines -/
  monFlag : Bool

def init : St := { model := none, flag := true, monFlag := true }

/-! ### monitor (exact rationals) -/

mutual
/-- same shape as the first tree, layouts taken from the list in preorder -/
def refill {β γ : Type} : LTree β → List (Layout γ) → Option (LTree γ × List (Layout γ))
  | .node _ cs, ls =>
    match ls with
    | [] => none
    | l :: ls =>
      match refillForest cs ls with
      | some (cs', rest) => some (.node l cs', rest)
      | none => none
def refillForest {β γ : Type} : List (LTree β) → List (Layout γ) → Option (List (LTree γ) × List (Layout γ))
  | [], ls => some ([], ls)
  | c :: cs, ls =>
    match refill c ls with
    | some (c', rest) =>
      match refillForest cs rest with
      | some (cs', rest) => some (c' :: cs', rest)
      | none => none
    | none => none
end

def isInt (q : Rat) : Bool := q.den == 1
def isHalf (q : Rat) : Bool := q.den == 2
def rabs (q : Rat) : Rat := if q < 0 then -q else q
def within1 (r u : Rat) : Bool := decide (rabs (r - u) ≤ 1)

/-- per-node checks that do not depend on the position in the tree -/
def nodeChecks (u r : Layout Rat) : List String :=
  let ints := [r.location.x, r.location.y, r.size.width, r.size.height, r.contentSize.width, r.contentSize.height,
    r.scrollbarSize.width, r.scrollbarSize.height, r.border.left, r.border.right, r.border.top, r.border.bottom,
    r.padding.left, r.padding.right, r.padding.top, r.padding.bottom]
  let pairs := [(r.location.x, u.location.x), (r.location.y, u.location.y),
    (r.size.width, u.size.width), (r.size.height, u.size.height),
    (r.contentSize.width, u.contentSize.width), (r.contentSize.height, u.contentSize.height),
    (r.scrollbarSize.width, u.scrollbarSize.width), (r.scrollbarSize.height, u.scrollbarSize.height),
    (r.border.left, u.border.left), (r.border.right, u.border.right), (r.border.top, u.border.top), (r.border.bottom, u.border.bottom),
    (r.padding.left, u.padding.left), (r.padding.right, u.padding.right), (r.padding.top, u.padding.top), (r.padding.bottom, u.padding.bottom)]
  (if ints.all isInt then [] else ["not-integral"]) ++
  (if pairs.all (fun (a, b) => within1 a b) then [] else ["more-than-one-pixel"]) ++
  (if r.order == u.order && r.margin == u.margin then [] else ["order-or-margin-changed"])

/-- `r = round e'` for some `e'` within `tol` of `e` (`round` is monotone, so the two ends decide) -/
def roundWithin (tol e r : Rat) : Bool :=
  decide (RatNum.round (e - tol) ≤ r) && decide (r ≤ RatNum.round (e + tol))

/-- distance to the nearest `n + 1/2` -/
def distToHalf (q : Rat) : Rat := rabs (q - ((q.floor : Int) : Rat) - 1 / 2)

/-- relative 2^-18 of the coordinate's magnitude (DESIGN §3), at least 2^-18 -/
def tolOf (e : Rat) : Rat := (if rabs e < 1 then 1 else rabs e) / 262144

/--
  Conclusion of `edge_commutes` on one axis. `aU`/`aR` = sum of the proper ancestors' unrounded / rounded locations.
  `exact` = every number of the request is a small dyadic, so every f32 addition on the path is exact and the
  conclusion must hold with zero tolerance; otherwise a failure of the exact equation is retried with the f32 tolerance
  and reported as `f32tol-…` (a note, not a failure) when it then holds.
-/
def edgeCheck (exact : Bool) (ax : Axis) (ancInt : Bool) (aU aR : Rat) (u r : Layout Rat) : List String :=
  let near := aU + u.loc ax
  let far := near + u.ext ax
  -- in f32 a near edge closer to a half pixel than the tolerance may *be* on the half pixel once `cumulative + location`
  -- is rounded to f32; the hypothesis "not on a half pixel" is evaluated with the same tolerance as the conclusion
  let nearHalf := isHalf near || (!exact && decide (distToHalf near < tolOf near))
  if ancInt && !nearHalf then
    (if aR + r.loc ax == RatNum.round near then []
     else if !exact && roundWithin (tolOf near) near (aR + r.loc ax) then ["f32tol-near"]
     else ["near-edge-not-round"]) ++
    (if aR + r.loc ax + r.ext ax == RatNum.round far then []
     else if !exact && roundWithin (tolOf far) far (aR + r.loc ax + r.ext ax) then ["f32tol-far"]
     else ["far-edge-not-round"])
  else []

/-- |q| < 4096 with at most 10 fractional bits: sums of two such numbers are exact in f32 -/
def smallDyadic (q : Rat) : Bool :=
  decide (rabs q < 4096) && (1024 % q.den == 0)

def layoutSmallDyadic (l : Layout Rat) : Bool :=
  [l.location.x, l.location.y, l.size.width, l.size.height, l.contentSize.width, l.contentSize.height,
   l.border.left, l.border.right, l.border.top, l.border.bottom,
   l.padding.left, l.padding.right, l.padding.top, l.padding.bottom].all smallDyadic

mutual
def monWalk (exact : Bool) : LTree Rat → LTree Rat → Bool → Bool → Rat → Rat → Rat → Rat → List String
  | .node u us, .node r rs, ix, iy, aUx, aUy, aRx, aRy =>
    nodeChecks u r ++ edgeCheck exact .x ix aUx aRx u r ++ edgeCheck exact .y iy aUy aRy u r ++
    monWalkForest exact us rs (ix && isInt u.location.x) (iy && isInt u.location.y)
      (aUx + u.location.x) (aUy + u.location.y) (aRx + r.location.x) (aRy + r.location.y)
def monWalkForest (exact : Bool) : List (LTree Rat) → List (LTree Rat) → Bool → Bool → Rat → Rat → Rat → Rat → List String
  | u :: us, r :: rs, ix, iy, a, b, c, d => monWalk exact u r ix iy a b c d ++ monWalkForest exact us rs ix iy a b c d
  | [], [], _, _, _, _, _, _ => []
  | _, _, _, _, _, _, _, _ => ["shape"]
end

def monCompute (flag : Bool) (treeWs ansWs : List String) : String :=
  match parseWhole parseRat treeWs, parseAnswerG parseRat (ansWs.length + 1) ansWs with
  | some u, some ls =>
    if !flag then
      -- rounding off: layout() must be the unrounded layout itself
      if treeWs.length == ansWs.length + u.size then
        (if (u.flatten.length == ls.length) then "ok" else "shape")
      else "shape"
    else
      match refill u ls with
      | some (r, []) =>
        let exact := u.flatten.all layoutSmallDyadic
        let msgs := monWalk exact u r true true 0 0 0 0
        match msgs.filter (fun m => !m.startsWith "f32tol-") with
        | [] => if msgs.isEmpty then (if exact then "ok exact" else "ok") else "ok " ++ String.intercalate "," msgs.eraseDups
        | e :: _ => e
      | _ => "shape"
  | _, _ => "non-finite-or-bad"

/-! ### step -/

def step (st : St) (ws : List String) : St × String :=
  match ws with
  | ["new"] => ({ init with monFlag := st.monFlag }, "ok")
  | "compute" :: rest =>
    match parseWhole parseF32 rest with
    | some u =>
      let s0 : TreeState F := match st.model with
        | some s => s
        | none => { TreeState.fresh u with useRounding := st.flag }
      let s1 := RoundModel.step s0 (.compute u)
      ({ st with model := some s1 }, showTree s1.layout)
    | none => (st, "bad-op")
  | "roundtree" :: rest =>
    -- direct stream: `round_layout` applied to an arbitrary tree of unrounded layouts (no history, no monitor:
    -- at magnitudes ≥ 2^23 the f32 sums themselves are inexact, so only model/implementation agreement is asked)
    match parseWhole parseF32 rest with
    | some u => (st, showTree (RoundModel.roundLayout u))
    | none => (st, "bad-op")
  | "mon" :: "roundtree" :: _ => (st, "ok")
  | ["enable"] =>
    ({ st with flag := true, model := st.model.map (RoundModel.step · .enableRounding) }, "ok")
  | ["disable"] =>
    ({ st with flag := false, model := st.model.map (RoundModel.step · .disableRounding) }, "ok")
  | ["layout"] =>
    match st.model with
    | some s => (st, showTree s.layout)
    | none => (st, "bad-op")
  | ["unrounded"] =>
    match st.model with
    | some s => (st, showTree s.unrounded)
    | none => (st, "bad-op")
  | "mon" :: "new" :: _ => ({ st with monFlag := true }, "ok")
  | "mon" :: "enable" :: _ => ({ st with monFlag := true }, "ok")
  | "mon" :: "disable" :: _ => ({ st with monFlag := false }, "ok")
  | "mon" :: "layout" :: _ => (st, "ok")
  | "mon" :: "unrounded" :: _ => (st, "ok")
  | "mon" :: "compute" :: rest =>
    let treeWs := rest.takeWhile (· ≠ "=>")
    let ansWs := (rest.dropWhile (· ≠ "=>")).drop 1
    (st, monCompute st.monFlag treeWs ansWs)
  | _ => (st, "bad-op")

def handler : Handler := { σ := St, init := init, step := step }

end DrvC13
