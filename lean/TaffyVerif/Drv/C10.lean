/-
  C10 driver: `BlockModel.computeBlockLayout` at Float32, one recorded invocation of the real `compute_block_layout`
  per request line (written by harness/src/c10.rs):

    block <11 input tokens> <46 container style tokens> <n> <n × 46 child style tokens>
          <m> <m × (child, 11 input tokens, 11 output tokens)>

  The m recorded child queries are the oracle: the model's i-th query must be the i-th recorded one (same child, same
  `LayoutInput`, compared after −0.0 → +0.0), and every recorded query must be consumed.  Answer:

    <11 output tokens> | <k> <k × (child, 21 layout tokens)> | q ok

  `mon block … => <implementation answer>`: the three clauses of the property and `CollapseSound`, evaluated on the
  implementation's own layouts.

  `c10tree …` / `mon c10tree … => ok`: the tree-level stream, see Drv/C10Tree.lean.
-/
import TaffyVerif.Drv.StyleParse
import TaffyVerif.Model.Block
import TaffyVerif.Drv.C10Tree

namespace DrvC10
open Proto Drv BlockModel

abbrev F := Float32

def pRunMode : P RunMode := pMap tok parseMode
def pSizingMode : P SizingMode := pMap tok fun s =>
  if s = "I" then some .inherentSize else if s = "C" then some .contentSize else none
def pAxis : P RequestedAxis := pMap tok fun s =>
  if s = "h" then some .horizontal else if s = "v" then some .vertical else if s = "b" then some .both else none

def pInput : P (LayoutInput F) := fun ts => do
  let (m, ts) ← pRunMode ts
  let (sm, ts) ← pSizingMode ts
  let (ax, ts) ← pAxis ts
  let (kd, ts) ← pSize pOptF32 ts
  let (ps, ts) ← pSize pOptF32 ts
  let (av, ts) ← pSize pAv ts
  let (vs, ts) ← pBool ts
  let (ve, ts) ← pBool ts
  pure ({ runMode := m, sizingMode := sm, axis := ax, knownDimensions := kd, parentSize := ps, availableSpace := av,
          verticalMarginsAreCollapsible := ⟨vs, ve⟩ }, ts)

def showAvz : AvailableSpace F → String
  | .minContent => "min"
  | .maxContent => "max"
  | .definite v => "d:" ++ showF32z v

def showInput (i : LayoutInput F) : String :=
  String.intercalate " " [
    (match i.runMode with | .performLayout => "L" | .computeSize => "S" | .performHiddenLayout => "H"),
    (match i.sizingMode with | .inherentSize => "I" | .contentSize => "C"),
    (match i.axis with | .horizontal => "h" | .vertical => "v" | .both => "b"),
    showOptF32z i.knownDimensions.width, showOptF32z i.knownDimensions.height,
    showOptF32z i.parentSize.width, showOptF32z i.parentSize.height,
    showAvz i.availableSpace.width, showAvz i.availableSpace.height,
    showBool i.verticalMarginsAreCollapsible.start, showBool i.verticalMarginsAreCollapsible.end]

def pOutput : P (LayoutOutput F) := fun ts =>
  if ts.length < 11 then none else (parseOutput (ts.take 11)).map fun o => (o, ts.drop 11)

def pMany {β : Type} (p : P β) : Nat → P (List β)
  | 0 => fun ts => some ([], ts)
  | n + 1 => fun ts => do
    let (b, ts) ← p ts
    let (bs, ts) ← pMany p n ts
    pure (b :: bs, ts)

abbrev Query := Nat × LayoutInput F × LayoutOutput F

def pQuery : P Query := fun ts => do
  let (c, ts) ← pNat ts
  let (i, ts) ← pInput ts
  let (o, ts) ← pOutput ts
  pure ((c, i, o), ts)

structure Request where
  input : LayoutInput F
  style : Style F
  children : List (Style F)
  queries : List Query

def pRequest : P Request := fun ts => do
  let (input, ts) ← pInput ts
  let (style, ts) ← pStyle ts
  let (n, ts) ← pNat ts
  let (children, ts) ← pMany pStyle n ts
  let (m, ts) ← pNat ts
  let (queries, ts) ← pMany pQuery m ts
  pure ({ input, style, children, queries }, ts)

/-- replay oracle: the recorded queries still to be consumed, and the first mismatch -/
structure OSt where
  rest : List Query
  err : Option String

def oracle (s : OSt) (c : Nat) (i : LayoutInput F) : LayoutOutput F × OSt :=
  match s.err with
  | some _ => (LayoutOutput.hidden, s)
  | none =>
    match s.rest with
    | [] => (LayoutOutput.hidden, { s with err := some s!"extra-query child {c} {showInput i}" })
    | (c', i', o) :: rest =>
      if c' == c && showInput i' == showInput i then (o, { rest, err := none })
      else (LayoutOutput.hidden, { s with err := some s!"query-mismatch model: child {c} {showInput i} recorded: child {c'} {showInput i'}" })

def showSets (ls : List (Nat × Layout F)) : String :=
  String.intercalate " " (toString ls.length :: ls.map fun (c, l) => toString c ++ " " ++ showLayout l)

def answer (r : Request) : String :=
  let (out, st, sets) := runProg oracle (computeBlockLayout r.style r.children r.input) { rest := r.queries, err := none }
  let q := match st.err with
    | some e => e
    | none => if st.rest.isEmpty then "ok" else s!"unused-queries {st.rest.length}"
  showOutput out showF32z ++ " | " ++ showSets sets ++ " | q " ++ q

/-! ### property monitor -/

def toRat (x : F) : Rat := (f32BitsToRat x.toBits.toNat).getD 0

/-- parse `<11 output tokens> | k <k × (child, layout)> | q ok` -/
def pAnswer : P (LayoutOutput F × List (Nat × Layout F)) := fun ts => do
  let (o, ts) ← pOutput ts
  let (_, ts) ← tok ts
  let (k, ts) ← pNat ts
  let (ls, ts) ← pMany (fun ts => do let (c, ts) ← pNat ts; let (l, ts) ← pLayout ts; pure ((c, l), ts)) k ts
  pure ((o, ls), ts)

/-- in-flow child seen by the monitor: style-derived item, final-pass query, layout set by the implementation -/
structure Obs where
  item : BlockItem F
  input : LayoutInput F
  out : LayoutOutput F
  layout : Layout F
deriving Inhabited

def lastQuery (qs : List Query) (c : Nat) : Option (LayoutInput F × LayoutOutput F) :=
  (qs.filter fun q => q.1 == c).getLast?.map fun q => (q.2.1, q.2.2)

def lastSet (ls : List (Nat × Layout F)) (c : Nat) : Option (Layout F) :=
  (ls.filter fun q => q.1 == c).getLast?.map (·.2)

def nonNegSet (s : MarginSet F) : Bool := toRat s.negative == 0 && toRat s.positive ≥ 0

def unionAll (sets : List (MarginSet F)) : MarginSet F :=
  sets.foldl (fun a b => a.collapseWithSet b) MarginSet.zero

/-- tolerance for identities that are exact over ℚ: 2^-18 of the magnitudes involved -/
def tol (xs : List Rat) : Rat := (xs.foldl (fun a x => a + (if x < 0 then -x else x)) 1) / 262144

def monitor (r : Request) (out : LayoutOutput F) (sets : List (Nat × Layout F)) : String := Id.run do
  -- the container short-circuited (ComputeSize with both dimensions known): nothing was laid out
  if sets.isEmpty && r.queries.isEmpty then return "ok"
  let kd := styledBasedKnownDimensions r.style r.input
  let inputs := { r.input with knownDimensions := kd }
  let ic := innerCtx r.style inputs
  let outerW := out.size.width
  let fc : FlowCtx F := flowCtxOf r.style ic outerW
  let items := (generateItemList r.children ic.containerContentBoxSize).filter fun it => it.position != .absolute
  let mut obs : Array Obs := #[]
  for it in items do
    match lastQuery r.queries it.nodeIdx, lastSet sets it.nodeIdx with
    | some (i, o), some l => obs := obs.push { item := it, input := i, out := o, layout := l }
    | _, _ => return "ok"   -- the pass was cut short (ComputeSize): nothing to judge
  -- CollapseSound of every in-flow child, as reported to this container
  for o in obs do
    if o.out.marginsCanCollapseThrough && toRat o.out.size.height != 0 then
      return s!"child-collapse-unsound child {o.item.nodeIdx} height {o.out.size.height}"
  -- CollapseSound of the container itself (`block_collapse_sound`)
  if out.marginsCanCollapseThrough && toRat out.size.height != 0 then
    return s!"collapse-unsound height {out.size.height}"
  -- a block may only report collapse-through if every in-flow child did (CSS 2.1 §8.3.1: its margins adjoin only through
  -- children whose own margins adjoin); a zero-height flex/grid/scroll child never reports it
  if out.marginsCanCollapseThrough && inputs.runMode == .performLayout then
    for o in obs do
      if !o.out.marginsCanCollapseThrough then
        return s!"collapse-through-over-solid-child child {o.item.nodeIdx}"
  -- stretch-fit width
  for o in obs do
    let it := o.item
    let m := itemMargin fc it
    let cs := (r.children[it.nodeIdx]?).getD Style.default
    if !it.isTable && cs.size.width.isAuto && cs.minSize.width.isAuto && cs.maxSize.width.isAuto
        && cs.aspectRatio.isNone && m.left.isSome && m.right.isSome then
      let want := fc.containerInnerWidth - itemNonAutoXMarginSum fc it
      match o.input.knownDimensions.width with
      | some kw =>
        if showF32z kw != showF32z want then return s!"stretch-known-width child {it.nodeIdx}"
        -- the child's own padding + border (it resolves them against the container's outer width)
        match r.children[it.nodeIdx]? with
        | some cs =>
          let pb := ((Resolve.rectLPOrZero cs.padding (some outerW)).add (Resolve.rectLPOrZero cs.border (some outerW))).horizontalAxisSum
          if toRat kw ≥ toRat pb && showF32z o.layout.size.width != showF32z kw then
            return s!"stretch-width child {it.nodeIdx} got {o.layout.size.width} want {kw}"
        | none => pure ()
      | none => return s!"stretch-known-width child {it.nodeIdx} none"
  -- order / no overlap (non-negative margins everywhere) and the collapsed gap
  let yOf (o : Obs) : Rat := toRat o.layout.location.y - toRat (insetOffsetY o.item)
  let hOf (o : Obs) : Rat := toRat o.layout.size.height
  let allNonNeg := obs.all fun o =>
    nonNegSet (topMarginSet fc o.item o.out) && nonNegSet (bottomMarginSet fc o.item o.out)
  let n := obs.size
  if allNonNeg then
    for i in [0:n-1] do
      let a := obs[i]!; let b := obs[i+1]!
      if yOf b + tol [yOf a, hOf a, yOf b] < yOf a + hOf a then
        return s!"overlap children {a.item.nodeIdx} {b.item.nodeIdx}"
  -- gap between consecutive not-collapsed-through siblings, through any collapsed-through boxes in between
  let mut prev : Option (Obs × List (MarginSet F)) := none
  for o in obs do
    let top := topMarginSet fc o.item o.out
    let bottom := bottomMarginSet fc o.item o.out
    if o.out.marginsCanCollapseThrough then
      prev := prev.map fun (a, ss) => (a, ss ++ [top, bottom])
    else
      match prev with
      | some (a, ss) =>
        let u := unionAll (ss ++ [top])
        let want := toRat u.positive + toRat u.negative
        let gap := yOf o - (yOf a + hOf a)
        let d := gap - want
        if (if d < 0 then -d else d) > tol [yOf a, hOf a, yOf o, toRat u.positive, toRat u.negative] then
          return s!"sibling-gap children {a.item.nodeIdx} {o.item.nodeIdx}"
      | none => pure ()
      prev := some (o, [bottom])
  return "ok"

def step (_ : Unit) (ws : List String) : Unit × String :=
  match ws with
  | "block" :: rest =>
    match pRequest rest with
    | some (r, []) => ((), answer r)
    | _ => ((), "bad-op")
  | "mon" :: "block" :: rest =>
    let req := rest.takeWhile (· ≠ "=>")
    let ans := (rest.dropWhile (· ≠ "=>")).drop 1
    match pRequest req, pAnswer ans with
    | some (r, []), some ((o, ls), _) => ((), monitor r o ls)
    | _, _ => ((), "bad-op")
  -- tree-level stream (Drv/C10Tree.lean): whole trees against Spec/MarginCollapse.lean
  | "c10tree" :: rest => ((), DrvC10Tree.tie rest)
  | "mon" :: "c10tree" :: rest => ((), DrvC10Tree.monitor (rest.takeWhile (· ≠ "=>")))
  | _ => ((), "bad-op")

def handler : Handler := { σ := Unit, init := (), step := step }

end DrvC10
