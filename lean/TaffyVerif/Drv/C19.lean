/-
  C19 driver.  Requests (every f32 as 8 hex digits, `-` = None):
    leaf <46 style tokens> <ctx> <avail w> <avail h>
        → `<21 layout tokens> calls <n> {<kd w> <kd h> <av w> <av h>}*`   (the root's unrounded layout + measure calls)
    leafraw <46 style tokens> <ctx> <mode L|S|H> <sizing C|I> <axis h|v|b> <kd w> <kd h> <parent w> <parent h>
            <avail w> <avail h> <collapsible start> <collapsible end>
        → `<11 output tokens> calls <n> {…}*` | `panic`                     (`compute_leaf_layout` driven directly)
    dispatch <hidden-parent 0|1> <display> <nchildren>
        → `1` if the measure closure is invoked for the node, else `0`
  Monitor (`mon leaf … => <implementation answer>`): the right-hand side of `C19.leaf_root_spec` (`Spec.leafBox`,
  evaluated exactly over the rationals) against the implementation's own answer, plus `measure_args`.
-/
import TaffyVerif.Drv.TreeParse
import TaffyVerif.Model.Root
import TaffyVerif.Spec.LeafBox

namespace DrvC19
open Proto Drv LeafModel RootModel

abbrev F := Float32

def showAvz : AvailableSpace F → String
  | .minContent => "min"
  | .maxContent => "max"
  | .definite v => "d:" ++ showF32z v

def showCalls (calls : List (MeasureCall F)) : String :=
  String.intercalate " " (["calls", toString calls.length] ++ calls.flatMap fun c =>
    [showOptF32z c.knownDimensions.width, showOptF32z c.knownDimensions.height,
     showAvz c.availableSpace.width, showAvz c.availableSpace.height])

def pMode : P RunMode := pMap tok parseMode
def pSizing : P SizingMode := pMap tok fun s =>
  if s = "C" then some .contentSize else if s = "I" then some .inherentSize else none
def pAxis : P RequestedAxis := pMap tok fun s =>
  match s with | "h" => some .horizontal | "v" => some .vertical | "b" => some .both | _ => none

def pInput : P (LayoutInput F) := fun ts => do
  let (runMode, ts) ← pMode ts
  let (sizingMode, ts) ← pSizing ts
  let (axis, ts) ← pAxis ts
  let (kd, ts) ← pSize pOptF32 ts
  let (ps, ts) ← pSize pOptF32 ts
  let (av, ts) ← pSize pAv ts
  let (c0, ts) ← pBool ts
  let (c1, ts) ← pBool ts
  pure ({ runMode, sizingMode, axis, knownDimensions := kd, parentSize := ps, availableSpace := av,
          verticalMarginsAreCollapsible := ⟨c0, c1⟩ }, ts)

def pDisplay : P Display := pMap tok fun s => match s with
  | "B" => some Display.block | "F" => some .flex | "G" => some .grid | "N" => some .none | _ => none

/-! ### rational re-reading of a request (for the monitor) -/

def toRatOpt (x : Option F) : Option (Option Rat) :=
  match x with
  | none => some none
  | some v => (f32BitsToRat v.toBits.toNat).map some

def ratF (v : F) : Option Rat := f32BitsToRat v.toBits.toNat

def ratLP : LP F → Option (LP Rat)
  | .length v => (ratF v).map .length
  | .percent v => (ratF v).map .percent
def ratLPA : LPA F → Option (LPA Rat)
  | .length v => (ratF v).map .length
  | .percent v => (ratF v).map .percent
  | .auto => some .auto
def ratRect {β γ : Type} (f : β → Option γ) (r : Rect β) : Option (Rect γ) := do
  pure ⟨← f r.left, ← f r.right, ← f r.top, ← f r.bottom⟩
def ratSize {β γ : Type} (f : β → Option γ) (r : Size β) : Option (Size γ) := do
  pure ⟨← f r.width, ← f r.height⟩
def ratAv : AvailableSpace F → Option (AvailableSpace Rat)
  | .definite v => (ratF v).map .definite
  | .minContent => some .minContent
  | .maxContent => some .maxContent

def ratStyle (s : Style F) : Option (Style Rat) := do
  pure { display := s.display, itemIsTable := s.itemIsTable, itemIsReplaced := s.itemIsReplaced,
         boxSizing := s.boxSizing, overflow := s.overflow, scrollbarWidth := ← ratF s.scrollbarWidth,
         position := s.position, inset := ← ratRect ratLPA s.inset, size := ← ratSize ratLPA s.size,
         minSize := ← ratSize ratLPA s.minSize, maxSize := ← ratSize ratLPA s.maxSize,
         aspectRatio := ← toRatOpt s.aspectRatio, margin := ← ratRect ratLPA s.margin,
         padding := ← ratRect ratLP s.padding, border := ← ratRect ratLP s.border,
         alignItems := s.alignItems, alignSelf := s.alignSelf, justifyItems := s.justifyItems,
         justifySelf := s.justifySelf, alignContent := s.alignContent, justifyContent := s.justifyContent,
         gap := ← ratSize ratLP s.gap, textAlign := s.textAlign, flexDirection := s.flexDirection,
         flexWrap := s.flexWrap, flexBasis := ← ratLPA s.flexBasis, flexGrow := ← ratF s.flexGrow,
         flexShrink := ← ratF s.flexShrink }

def ratCtx : Option (MeasureSpec F) → Option (Option (MeasureSpec Rat))
  | none => some none
  | some (.fixed w h) => do pure (some (.fixed (← ratF w) (← ratF h)))
  | some (.wrap w h) => do pure (some (.wrap (← ratF w) (← ratF h)))

def ratLayout (l : Layout F) : Option (Layout Rat) := do
  pure { order := l.order, location := ⟨← ratF l.location.x, ← ratF l.location.y⟩, size := ← ratSize ratF l.size,
         contentSize := ← ratSize ratF l.contentSize, scrollbarSize := ← ratSize ratF l.scrollbarSize,
         border := ← ratRect ratF l.border, padding := ← ratRect ratF l.padding, margin := ← ratRect ratF l.margin }

def ratCall (c : MeasureCall F) : Option (MeasureCall Rat) := do
  pure { knownDimensions := ⟨← toRatOpt c.knownDimensions.width, ← toRatOpt c.knownDimensions.height⟩,
         availableSpace := ← ratSize ratAv c.availableSpace }

def pCalls : P (List (MeasureCall F)) := fun ts => do
  let (kw, ts) ← tok ts
  if kw ≠ "calls" then none
  let (n, ts) ← pNat ts
  let rec go : Nat → List String → Option (List (MeasureCall F) × List String)
    | 0, ts => some ([], ts)
    | n + 1, ts => do
      let (kd, ts) ← pSize pOptF32 ts
      let (av, ts) ← pSize pAv ts
      let (rest, ts) ← go n ts
      pure ({ knownDimensions := kd, availableSpace := av } :: rest, ts)
  go n ts

/-- the monitor: `Spec.leafBox` and `Spec.leafMeasureCalls` at `Rat` against the implementation's answer -/
def monitorLeaf (style : Style F) (ctx : Option (MeasureSpec F)) (av : Size (AvailableSpace F))
    (ans : List String) (again : Bool := false) : String :=
  match ans with
  | ["panic"] => "impl-panic"
  | _ =>
    match (do let (l, ts) ← pLayout ans; let (cs, ts) ← pCalls ts; pure (l, cs, ts)) with
    | some (l, cs, []) =>
      match ratStyle style, ratCtx ctx, ratSize ratAv av, ratLayout l, cs.mapM ratCall with
      | some rs, some rc, some rav, some rl, some rcs =>
        let measure := RootModel.ctxMeasure rc
        match Spec.excluded rs measure rav with
        | some tag =>
          -- outside the theorem's hypotheses.  Where the specification happens to hold anyway: ok.  Where it does
          -- not: the `c19-…` corners are violations of the property (reported under their tag, attributed through
          -- known_findings.json); negative padding/border is invalid input and only noted.
          if Spec.leafBox rs measure rav == rl then "ok excluded:" ++ tag ++ " spec-holds"
          else if tag.startsWith "c19-" then tag ++ " specified size " ++ toString (repr (Spec.leafBox rs measure rav).size)
          else "ok excluded:" ++ tag ++ " spec-differs"
        | none =>
          let want := Spec.leafBox rs measure rav
          let wantCalls := Spec.leafMeasureCalls rs rav
          if want != rl then "spec-mismatch layout"
          -- a tree that was laid out before may answer from its cache: no measure call at all is then what the property allows
          else if wantCalls != rcs && !(again && rcs.isEmpty) then "spec-mismatch calls"
          else "ok"
      | _, _, _, _, _ => "ok nonfinite"
    | _ => "bad-op"

/-- monitor for the direct stream: the conclusions of `C19.leaf_calls`, `C19.leaf_hidden_mode_panics` and the
padding+border floor, evaluated at Float32 on the implementation's answer -/
def monitorRaw (s : Style F) (i : LayoutInput F) (ans : List String) : String :=
  match ans with
  | ["panic"] => if i.runMode == .performHiddenLayout then "ok" else "raw-panic"
  | _ =>
    match parseOutput (ans.take 11), pCalls (ans.drop 11) with
    | some o, some (cs, []) =>
      let pb := (LeafModel.box i.parentSize s).paddingBorder.sumAxes
      let showKd : Size (Option F) → String := fun k => showOptF32z k.width ++ " " ++ showOptF32z k.height
      let wantKd : Size (Option F) := if i.runMode == .computeSize then i.knownDimensions else Size.none
      let badCalls : Bool := match cs with
        | [] => i.runMode != .computeSize
        | [c] => showKd c.knownDimensions != showKd wantKd
        | _ => true
      if i.runMode == .performHiddenLayout then "raw-hidden-did-not-panic"
      else if badCalls then "raw-measure-calls"
      else if !(Num.fle pb.width o.size.width && Num.fle pb.height o.size.height) then "raw-size-floor"
      else "ok"
    | _, _ => "bad-op"

def step (_ : Unit) (ws : List String) : Unit × String :=
  ((), match ws with
  | "leaf" :: rest =>
    match (do let (s, ts) ← pStyle rest; let (c, ts) ← pCtx ts; let (av, ts) ← pSize pAv ts; pure (s, c, av, ts)) with
    | some (s, c, av, []) =>
      match layoutSingleLeaf s c av with
      | .ok (l, calls) => showLayout l ++ " " ++ showCalls calls
      | .error _ => "panic"
    | _ => "bad-op"
  -- `leafagain <n>`: the same single-node tree reached through a history (earlier layout, set_style / set_node_context, layout);
  -- `<n>` = number of measure calls the implementation made in the last pass (0 = answered from the cache, which the leaf model does not have)
  | "leafagain" :: n :: rest =>
    match (do let (s, ts) ← pStyle rest; let (c, ts) ← pCtx ts; let (av, ts) ← pSize pAv ts; pure (s, c, av, ts)) with
    | some (s, c, av, []) =>
      match layoutSingleLeaf s c av with
      | .ok (l, calls) => showLayout l ++ " " ++ (if n == "0" then showCalls [] else showCalls calls)
      | .error _ => "panic"
    | _ => "bad-op"
  | "leafraw" :: rest =>
    match (do let (s, ts) ← pStyle rest; let (c, ts) ← pCtx ts; let (i, ts) ← pInput ts; pure (s, c, i, ts)) with
    | some (s, c, i, []) =>
      match computeLeafLayout i s (ctxMeasure c) with
      | .ok (o, calls) => showOutput o showF32z ++ " " ++ showCalls calls
      | .error _ => "panic"
    | _ => "bad-op"
  | ["dispatch", hp, d, n] =>
    match parseBool hp, pDisplay [d], parseNat n with
    | some hp, some (d, []), some n =>
      let mode : RunMode := if hp then .performHiddenLayout else .performLayout
      showBool (dispatchArm mode d (n > 0) == .leaf)
    | _, _, _ => "bad-op"
  | "mon" :: "leaf" :: rest =>
    match (do let (s, ts) ← pStyle rest; let (c, ts) ← pCtx ts; let (av, ts) ← pSize pAv ts; pure (s, c, av, ts)) with
    | some (s, c, av, "=>" :: ans) => monitorLeaf s c av ans
    | _ => "bad-op"
  | "mon" :: "leafagain" :: _ :: rest =>
    match (do let (s, ts) ← pStyle rest; let (c, ts) ← pCtx ts; let (av, ts) ← pSize pAv ts; pure (s, c, av, ts)) with
    | some (s, c, av, "=>" :: ans) => monitorLeaf s c av ans (again := true)
    | _ => "bad-op"
  | "mon" :: "leafraw" :: rest =>
    match (do let (s, ts) ← pStyle rest; let (_, ts) ← pCtx ts; let (i, ts) ← pInput ts; pure (s, i, ts)) with
    | some (s, i, "=>" :: ans) => monitorRaw s i ans
    | _ => "bad-op"
  | "mon" :: "dispatch" :: _ => "ok"
  | _ => "bad-op")

def handler : Handler := { σ := Unit, init := (), step := step }

end DrvC19
