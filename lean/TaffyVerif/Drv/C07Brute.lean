/-
  Brute-force evaluation of the planned C07 statements on the executable ℚ-model (search in the service of stating
  the theorems correctly; never reported as the result).  Request: `brute <n> <samples> <seed>`
  (`samples = 0`: every item list of length `n` over the pools).
-/
import TaffyVerif.Model.FlexLine

namespace C07Brute
open FlexLine

def ratMax (a b : Rat) : Rat := if a ≤ b then b else a

def fbs : List Rat := [0, 10, 30]
def rmins : List Rat := [0, 20]
def maxs : List (Option Rat) := [none, some 5, some 25]
def facs : List Rat := [0, 1, 2]
def margins : List Rat := [0, 3]
def inners : List Rat := [0, 20, 45, 100, 33]
def gaps : List Rat := [0, 5]

def mkItem (fb : Rat) (pbFull : Bool) (rmin : Rat) (mx : Option Rat) (g s m : Rat) : FlexItemM Rat :=
  let c0 : FlexItemM Rat :=
    { flexBasis := fb, innerFlexBasis := if pbFull then ratMax (fb - 5) 0 else fb, hypInner := 0, hypOuter := 0,
      resolvedMinMain := rmin, maxMain := mx, flexGrow := g, flexShrink := s, marginStart := m, marginEnd := 0,
      marginStartAuto := false, marginEndAuto := false, insetStart := none, insetEnd := none, frozen := false,
      violation := 0, targetMain := 0, outerTargetMain := 0, offsetMain := 0 }
  let hi := clampMain c0 fb
  { c0 with hypInner := hi, hypOuter := hi + c0.marginSum }

def allItems : List (FlexItemM Rat) := Id.run do
  let mut out := []
  for fb in fbs do for pbFull in [false, true] do for rmin in rmins do for mx in maxs do
    for g in facs do for s in facs do for m in margins do
      out := mkItem fb pbFull rmin mx g s m :: out
  return out

def sumQ (l : List Rat) : Rat := l.foldl (· + ·) 0

def upperBound (c : FlexItemM Rat) : Option Rat := c.maxMain.map fun mx => ratMax (ratMax mx c.resolvedMinMain) 0
def lowerBound (c : FlexItemM Rat) : Rat := ratMax c.resolvedMinMain 0

/-- the planned conclusion; returns a failure tag or "" -/
def checkOne (items : List (FlexItemM Rat)) (w gap : Rat) : String :=
  let n := items.length
  match resolveFlexibleLengths items (some w) gap n with
  | none => "fuel"
  | some out =>
    if !(out.all (·.frozen)) then "unfrozen" else
    let gapTotal := sumAxisGaps gap n
    let uff := gapTotal + sumQ (items.map (·.hypOuter))
    let growing := decide (uff < w)
    let total := sumQ (out.map (·.outerTargetMain)) + gapTotal
    if total = w then "" else
    let atBound := (items.zip out).all fun (c, o) =>
      if growing then
        !decide (0 < c.flexGrow) || (match upperBound c with | some u => decide (o.targetMain = u) | none => false)
      else
        !decide (0 < c.flexShrink * c.innerFlexBasis) || decide (o.targetMain = lowerBound c)
    if atBound then "" else "not-exhausted"

def showItem (c : FlexItemM Rat) : String :=
  s!"[fb {c.flexBasis} ifb {c.innerFlexBasis} hyp {c.hypInner} min {c.resolvedMinMain} max {c.maxMain} g {c.flexGrow} s {c.flexShrink} m {c.marginStart}]"

partial def lists (pool : Array (FlexItemM Rat)) : Nat → List (List (FlexItemM Rat))
  | 0 => [[]]
  | n + 1 => (lists pool n).flatMap fun l => pool.toList.map fun c => c :: l

def next (s : Nat) : Nat := (s * 6364136223846793005 + 1442695040888963407) % 18446744073709551616

def run (n samples seed : Nat) : String := Id.run do
  let pool := allItems.toArray
  let mut checked := 0
  let mut fails := 0
  let mut first := ""
  if samples = 0 then
    for items in lists pool n do
      for w in inners do for gap in gaps do
        checked := checked + 1
        let r := checkOne items w gap
        if r ≠ "" then
          fails := fails + 1
          if first = "" then first := s!"{r} w {w} gap {gap} " ++ String.intercalate " " (items.map showItem)
  else
    let mut s := seed
    for _ in [0:samples] do
      let mut items := []
      for _ in [0:n] do
        s := next s
        items := pool[(s / 65536) % pool.size]! :: items
      s := next s
      let w := inners[(s / 65536) % inners.length]!
      s := next s
      let gap := gaps[(s / 65536) % gaps.length]!
      checked := checked + 1
      let r := checkOne items w gap
      if r ≠ "" then
        fails := fails + 1
        if first = "" then first := s!"{r} w {w} gap {gap} " ++ String.intercalate " " (items.map showItem)
  return s!"checked {checked} fails {fails} {first}"

end C07Brute
