/-
  FLEX driver: `FlexModel.computeFlexboxLayout` at Float32, one recorded invocation of the real `compute_flexbox_layout`
  per request line (written by harness/src/flexcorr.rs), in the same format as the C10 stream:

    flex <11 input tokens> <46 container style tokens> <n> <n × 46 child style tokens>
         <m> <m × (child, 11 input tokens, 11 output tokens)>

  The m recorded child queries are the oracle: the model's i-th query must be the i-th recorded one (same child, same
  `LayoutInput`, compared after −0.0 → +0.0), and every recorded query must be consumed.  Answer:

    <11 output tokens> | <k> <k × (child, 21 layout tokens)> | q ok

  Request parsing, the replay oracle and the printers are those of Drv/C10.lean (imported, not copied).
-/
import TaffyVerif.Drv.C10
import TaffyVerif.Model.Flex

namespace DrvFLEX
open Proto Drv

abbrev F := Float32

def answer (r : DrvC10.Request) : String :=
  let (out, st, sets) :=
    BlockModel.runProg DrvC10.oracle (FlexModel.computeFlexboxLayout r.style r.children r.input)
      { rest := r.queries, err := none }
  let q := match st.err with
    | some e => e
    | none => if st.rest.isEmpty then "ok" else s!"unused-queries {st.rest.length}"
  showOutput out showF32z ++ " | " ++ DrvC10.showSets sets ++ " | q " ++ q

def step (_ : Unit) (ws : List String) : Unit × String :=
  match ws with
  | "flex" :: rest =>
    match DrvC10.pRequest rest with
    | some (r, []) => ((), answer r)
    | _ => ((), "bad-op")
  | _ => ((), "bad-op")

def handler : Handler := { σ := Unit, init := (), step := step }

end DrvFLEX
