/-
  GRID driver: `GridModel.computeGridLayout` at Float32, one recorded invocation of the real `compute_grid_layout` per
  request line (written by harness/src/gridcorr.rs):

    grid <11 input tokens> <grid container style> <n> <n × grid child style>
         <m> <m × (child, 11 input tokens, 11 output tokens)>

    grid container style = <46 style tokens> <flow> <columns template> <rows template> <auto columns> <auto rows>
    grid child style     = <46 style tokens> <row.start> <row.end> <column.start> <column.end>
  (templates / track-function lists in the token format of Drv/C09.lean, placements and flow in that of Drv/C08.lean).

  The m recorded child queries are the oracle: the model's i-th query must be the i-th recorded one (same child, same
  `LayoutInput`, compared after −0.0 → +0.0), and every recorded query must be consumed.  Answer:

    <11 output tokens> | <k> <k × (child, 21 layout tokens)> | q ok          (or `panic`)

  `sizing …` (the request of Drv/C09.lean): the monadic track sizing of Model/GridSizing.lean, run with the items'
  contribution caches pre-filled with the given numbers (so that it issues no query), must agree with the pure
  `GridTracks.trackSizingAlgorithm`; the answer is the base sizes, or `monadic-differs …`.  Every other C09 verb is
  delegated to Drv/C09.lean, so the C09 harness stream can be replayed against this handler.
-/
import TaffyVerif.Drv.C10
import TaffyVerif.Drv.C09
import TaffyVerif.Drv.C08
import TaffyVerif.Model.Grid

namespace DrvGRID
open Proto Drv GridModel

abbrev F := Float32

def pPlacement : P GridPlacement.Placement := pMap tok DrvC08.parsePlacement
def pFlow : P GridPlacement.AutoFlow := pMap tok DrvC08.parseFlow

def pLinePl : P (Line GridPlacement.Placement) := fun ts => do
  let (s, ts) ← pPlacement ts
  let (e, ts) ← pPlacement ts
  pure (⟨s, e⟩, ts)

def pGridStyle : P (GridStyle F) := fun ts => do
  let (base, ts) ← pStyle ts
  let (flow, ts) ← pFlow ts
  let (cols, ts) ← DrvC09.pTemplate ts
  let (rows, ts) ← DrvC09.pTemplate ts
  let (autoCols, ts) ← DrvC09.pList DrvC09.pFn ts
  let (autoRows, ts) ← DrvC09.pList DrvC09.pFn ts
  pure ({ base, gridTemplateRows := rows, gridTemplateColumns := cols, gridAutoRows := autoRows,
          gridAutoColumns := autoCols, gridAutoFlow := flow }, ts)

def pGridChildStyle : P (GridChildStyle F) := fun ts => do
  let (base, ts) ← pStyle ts
  let (row, ts) ← pLinePl ts
  let (col, ts) ← pLinePl ts
  pure ({ base, gridRow := row, gridColumn := col }, ts)

structure Request where
  input : LayoutInput F
  style : GridStyle F
  children : List (GridChildStyle F)
  queries : List DrvC10.Query

def pRequest : P Request := fun ts => do
  let (input, ts) ← DrvC10.pInput ts
  let (style, ts) ← pGridStyle ts
  let (n, ts) ← pNat ts
  let (children, ts) ← DrvC10.pMany pGridChildStyle n ts
  let (m, ts) ← pNat ts
  let (queries, ts) ← DrvC10.pMany DrvC10.pQuery m ts
  pure ({ input, style, children, queries }, ts)

def answer (r : Request) : String :=
  let (res, st, sets) := BlockModel.runProg DrvC10.oracle
    (computeGridLayoutE r.style r.children r.input).run { rest := r.queries, err := none }
  match res with
  | .error e =>
    -- the implementation can only panic; a query mismatch before the panic is still reported
    match st.err with
    | some q => "panic-model " ++ e ++ " | q " ++ q
    | none => "panic"
  | .ok out =>
    let q := match st.err with
      | some e => e
      | none => if st.rest.isEmpty then "ok" else s!"unused-queries {st.rest.length}"
    showOutput out showF32z ++ " | " ++ DrvC10.showSets sets ++ " | q " ++ q

/-! ### monadic track sizing against the pure one -/

open GridTracks in
def mkItem (idx : Nat) (it : Item F) : GItem F :=
  let ov : Overflow := if it.scroll then .hidden else .visible
  let st : Style F := { (Style.default : Style F) with overflow := ⟨ov, ov⟩ }
  let g := GItem.new idx ⟨(it.start : Int), (it.end : Int)⟩ ⟨0, 1⟩ st .stretch .stretch idx
  { g with columnIndexes := ⟨2 * it.start, 2 * it.end⟩,
           availableSpaceCache := some Size.none,
           minContentContributionCache := ⟨some it.minContent, none⟩,
           maxContentContributionCache := ⟨some it.maxContent, none⟩,
           minimumContributionCache := ⟨some it.minimum, none⟩ }

def sizingAnswer (r : DrvC09.SizingReq) : String :=
  let pureBases := DrvC09.showBases (DrvC09.runSizing r)
  let items := (GridPlacement.enumFrom 0 r.items).map fun p => mkItem p.1 p.2
  let items := determineCrossings items r.tracks []
  let p := r.params
  let args : RunArgs F :=
    { axis := .inl, axisMinSize := p.axisMinSize, axisMaxSize := p.axisMaxSize,
      axisAlignment := if p.stretch then .stretch else .start, otherAxisAlignment := .start,
      availableGridSpace := ⟨p.avail, .maxContent⟩, innerNodeSize := ⟨p.axisInner, none⟩, est := .baseSize,
      hasBaselineAlignedItem := false }
  let prog := (trackSizingAlgorithmM args { axisTracks := r.tracks, otherAxisTracks := [], items }).run
  let (res, n) := BlockModel.runProg (σ := Nat) (fun n _ _ => (LayoutOutput.hidden, n + 1)) prog 0
  match res with
  | .error e => "monadic-differs error " ++ e
  | .ok st =>
    let m := DrvC09.showBases st.axisTracks
    if n.1 != 0 then s!"monadic-differs issued {n.1} queries"
    else if m == pureBases then pureBases else "monadic-differs " ++ m

def step (_ : Unit) (ws : List String) : Unit × String :=
  match ws with
  | "grid" :: rest =>
    match pRequest rest with
    | some (r, []) => ((), answer r)
    | _ => ((), "bad-op")
  | "sizing" :: rest =>
    match DrvC09.pSizing rest with
    | some (r, _) => ((), sizingAnswer r)
    | none => ((), "bad-op")
  | _ => DrvC09.step () ws

def handler : Handler := { σ := Unit, init := (), step := step }

end DrvGRID
