/-
  C11 driver.  Request (one line per laid-out tree):

    abs <kind block|flex|grid> <container style 46> <child style 46> <child ctx> <avail w> <avail h>
        <index of the abs child> <number of in-flow siblings> <container's observed unrounded layout 21>

  Answer: the absolutely positioned child's unrounded layout (21 tokens), computed by the copy of the abs-pos code that
  belongs to the container's display mode, fed with the container's OBSERVED size (everything else is recomputed from
  the styles exactly as the call site does).

  `mon abs … => <child layout>`: the C11 equations evaluated exactly (ℚ) on the implementation's answer.
-/
import TaffyVerif.Drv.StyleParse
import TaffyVerif.Drv.TreeParse
import TaffyVerif.Model.AbsPosSpec
import TaffyVerif.Model.LeafOracle

namespace DrvC11
open Proto Drv AbsPos

abbrev F := Float32

inductive Kind where
  | block | flex | grid
deriving Repr, BEq, DecidableEq

structure Req where
  kind : Kind
  cst : Style F
  child : Style F
  ctx : Option (MeasureSpec F)
  avail : Size (AvailableSpace F)
  index : Nat
  nInflow : Nat
  container : Layout F

def pKind : P Kind := pMap tok fun s =>
  match s with
  | "block" => some .block | "flex" => some .flex | "grid" => some .grid | _ => none

def pReq : P Req := fun ts => do
  let (kind, ts) ← pKind ts
  let (cst, ts) ← pStyle ts
  let (child, ts) ← pStyle ts
  let (ctx, ts) ← pCtx ts
  let (avail, ts) ← pSize pAv ts
  let (index, ts) ← pNat ts
  let (nInflow, ts) ← pNat ts
  let (container, ts) ← pLayout ts
  pure ({ kind, cst, child, ctx, avail, index, nInflow, container }, ts)

/-- the three copies behind one interface, generic in the number type so that the monitor can re-run the *resolution*
stages at ℚ -/
def model {α : Type} [Num α] (kind : Kind) (cst child : Style α) (ctx : Option (MeasureSpec α))
    (avail : Size (AvailableSpace α)) (index nInflow : Nat) (containerSize : Size α) : Layout α :=
  let oracle : Oracle α := LeafOracle.leafLayout child ctx
  let parentSize : Size (Option α) := ⟨avail.width.intoOption, avail.height.intoOption⟩
  match kind with
  | .block => absBlock (blockCallSite cst containerSize index) child oracle
  | .flex =>
    let kd := flexStyledKnownDimensions cst parentSize
    absFlex (flexCallSite cst parentSize kd containerSize index) child oracle
  | .grid => absGrid (gridCallSite cst parentSize containerSize nInflow) child oracle

def answer (r : Req) : String :=
  showLayout (model r.kind r.cst r.child r.ctx r.avail r.index r.nInflow r.container.size)


/-! ### monitor: the C11 equations at ℚ on the implementation's answer -/

def ratOf (x : F) : Rat := (f32BitsToRat x.toBits.toNat).getD 0

def mapLPA {α β : Type} (f : α → β) : LPA α → LPA β
  | .length v => .length (f v) | .percent v => .percent (f v) | .auto => .auto
def mapLP {α β : Type} (f : α → β) : LP α → LP β
  | .length v => .length (f v) | .percent v => .percent (f v)
def mapRect {α β : Type} (f : α → β) (r : Rect α) : Rect β := ⟨f r.left, f r.right, f r.top, f r.bottom⟩
def mapSize {α β : Type} (f : α → β) (r : Size α) : Size β := ⟨f r.width, f r.height⟩

def mapStyle {α β : Type} (f : α → β) (s : Style α) : Style β :=
  { display := s.display, itemIsTable := s.itemIsTable, itemIsReplaced := s.itemIsReplaced, boxSizing := s.boxSizing,
    overflow := s.overflow, scrollbarWidth := f s.scrollbarWidth, position := s.position,
    inset := mapRect (mapLPA f) s.inset, size := mapSize (mapLPA f) s.size, minSize := mapSize (mapLPA f) s.minSize,
    maxSize := mapSize (mapLPA f) s.maxSize, aspectRatio := s.aspectRatio.map f, margin := mapRect (mapLPA f) s.margin,
    padding := mapRect (mapLP f) s.padding, border := mapRect (mapLP f) s.border, alignItems := s.alignItems,
    alignSelf := s.alignSelf, justifyItems := s.justifyItems, justifySelf := s.justifySelf,
    alignContent := s.alignContent, justifyContent := s.justifyContent, gap := mapSize (mapLP f) s.gap,
    textAlign := s.textAlign, flexDirection := s.flexDirection, flexWrap := s.flexWrap,
    flexBasis := mapLPA f s.flexBasis, flexGrow := f s.flexGrow, flexShrink := f s.flexShrink }

def mapLayout {α β : Type} (f : α → β) (l : Layout α) : Layout β :=
  { order := l.order, location := ⟨f l.location.x, f l.location.y⟩, size := mapSize f l.size,
    contentSize := mapSize f l.contentSize, scrollbarSize := mapSize f l.scrollbarSize, border := mapRect f l.border,
    padding := mapRect f l.padding, margin := mapRect f l.margin }

def mapAv {α β : Type} (f : α → β) : AvailableSpace α → AvailableSpace β
  | .definite v => .definite (f v) | .minContent => .minContent | .maxContent => .maxContent

def hasPercent (r : Rect (LP F)) : Bool :=
  [r.left, r.right, r.top, r.bottom].any fun x => match x with | .percent _ => true | _ => false

/-- facts of both axes from the resolution stage of the copy, run at ℚ on the container's reported layout -/
def facts (r : Req) : Spec.AxisFacts Rat × Spec.AxisFacts Rat :=
  let cst := mapStyle ratOf r.cst
  let st := mapStyle ratOf r.child
  let C := mapLayout ratOf r.container
  let parentSize : Size (Option Rat) := ⟨(mapAv ratOf r.avail.width).intoOption, (mapAv ratOf r.avail.height).intoOption⟩
  match r.kind with
  | .block =>
    let a := blockCallSite cst C.size r.index
    let rs := blockResolve a st
    (Spec.blockFactsX C rs st.aspectRatio, Spec.blockFactsY C rs st.aspectRatio)
  | .flex =>
    let a := flexCallSite cst parentSize (flexStyledKnownDimensions cst parentSize) C.size r.index
    let rs := flexResolve a st
    (Spec.flexFactsX C rs st.aspectRatio, Spec.flexFactsY C rs st.aspectRatio)
  | .grid =>
    let a := gridCallSite cst parentSize C.size r.nInflow
    let rs := gridResolve a st
    (Spec.gridFactsX C rs st.aspectRatio, Spec.gridFactsY C rs st.aspectRatio)

def monitor (r : Req) (impl : Layout F) : String :=
  -- block.rs resolves the container's border against the container's own width; the reported border is resolved by the
  -- parent against *its* width: the equations are stated for containers where the two agree (no percentage border)
  if r.kind == .block && hasPercent r.cst.border then "ok skipped-percent-border" else
  let (fx, fy) := facts r
  let L := mapLayout ratOf impl
  let ox := Spec.obsX L
  let oy := Spec.obsY L
  let isB := r.kind == .block
  let isG := r.kind == .grid
  let run (tol : Rat) : List String :=
    (Spec.failures isB isG tol fx ox).map (· ++ "-x") ++ (Spec.failures isB isG tol fy oy).map (· ++ "-y")
  match run 0 with
  | [] => "ok"
  | _ =>
    let C := mapLayout ratOf r.container
    let ext : Rat := Num.fmax (Num.fmax (Num.abs (Reported.padW C)) (Num.abs (Reported.padH C))) 1
    match run (ext / 262144) with
    | [] => "ok inexact"
    | fs => String.intercalate "," fs

def splitArrow (ws : List String) : List String × List String :=
  (ws.takeWhile (· ≠ "=>"), (ws.dropWhile (· ≠ "=>")).drop 1)

def step (_ : Unit) (ws : List String) : Unit × String :=
  match ws with
  | "abs" :: rest =>
    match pReq rest with
    | some (r, []) => ((), answer r)
    | _ => ((), "bad-op")
  | "mon" :: "abs" :: rest =>
    let (q, a) := splitArrow rest
    match pReq q with
    | some (r, []) =>
      match a with
      | ["panic"] => ((), "panic")
      | _ =>
        match pLayout a with
        | some (l, []) => ((), monitor r l)
        | _ => ((), "bad-op")
    | _ => ((), "bad-op")
  | _ => ((), "bad-op")

def handler : Handler := { σ := Unit, init := (), step := step }

end DrvC11
