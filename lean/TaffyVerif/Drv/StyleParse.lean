/-
  Parser for the one-line style serialisation written by harness/src/stylefmt.rs (46 tokens, fixed order),
  plus printers for layouts.  Parsers consume a prefix of the token list and return the rest.
-/
import TaffyVerif.Drv.Common
import TaffyVerif.Model.Style

namespace Drv
open Proto

abbrev P (β : Type) := List String → Option (β × List String)

def tok : P String
  | [] => none
  | t :: ts => some (t, ts)

def pMap {β γ : Type} (p : P β) (f : β → Option γ) : P γ := fun ts =>
  match p ts with
  | some (b, rest) => (f b).map fun c => (c, rest)
  | none => none

def pF32 : P Float32 := pMap tok parseF32
def pOptF32 : P (Option Float32) := pMap tok parseOptF32
def pBool : P Bool := pMap tok parseBool
def pNat : P Nat := pMap tok parseNat
def pInt : P Int := pMap tok parseInt

def pLPA : P (LPA Float32) := pMap tok fun s =>
  if s = "a" then some .auto
  else if s.startsWith "l:" then (parseF32 (s.drop 2).toString).map .length
  else if s.startsWith "p:" then (parseF32 (s.drop 2).toString).map .percent
  else none

def pLP : P (LP Float32) := pMap tok fun s =>
  if s.startsWith "l:" then (parseF32 (s.drop 2).toString).map .length
  else if s.startsWith "p:" then (parseF32 (s.drop 2).toString).map .percent
  else none

def pOverflow : P Overflow := pMap tok fun s =>
  match s with
  | "v" => some .visible | "c" => some .clip | "h" => some .hidden | "s" => some .scroll | _ => none

def pAlignItems : P (Option AlignItems) := pMap tok fun s =>
  match s with
  | "-" => some none | "s" => some (some .start) | "e" => some (some .end) | "fs" => some (some .flexStart)
  | "fe" => some (some .flexEnd) | "c" => some (some .center) | "b" => some (some .baseline)
  | "st" => some (some .stretch) | _ => none

def pAlignContent : P (Option AlignContent) := pMap tok fun s =>
  match s with
  | "-" => some none | "s" => some (some .start) | "e" => some (some .end) | "fs" => some (some .flexStart)
  | "fe" => some (some .flexEnd) | "c" => some (some .center) | "st" => some (some .stretch)
  | "sb" => some (some .spaceBetween) | "se" => some (some .spaceEvenly) | "sa" => some (some .spaceAround)
  | _ => none

def pRect {β : Type} (p : P β) : P (Rect β) := fun ts => do
  let (l, ts) ← p ts; let (r, ts) ← p ts; let (t, ts) ← p ts; let (b, ts) ← p ts
  pure (⟨l, r, t, b⟩, ts)

def pSize {β : Type} (p : P β) : P (Size β) := fun ts => do
  let (w, ts) ← p ts; let (h, ts) ← p ts
  pure (⟨w, h⟩, ts)

def pAv : P (AvailableSpace Float32) := pMap tok parseAv

def pStyle : P (Style Float32) := fun ts => do
  let (d, ts) ← pMap tok (fun s => match s with
    | "B" => some Display.block | "F" => some .flex | "G" => some .grid | "N" => some .none | _ => none) ts
  let (tbl, ts) ← pBool ts
  let (rep, ts) ← pBool ts
  let (bs, ts) ← pMap tok (fun s => if s = "bb" then some BoxSizing.borderBox else if s = "cb" then some .contentBox else none) ts
  let (ox, ts) ← pOverflow ts
  let (oy, ts) ← pOverflow ts
  let (sw, ts) ← pF32 ts
  let (pos, ts) ← pMap tok (fun s => if s = "rel" then some Position.relative else if s = "abs" then some .absolute else none) ts
  let (inset, ts) ← pRect pLPA ts
  let (size, ts) ← pSize pLPA ts
  let (minSize, ts) ← pSize pLPA ts
  let (maxSize, ts) ← pSize pLPA ts
  let (ar, ts) ← pOptF32 ts
  let (margin, ts) ← pRect pLPA ts
  let (padding, ts) ← pRect pLP ts
  let (border, ts) ← pRect pLP ts
  let (ai, ts) ← pAlignItems ts
  let (as_, ts) ← pAlignItems ts
  let (ji, ts) ← pAlignItems ts
  let (js, ts) ← pAlignItems ts
  let (ac, ts) ← pAlignContent ts
  let (jc, ts) ← pAlignContent ts
  let (gap, ts) ← pSize pLP ts
  let (ta, ts) ← pMap tok (fun s => match s with
    | "a" => some TextAlign.auto | "l" => some .legacyLeft | "r" => some .legacyRight | "c" => some .legacyCenter | _ => none) ts
  let (fd, ts) ← pMap tok (fun s => match s with
    | "r" => some FlexDirection.row | "c" => some .column | "rr" => some .rowReverse | "cr" => some .columnReverse | _ => none) ts
  let (fw, ts) ← pMap tok (fun s => match s with
    | "n" => some FlexWrap.noWrap | "w" => some .wrap | "wr" => some .wrapReverse | _ => none) ts
  let (fb, ts) ← pLPA ts
  let (fg, ts) ← pF32 ts
  let (fs, ts) ← pF32 ts
  pure ({ display := d, itemIsTable := tbl, itemIsReplaced := rep, boxSizing := bs, overflow := ⟨ox, oy⟩,
          scrollbarWidth := sw, position := pos, inset, size, minSize, maxSize, aspectRatio := ar, margin,
          padding, border, alignItems := ai, alignSelf := as_, justifyItems := ji, justifySelf := js,
          alignContent := ac, justifyContent := jc, gap, textAlign := ta, flexDirection := fd, flexWrap := fw,
          flexBasis := fb, flexGrow := fg, flexShrink := fs }, ts)

/-- 21 tokens: order, location, size, content size, scrollbar size, border, padding, margin (−0.0 → +0.0) -/
def showLayout (l : Layout Float32) : String :=
  let f := showF32z
  String.intercalate " " ([toString l.order] ++ [l.location.x, l.location.y, l.size.width, l.size.height,
    l.contentSize.width, l.contentSize.height, l.scrollbarSize.width, l.scrollbarSize.height,
    l.border.left, l.border.right, l.border.top, l.border.bottom,
    l.padding.left, l.padding.right, l.padding.top, l.padding.bottom,
    l.margin.left, l.margin.right, l.margin.top, l.margin.bottom].map f)

def pLayout : P (Layout Float32) := fun ts => do
  let (order, ts) ← pNat ts
  let (loc, ts) ← (fun ts => do let (x, ts) ← pF32 ts; let (y, ts) ← pF32 ts; pure ((⟨x, y⟩ : Point Float32), ts)) ts
  let (size, ts) ← pSize pF32 ts
  let (cs, ts) ← pSize pF32 ts
  let (sb, ts) ← pSize pF32 ts
  let (border, ts) ← pRect pF32 ts
  let (padding, ts) ← pRect pF32 ts
  let (margin, ts) ← pRect pF32 ts
  pure ({ order, location := loc, size, contentSize := cs, scrollbarSize := sb, border, padding, margin }, ts)

end Drv
