/-
  C15 driver: the flat dirtiness model executed on the harness' operation lines.
-/
import TaffyVerif.Drv.Common
import TaffyVerif.Model.Dirty

namespace DrvC15
open Proto Dirty

structure S where
  st : St
  /-- key of the final-layout entry of a node, as far as it decides hits on `display:none` nodes:
      the available-space index of the root pass that stored it, or 1 (= MaxContent × MaxContent, no known
      dimensions: the constants every container uses for `display:none` children) when stored as a child -/
  finKey : Nat → Option Nat := fun _ => none
  lastPass : Option (Nat × Nat)
  /-- the model predicted a panic/error/out-of-fuel: everything after is meaningless -/
  broken : Bool

def init : S := { st := Dirty.init, lastPass := none, broken := false }

def belowHidden (s : St) (n : Nat) : Bool :=
  let rec go : Nat → Option Nat → Bool
    | 0, _ => false
    | _ + 1, none => false
    | f + 1, some p => if s.hidden p then true else go f (s.parent p)
  go (s.next + 1) (s.parent n)

def flags (s : St) : String :=
  String.ofList ((List.range s.next).map fun i =>
    if !s.live i then 'x' else if belowHidden s i then '.' else if s.dirty i then 'D' else 'C')

/-- the driver's resolution of a pass: exact for `display:none` nodes (their lookup key is known), "hit when a final
entry exists" for box-generating nodes (a stale-key miss there changes no flag) -/
def visitK : Nat → St × (Nat → Option Nat) → Nat → Nat → St × (Nat → Option Nat)
  | 0, sk, _, _ => sk
  | fuel + 1, (s, fk), n, key =>
    if s.hidden n then
      if s.fin n ∧ fk n = some key then (s, fk)
      else
        let s1 := (s.children n).foldl (fun acc c => hiddenVisit fuel acc c) (clearNode s n)
        ({ s1 with fin := upd s1.fin n true }, upd fk n (some key))
    else if s.fin n then (s, fk)
    else
      let (s1, fk1) := (s.children n).foldl (fun acc c => visitK fuel acc c 1) (s, fk)
      ({ s1 with fin := upd s1.fin n true }, upd fk1 n (some key))

def applyOp (s : S) (op : Op) : S × String :=
  match step s.st op with
  | some st => ({ s with st, lastPass := none }, "ok")
  | none => ({ s with broken := true, lastPass := none }, "none")

def nats (ws : List String) : Option (List Nat) := ws.mapM parseNat

def step (s : S) (ws : List String) : S × String :=
  if s.broken then (s, "broken") else
  match ws with
  | ["new", h] =>
    match parseBool h with
    | some h =>
      let (s', _) := applyOp s (.newLeaf h)
      (s', s!"ok {s.st.next}")
    | none => (s, "bad-op")
  | ["flags"] => (s, flags s.st)
  | "setch" :: p :: cs =>
    match parseNat p, nats cs with
    | some p, some cs => applyOp s (.setChildren p cs)
    | _, _ => (s, "bad-op")
  | cmd :: args =>
    match nats args with
    | none => (s, "bad-op")
    | some a =>
      match cmd, a with
      | "style", [n, h] => applyOp s (.setStyle n (h == 1))
      | "ctx", [n] => applyOp s (.setContext n)
      | "add", [p, c] => applyOp s (.addChild p c)
      | "ins", [p, i, c] => applyOp s (.insertChild p i c)
      | "rmat", [p, i] => applyOp s (.removeChildAt p i)
      | "repl", [p, i, c] => applyOp s (.replaceChildAt p i c)
      | "rmrange", [p, a, b] => applyOp s (.removeRange p a b)
      | "rm", [n] => applyOp s (.remove n)
      | "dirty", [n] => applyOp s (.markDirty n)
      | "pass", [root, ai] =>
        let quiet := s.lastPass == some (root, ai)
        let (st, fk) := visitK (s.st.next + 1) (s.st, s.finKey) root ai
        ({ s with st, finKey := fk, lastPass := some (root, ai) }, if quiet then "pass quiet" else "pass")
      | _, _ => (s, "bad-op")
  | _ => (s, "bad-op")

def handler : Handler := { σ := S, init := init, step := step }

end DrvC15
