/-
  C02 driver: the cache model at Float32, one request per line.
    new | store kdw kdh avw avh mode <11 output tokens> | get kdw kdh avw avh mode | clear | isempty
  Property monitor (`mon` prefix lines are produced by ./check from the implementation's answers):
    the monitor keeps the history of stores since the last clear and checks every implementation hit against it
    (`get_sound`), and keeps the stores that are still *live* by the documented slot table (`Model/Cache.computeCacheSlot`,
    the doc comment of `Cache::compute_cache_slot`: any later final store displaces a final store; a later measure store displaces a
    measure store iff it maps to the same documented slot) and checks every implementation miss against them
    (`hit_until_displaced_final/_measure`: a lookup under the bit-identical, self-compatible key of a live store must hit).
-/
import TaffyVerif.Drv.Common
import TaffyVerif.Model.Cache

namespace DrvC02
open Proto Drv CacheModel

abbrev F := Float32

structure St where
  cache : Cache F
  /-- monitor: stores since the last clear (mode, kd, av, out) -/
  hist : List (RunMode × Size (Option F) × Size (AvailableSpace F) × LayoutOutput F)
  /-- monitor: stores not displaced since (by the documented slot table) -/
  live : List (RunMode × Size (Option F) × Size (AvailableSpace F) × LayoutOutput F) := []

def init : St := { cache := Cache.new, hist := [], live := [] }

def parseKey (a b c d : String) : Option (Size (Option F) × Size (AvailableSpace F)) := do
  let kw ← parseOptF32 a; let kh ← parseOptF32 b
  let aw ← parseAv c; let ah ← parseAv d
  pure (⟨kw, kh⟩, ⟨aw, ah⟩)

def bitsEq (a b : F) : Bool := showF32 a == showF32 b
def outBitsEq (a b : LayoutOutput F) : Bool := showOutput a == showOutput b

/-- conclusion of `get_sound`, evaluated on an implementation answer -/
def justified (st : St) (kd : Size (Option F)) (av : Size (AvailableSpace F)) (mode : RunMode)
    (ans : LayoutOutput F) : Bool :=
  st.hist.any fun (m, ekd, eav, out) =>
    m == mode && compatible kd av ekd eav out.size &&
      (match mode with
       | .performLayout => outBitsEq ans out
       | .computeSize => outBitsEq ans (LayoutOutput.fromOuterSize out.size)
       | .performHiddenLayout => false)

def keyBitsEq (kd : Size (Option F)) (av : Size (AvailableSpace F)) (kd2 : Size (Option F)) (av2 : Size (AvailableSpace F)) : Bool :=
  showOptF32 kd.width == showOptF32 kd2.width && showOptF32 kd.height == showOptF32 kd2.height &&
  showAv av.width == showAv av2.width && showAv av.height == showAv av2.height

/-- `Live` of Model/Cache.lean, as a list: drop what the new store displaces, add the new store -/
def liveAfterStore (live : List (RunMode × Size (Option F) × Size (AvailableSpace F) × LayoutOutput F))
    (mode : RunMode) (kd : Size (Option F)) (av : Size (AvailableSpace F)) (out : LayoutOutput F) :=
  if mode == .performHiddenLayout then live
  else (mode, kd, av, out) :: live.filter fun (m, ekd, eav, _) =>
    !(match m, mode with
      | .performLayout, .performLayout => true
      | .computeSize, .computeSize => computeCacheSlot kd av == computeCacheSlot ekd eav
      | _, _ => false)

/-- hypothesis of `hit_until_displaced_*`, evaluated on an implementation miss: a live store under this very key, self-compatible -/
def missWhileLive (st : St) (kd : Size (Option F)) (av : Size (AvailableSpace F)) (mode : RunMode) : Bool :=
  st.live.any fun (m, ekd, eav, out) =>
    m == mode && keyBitsEq kd av ekd eav && compatible kd av kd av out.size

def step (st : St) (ws : List String) : St × String :=
  match ws with
  | ["new"] => (init, "ok")
  | "store" :: a :: b :: c :: d :: m :: rest =>
    match parseKey a b c d, parseMode m, parseOutput rest with
    | some (kd, av), some mode, some out =>
      let hist := if mode == .performHiddenLayout then st.hist else (mode, kd, av, out) :: st.hist
      ({ st with cache := st.cache.store kd av mode out, hist }, "ok")
    | _, _, _ => (st, "bad-op")
  | ["get", a, b, c, d, m] =>
    match parseKey a b c d, parseMode m with
    | some (kd, av), some mode =>
      match st.cache.get kd av mode with
      | some o => (st, "some " ++ showOutput o)
      | none => (st, "none")
    | _, _ => (st, "bad-op")
  | ["clear"] =>
    let (c, s) := st.cache.clear
    ({ cache := c, hist := [], live := [] }, match s with | .cleared => "cleared" | .alreadyEmpty => "already")
  | ["isempty"] => (st, showBool st.cache.isEmpty)
  -- monitor lines: `mon get … => some …|none`, evaluated against the history only (not the model cache)
  | "mon" :: "get" :: a :: b :: c :: d :: m :: "=>" :: ans =>
    match parseKey a b c d, parseMode m with
    | some (kd, av), some mode =>
      match ans with
      | ["none"] => (st, if missWhileLive st kd av mode then "miss-while-live" else "ok")
      | "some" :: rest =>
        match parseOutput rest with
        | some o => (st, if justified st kd av mode o then "ok" else "unjustified-hit")
        | none => (st, "bad-op")
      | _ => (st, "bad-op")
    | _, _ => (st, "bad-op")
  | "mon" :: "store" :: rest =>
    -- reuse the store parser to extend the history
    match rest with
    | a :: b :: c :: d :: m :: more =>
      let more := more.takeWhile (· ≠ "=>")
      match parseKey a b c d, parseMode m, parseOutput more with
      | some (kd, av), some mode, some out =>
        let hist := if mode == .performHiddenLayout then st.hist else (mode, kd, av, out) :: st.hist
        ({ st with hist, live := liveAfterStore st.live mode kd av out }, "ok")
      | _, _, _ => (st, "bad-op")
    | _ => (st, "bad-op")
  | "mon" :: "clear" :: "=>" :: _ => ({ st with hist := [], live := [] }, "ok")
  | "mon" :: "new" :: _ => (init, "ok")
  | "mon" :: "isempty" :: "=>" :: [b] =>
    -- after a clear and before any store the observer must say empty; a non-empty history must say non-empty
    (st, if (b == "1") == st.hist.isEmpty then "ok" else "isempty-mismatch")
  | _ => (st, "bad-op")

def handler : Handler := { σ := St, init := init, step := step }

end DrvC02
