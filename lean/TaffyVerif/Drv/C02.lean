/-
  C02 driver: the cache model at Float32, one request per line.
    new | store kdw kdh avw avh mode <11 output tokens> | get kdw kdh avw avh mode | clear | isempty
  Property monitor (`mon` prefix lines are produced by ./check from the implementation's answers):
    the monitor keeps the history of stores since the last clear and checks every implementation hit against it.
-/
import TaffyVerif.Drv.Common
import TaffyVerif.Model.Cache

namespace DrvC02
open Proto Drv CacheModel

abbrev F := Float32

structure St where
  cache : Cache F
  /-- monitor: stores since the last clear (mode, kd, av, out) -/
  hist : List (RunMode × Size (Option F) × Size (AvailableSpace F) × LayoutOutput F)

def init : St := { cache := Cache.new, hist := [] }

def parseKey (a b c d : String) : Option (Size (Option F) × Size (AvailableSpace F)) := do
  let kw ← parseOptF32 a; let kh ← parseOptF32 b
  let aw ← parseAv c; let ah ← parseAv d
  pure (⟨kw, kh⟩, ⟨aw, ah⟩)

def bitsEq (a b : F) : Bool := showF32 a == showF32 b
def outBitsEq (a b : LayoutOutput F) : Bool := showOutput a == showOutput b

/-- conclusion of `get_sound`, evaluated on an implementation answer -/
def justified (st : St) (kd : Size (Option F)) (av : Size (AvailableSpace F)) (mode : RunMode)
    (ans : LayoutOutput F) : Bool :=
  st.hist.any fun (m, ekd, eav, out) =>
    m == mode && compatible kd av ekd eav out.size &&
      (match mode with
       | .performLayout => outBitsEq ans out
       | .computeSize => outBitsEq ans (LayoutOutput.fromOuterSize out.size)
       | .performHiddenLayout => false)

def step (st : St) (ws : List String) : St × String :=
  match ws with
  | ["new"] => (init, "ok")
  | "store" :: a :: b :: c :: d :: m :: rest =>
    match parseKey a b c d, parseMode m, parseOutput rest with
    | some (kd, av), some mode, some out =>
      let hist := if mode == .performHiddenLayout then st.hist else (mode, kd, av, out) :: st.hist
      ({ cache := st.cache.store kd av mode out, hist }, "ok")
    | _, _, _ => (st, "bad-op")
  | ["get", a, b, c, d, m] =>
    match parseKey a b c d, parseMode m with
    | some (kd, av), some mode =>
      match st.cache.get kd av mode with
      | some o => (st, "some " ++ showOutput o)
      | none => (st, "none")
    | _, _ => (st, "bad-op")
  | ["clear"] =>
    let (c, s) := st.cache.clear
    ({ cache := c, hist := [] }, match s with | .cleared => "cleared" | .alreadyEmpty => "already")
  | ["isempty"] => (st, showBool st.cache.isEmpty)
  -- monitor lines: `mon get … => some …|none`, evaluated against the history only (not the model cache)
  | "mon" :: "get" :: a :: b :: c :: d :: m :: "=>" :: ans =>
    match parseKey a b c d, parseMode m with
    | some (kd, av), some mode =>
      match ans with
      | ["none"] => (st, "ok")
      | "some" :: rest =>
        match parseOutput rest with
        | some o => (st, if justified st kd av mode o then "ok" else "unjustified-hit")
        | none => (st, "bad-op")
      | _ => (st, "bad-op")
    | _, _ => (st, "bad-op")
  | "mon" :: "store" :: rest =>
    -- reuse the store parser to extend the history
    match rest with
    | a :: b :: c :: d :: m :: more =>
      let more := more.takeWhile (· ≠ "=>")
      match parseKey a b c d, parseMode m, parseOutput more with
      | some (kd, av), some mode, some out =>
        let hist := if mode == .performHiddenLayout then st.hist else (mode, kd, av, out) :: st.hist
        ({ st with hist }, "ok")
      | _, _, _ => (st, "bad-op")
    | _ => (st, "bad-op")
  | "mon" :: "clear" :: "=>" :: _ => ({ st with hist := [] }, "ok")
  | "mon" :: "new" :: _ => (init, "ok")
  | "mon" :: "isempty" :: "=>" :: [b] =>
    -- after a clear and before any store the observer must say empty; a non-empty history must say non-empty
    (st, if (b == "1") == st.hist.isEmpty then "ok" else "isempty-mismatch")
  | _ => (st, "bad-op")

def handler : Handler := { σ := St, init := init, step := step }

end DrvC02
