/-
  C18 driver: evaluates the generated CompactLength bit model and the hand-written resolvers.
  f32 multiplication is Float32's; the calc resolver is `basis * 0.25` as in the harness.
-/
import TaffyVerif.Drv.Common
import TaffyVerif.Model.Lengths

namespace DrvC18
open Proto Gen.CL LenModel

def fmul (a b : BitVec 32) : BitVec 32 :=
  ((Float32.ofBits a.toNat.toUInt32) * (Float32.ofBits b.toNat.toUInt32)).toBits.toNat |> BitVec.ofNat 32

def ops : Ops :=
  { mul := fmul
    calcFn := fun _ basis => fmul basis (BitVec.ofNat 32 0x3e800000) }

def hex32 (v : BitVec 32) : String := natToHex v.toNat 8
def hex64 (v : BitVec 64) : String := natToHex v.toNat 16
/-- results of resolution: every NaN prints canonically (payload propagation through arithmetic is not modelled) -/
def canon (v : BitVec 32) : String :=
  let n := v.toNat
  if (n / 2^23) % 256 = 255 ∧ n % 2^23 ≠ 0 then "7fc00000" else natToHex n 8
def optHex : Option (BitVec 32) → String
  | none => "-"
  | some v => canon v
def parseV (s : String) : Option (BitVec 32) := (hexToNat s).map (BitVec.ofNat 32)
def parseOptV (s : String) : Option (Option (BitVec 32)) :=
  if s = "-" then some none else (parseV s).map some

def flags (c : BitVec 64) : String :=
  String.ofList ([is_calc c, is_zero c, is_length_or_percentage c, is_auto c, is_min_content c, is_max_content c,
    is_fit_content c, is_max_or_fit_content c, is_max_content_alike c, is_min_or_max_content c,
    is_intrinsic c, is_fr c, uses_percentage c].map fun b => if b then '1' else '0')

def describe (c : BitVec 64) : String :=
  s!"{(tag c).toNat} {hex32 (value c)} {flags c}"

def build (ctor : String) (v : BitVec 32) : Option (BitVec 64) :=
  match ctor with
  | "length" => some (length v)
  | "percent" => some (percent v)
  | "fr" => some (fr v)
  | "fit_content_px" => some (fit_content_px v)
  | "fit_content_percent" => some (fit_content_percent v)
  | "auto" => some auto
  | "min_content" => some min_content
  | "max_content" => some max_content
  | _ => none

def showRes : Res (Option V) → Res V → String
  | .ok a, .ok b => s!"{optHex a} {canon b}"
  | _, _ => "panic"

def step (_ : Unit) (ws : List String) : Unit × String :=
  ((), match ws with
  | "unit" :: u :: _ => match build u 0 with
    | some c => describe c
    | none => "bad-op"
  | "ctor" :: c :: v :: _ => match parseV v >>= build c with
    | some x => describe x
    | none => "bad-op"
  | ["resolve", ty, "calc", p, ctx] =>
    match hexToNat p, parseOptV ctx with
    | some p, some ctx =>
      let x := calc_ (BitVec.ofNat 64 p)
      let r := if ty == "LP" then maybeResolveLP ops x ctx else maybeResolveLPA ops x ctx
      showRes r (resolveOrZero r)
    | _, _ => "bad-op"
  | ["resolve", ty, c, v, ctx] =>
    match parseV v >>= build c, parseOptV ctx with
    | some x, some ctx =>
      let r := if ty == "LP" then maybeResolveLP ops x ctx else maybeResolveLPA ops x ctx
      showRes r (resolveOrZero r)
    | _, _ => "bad-op"
  | ["rto", c, v, ctx] =>
    match parseV v >>= build c, parseV ctx with
    | some x, some ctx => (match resolveToOption ops x ctx with | .ok r => optHex r | .unreachable => "panic")
    | _, _ => "bad-op"
  | ["into_option", c, v] =>
    match parseV v >>= build c with
    | some x => optHex (intoOption x)
    | none => "bad-op"
  | ["track", c, v, ctx, cb] =>
    match parseV v >>= build c, parseOptV ctx, parseV cb with
    | some x, some ctx, some cb =>
      s!"{optHex (definiteValue ops x ctx)} {showBool (hasDefiniteValue x ctx)} {optHex (definiteLimit ops x ctx)} {optHex (resolvedPercentageSize ops x cb)}"
    | _, _, _ => "bad-op"
  | ["mintrack", c, v, ctx] =>
    match parseV v >>= build c, parseOptV ctx with
    | some x, some ctx => optHex (definiteValue ops x ctx)
    | _, _ => "bad-op"
  | ["calc", p] =>
    match hexToNat p with
    | some p =>
      let pv := BitVec.ofNat 64 p
      if calc_pre pv then
        let c := calc_ pv
        s!"{(tag c).toNat} {hex64 (calc_value c)} {flags c}"
      else "panic"
    | none => "bad-op"
  | _ => "bad-op")

def handler : Handler := { σ := Unit, init := (), step := step }

end DrvC18
