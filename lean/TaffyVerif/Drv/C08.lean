/-
  C08 / C03-grid driver: one placement problem per line.
    place  <cols> <rows> <flow> <n> (<row.start> <row.end> <col.start> <col.end>)*     flow: row|col|rowd|cold
        → ok <col neg exp pos> <row neg exp pos> <k> (<child> <rs> <re> <cs> <ce>)*    origin-zero lines, record order
        | panic      (the model's `panic`, `overflow` and `outOfFuel` outcomes: the implementation can only panic or hang)
    layout <same arguments>
        → ok <col neg exp pos> <row neg exp pos> <k> (<rs> <re> <cs> <ce>)*            1-based lines of the implicit grid, sorted
  placement tokens: a | l<int> | s<nat>
  Monitor (`mon <request> => <implementation answer>`): the C08 conclusions evaluated on the implementation's answer.
-/
import TaffyVerif.Drv.Common
import TaffyVerif.Model.GridPlacement

namespace DrvC08
open Proto GridPlacement

def parsePlacement (s : String) : Option Placement :=
  if s = "a" then some .auto
  else if s.startsWith "l" then (parseInt (s.drop 1).toString).map .line
  else if s.startsWith "s" then (parseNat (s.drop 1).toString).map fun n => .span (n : Int)
  else none

def parseFlow (s : String) : Option AutoFlow :=
  if s = "row" then some .row else if s = "col" then some .column
  else if s = "rowd" then some .rowDense else if s = "cold" then some .columnDense else none

def parseChildren : List String → Option (List Child)
  | [] => some []
  | a :: b :: c :: d :: rest => do
    let a ← parsePlacement a; let b ← parsePlacement b; let c ← parsePlacement c; let d ← parsePlacement d
    let tl ← parseChildren rest
    pure (⟨⟨a, b⟩, ⟨c, d⟩⟩ :: tl)
  | _ => none

structure Problem where
  cols : Int
  rows : Int
  flow : AutoFlow
  children : List Child

def parseProblem : List String → Option Problem
  | c :: r :: f :: n :: rest => do
    let c ← parseNat c; let r ← parseNat r; let f ← parseFlow f; let n ← parseNat n
    let cs ← parseChildren rest
    if cs.length = n then pure ⟨c, r, f, cs⟩ else none
  | _ => none

def Problem.run (p : Problem) : Outcome Result :=
  GridPlacement.run defaultFuel p.cols p.rows p.flow p.children

def showCounts (t : TrackCounts) : String := s!"{t.negativeImplicit} {t.explicit} {t.positiveImplicit}"

def showPlace (r : Result) : String :=
  let its := r.items.map fun it => s!" {it.index} {it.row.start} {it.row.«end»} {it.column.start} {it.column.«end»}"
  s!"ok {showCounts r.columns} {showCounts r.rows} {r.items.length}" ++ String.join its

def lexLe : List Int → List Int → Bool
  | [], _ => true
  | _ :: _, [] => false
  | a :: as, b :: bs => if a < b then true else if a > b then false else lexLe as bs

def insertSorted (x : List Int) : List (List Int) → List (List Int)
  | [] => [x]
  | y :: ys => if lexLe x y then x :: y :: ys else y :: insertSorted x ys

def showLayout (r : Result) : String :=
  let rn := r.rows.negativeImplicit
  let cn := r.columns.negativeImplicit
  let quads := r.items.map fun it => [it.row.start + rn + 1, it.row.«end» + rn + 1, it.column.start + cn + 1, it.column.«end» + cn + 1]
  let sorted := quads.foldr insertSorted []
  let its := sorted.map fun q => String.join (q.map fun v => s!" {v}")
  s!"ok {showCounts r.columns} {showCounts r.rows} {r.items.length}" ++ String.join its

def parseInts : List String → Option (List Int)
  | [] => some []
  | x :: xs => do let v ← parseInt x; let tl ← parseInts xs; pure (v :: tl)

def parseItems : List Int → Option (List Item)
  | [] => some []
  | i :: rs :: re :: cs :: ce :: rest => do
    let tl ← parseItems rest
    if i < 0 then none else pure (⟨i.toNat, ⟨rs, re⟩, ⟨cs, ce⟩, true⟩ :: tl)
  | _ => none

/-- parse the implementation's `place` answer (after `ok`) -/
def parsePlaceAnswer (ws : List String) : Option Result := do
  let vs ← parseInts ws
  match vs with
  | cn :: ce :: cp :: rn :: re :: rp :: k :: rest =>
    let its ← parseItems rest
    if (its.length : Int) = k then pure ⟨its, ⟨cn, ce, cp⟩, ⟨rn, re, rp⟩⟩ else none
  | _ => none

def parseQuads : List Int → Option (List (List Int))
  | [] => some []
  | a :: b :: c :: d :: rest => do let tl ← parseQuads rest; pure ([a, b, c, d] :: tl)
  | _ => none

/-- weaker check for the `layout` channel (items are anonymous there): non-empty areas inside the reported tracks -/
def layoutFailure (p : Problem) (ws : List String) : Option String :=
  match parseInts ws with
  | some (cn :: ce :: cp :: rn :: re :: rp :: k :: rest) =>
    match parseQuads rest with
    | some qs =>
      if (qs.length : Int) ≠ k ∨ qs.length ≠ p.children.length then some "count"
      else if qs.all (fun q => match q with
          | [a, b, c, d] => decide (1 ≤ a) && decide (a < b) && decide (b ≤ rn + re + rp + 1) &&
                            decide (1 ≤ c) && decide (c < d) && decide (d ≤ cn + ce + cp + 1)
          | _ => false) then none else some "range"
    | none => some "bad-answer"
  | _ => some "bad-answer"

def step (_ : Unit) (ws : List String) : Unit × String :=
  match ws with
  | "place" :: rest =>
    match parseProblem rest with
    | some p => match p.run with
      | .ok r => ((), showPlace r)
      | _ => ((), "panic")
    | none => ((), "bad-op")
  | "layout" :: rest =>
    match parseProblem rest with
    | some p => match p.run with
      | .ok r => ((), showLayout r)
      | _ => ((), "panic")
    | none => ((), "bad-op")
  | "mon" :: kind :: rest =>
    let req := rest.takeWhile (· ≠ "=>")
    let ans := (rest.dropWhile (· ≠ "=>")).drop 1
    match parseProblem req with
    | none => ((), "bad-op")
    | some p =>
      match ans with
      | ["panic"] => ((), "panic")          -- every generated input is inside the property's domain
      | "ok" :: more =>
        if kind = "place" then
          match parsePlaceAnswer more with
          | some r => ((), match specFailure p.cols p.rows p.children r with | none => "ok" | some t => t)
          | none => ((), "bad-answer")
        else ((), match layoutFailure p more with | none => "ok" | some t => t)
      | _ => ((), "bad-answer")
  | _ => ((), "bad-op")

def handler : Handler := { σ := Unit, init := (), step := step }

end DrvC08
