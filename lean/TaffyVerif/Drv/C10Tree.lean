/-
  C10, tree-level stream (harness/src/c10tree.rs): one whole tree and the implementation's unrounded layouts per line

    c10tree <placement> T <tree tokens (Drv/TreeParse.lean)> L <n> <n × 21 layout tokens, preorder>

  tie pass     : `ok` when the line parses and the tree is in the family of Spec/MarginCollapse.lean, else `out-of-family …`
  monitor pass : (`mon c10tree … => ok`) the specification's `violations` evaluated on the implementation's layouts:
                 `ok` or `bad c10-tree-<clause> node <preorder index> …`
-/
import TaffyVerif.Drv.TreeParse
import TaffyVerif.Spec.MarginCollapse

namespace DrvC10Tree
open Proto Drv MarginCollapse

abbrev F := Float32

def toRat (x : F) : Option Rat := if x.isNaN || x.isInf then none else f32BitsToRat x.toBits.toNat

def pLayoutsN : Nat → P (List (Layout F))
  | 0 => fun ts => some ([], ts)
  | n + 1 => fun ts => do
    let (l, ts) ← pLayout ts
    let (ls, ts) ← pLayoutsN n ts
    pure (l :: ls, ts)

def pLayouts : P (List (Layout F)) := fun ts =>
  match ts with
  | "L" :: n :: rest => do
    let n ← parseNat n
    pLayoutsN n rest
  | _ => none

def lenPx : LPA F → Option Rat
  | .length v => toRat v
  | _ => none
/-- a margin in px: a length, or a percentage of the width of the containing block (CSS 2.1 §8.3: also for the top and bottom
margins), the containing block being the parent's content box as the implementation reports it (`cbw`; `none` at the root) -/
def marginPx (cbw : Option Rat) : LPA F → Option Rat
  | .length v => toRat v
  | .percent p => do let w ← cbw; let q ← toRat p; pure (w * q)
  | _ => none
def lpPx : LP F → Option Rat
  | .length v => toRat v
  | _ => none
/-- `auto` → `none`, a length → `some` -/
def dimPx : Dimension F → Option (Option Rat)
  | .auto => some none
  | .length v => (toRat v).map some
  | .percent _ => none

def isAuto : LPA F → Bool
  | .auto => true
  | _ => false

abbrev R := Except String

def need {β : Type} (what : String) (o : Option β) : R β :=
  match o with
  | some b => .ok b
  | none => .error what

/-- the box of one node: style (with the family's restrictions checked), content, layout -/
def boxOf (cbw : Option Rat) (s : Style F) (ctx : Option (MeasureSpec F)) (leaf : Bool) (l : Layout F) : R Box := do
  if s.boxSizing != .borderBox then throw "box-sizing"
  if s.overflow.x != .visible || s.overflow.y != .visible then throw "overflow"
  if s.aspectRatio.isSome then throw "aspect-ratio"
  if s.itemIsTable then throw "table"
  if s.position == .relative && !(isAuto s.inset.left && isAuto s.inset.right && isAuto s.inset.top && isAuto s.inset.bottom) then
    throw "relative-inset"
  if !(isAuto s.maxSize.width && isAuto s.maxSize.height && isAuto s.minSize.width) then throw "min-max"
  let height ← need "height" (dimPx s.size.height)
  let width ← need "width" (dimPx s.size.width)
  let minH ← need "min-height" (dimPx s.minSize.height)
  let content ← match ctx with
    | none => pure 0
    | some (.fixed _ h) => if leaf then need "content" (toRat h) else throw "content-on-container"
    | some (.wrap _ _) => throw "wrapping-content"
  pure {
    kind := if s.display == .flex || s.display == .grid then .other else .block
    hidden := s.display == .none
    absolute := s.position == .absolute
    marginTop := ← need "margin" (marginPx cbw s.margin.top)
    marginBottom := ← need "margin" (marginPx cbw s.margin.bottom)
    marginLeft := ← need "margin" (marginPx cbw s.margin.left)
    marginRight := ← need "margin" (marginPx cbw s.margin.right)
    paddingTop := ← need "padding" (lpPx s.padding.top)
    paddingBottom := ← need "padding" (lpPx s.padding.bottom)
    paddingLeft := ← need "padding" (lpPx s.padding.left)
    paddingRight := ← need "padding" (lpPx s.padding.right)
    borderTop := ← need "border" (lpPx s.border.top)
    borderBottom := ← need "border" (lpPx s.border.bottom)
    borderLeft := ← need "border" (lpPx s.border.left)
    borderRight := ← need "border" (lpPx s.border.right)
    width := width
    height := height
    minHeight := minH.getD 0
    content := content
    x := ← need "layout" (toRat l.location.x)
    y := ← need "layout" (toRat l.location.y)
    w := ← need "layout" (toRat l.size.width)
    h := ← need "layout" (toRat l.size.height) }

def hasInFlow (kids : List Tree) : Bool := kids.any fun c => c.box.inFlow

mutual
/-- zip the style tree with the preorder layouts.  `root`: the node is the root (may be a flex/grid wrapper) -/
def build (root : Bool) (cbw : Option Rat) : STree F → List (Layout F) → R (Tree × List (Layout F))
  | .node s ctx kids, ls => do
    match ls with
    | [] => throw "layouts"
    | l :: ls =>
      let b ← boxOf cbw s ctx kids.isEmpty l
      if b.kind == .other && !root then throw "flex-or-grid-below-root"
      -- the containing block of the children: this box's content box, from its reported width.  The family only uses
      -- percentages below a box whose content box and border box have the same width (no horizontal padding / border), so
      -- that the reference width is not in question (taffy resolves a block child's margin percentages against the
      -- container's border-box width; CSS 2.1 §8.3 says content box — recorded as an observation in DESIGN.md, not judged here)
      let hInset := b.paddingLeft + b.paddingRight + b.borderLeft + b.borderRight
      let (ks, ls) ← buildKids (if hInset == 0 then some b.w else none) kids ls
      -- (A) `min-height` on a box with in-flow children; (B) `height: 0` around children that all collapse through
      if !b.hidden && b.minHeight != 0 && hasInFlow ks then throw "A:min-height-with-in-flow-children"
      if !b.hidden && b.height == some 0 && hasInFlow ks && collapsesThrough (.node b ks) then throw "B:height-0-around-collapsed-children"
      pure (.node b ks, ls)
def buildKids (cbw : Option Rat) : List (STree F) → List (Layout F) → R (List Tree × List (Layout F))
  | [], ls => pure ([], ls)
  | c :: rest, ls => do
    let (t, ls) ← build false cbw c ls
    let (ts, ls) ← buildKids cbw rest ls
    pure (t :: ts, ls)
end

def treeFuel : Nat := 4096

def parse (ws : List String) : R Tree := do
  match ws with
  | _placement :: "T" :: rest =>
    let (st, ts) ← need "parse-tree" (pTree treeFuel rest)
    let (ls, ts) ← need "parse-layouts" (pLayouts ts)
    if !ts.isEmpty then throw "trailing-tokens"
    let (t, ls) ← build true none st ls
    if !ls.isEmpty then throw "layout-count"
    pure t
  | _ => throw "parse"

def tie (ws : List String) : String :=
  match parse ws with
  | .ok _ => "ok"
  | .error e => s!"out-of-family {e}"

def showRat (q : Rat) : String := if q.den == 1 then toString q.num else s!"{q.num}/{q.den}"

/-- the node at a preorder index (for the message) -/
def nodeAt : Nat → List Tree → Nat → Option Box
  | 0, _, _ => none
  | _ + 1, [], _ => none
  | fuel + 1, c :: rest, i =>
    if i == 0 then some c.box
    else if i < size c then nodeAt fuel c.kids (i - 1)
    else nodeAt fuel rest (i - size c)

def monitor (ws : List String) : String :=
  match parse ws with
  | .error e => s!"out-of-family {e}"
  | .ok t =>
    match violations true 0 t with
    | [] => "ok"
    | (cl, i) :: more =>
      let whereAt := match nodeAt treeFuel [t] i with
        | some b => s!" y {showRat b.y} h {showRat b.h} w {showRat b.w}"
        | none => ""
      s!"bad c10-tree-{cl.name} node {i}{whereAt} ({more.length + 1} violated clauses in this tree)"

end DrvC10Tree
