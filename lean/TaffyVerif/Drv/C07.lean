/-
  C07 driver: one flex line, main axis, at Float32.

  An item is 19 tokens:
    flex_basis inner_flex_basis hyp_inner hyp_outer resolved_min max|- grow shrink margin_start margin_end
    margin_start_auto margin_end_auto inset_start|- inset_end|- frozen violation target outer_target offset_main

  Requests (dir ∈ r c rr cr; jc ∈ - s e fs fe c st sb se sa):
    rfl  dir inner|- gap n item*n           → per item `target outer_target frozen violation`   (or `fuel`)
    drfs dir inner gap jc n item*n          → per item `offset_main margin_start margin_end`
    pos  dir start n (item size)*n          → per item `location.main`
    cao  free n gap mode reversed first     → offset                (compute_alignment_offset)
    aaf  free n mode safe                   → mode                  (apply_alignment_fallback)
    wl   dir tol n (line loc size ms me)*n  → `ok` | `overlap`      (whole-layout observation; the answer is the
                                                                     order/no-overlap predicate itself)
  All numbers are printed with −0.0 mapped to +0.0 (`f32::max/min` are unspecified on (+0, −0)).

  `mon <request> => <implementation answer>` evaluates the conclusions of the C07 theorems on the implementation's own
  answer, over exact rationals (`ok …` or a failure tag):
    rfl : all items frozen, and — when the hypotheses of `flexibility_exhausted` hold for the input — either
          Σ outer target sizes + gaps = inner size, or every item that can still flex sits at its clamp bound.
          `ok exact`  = the implementation's answer equals the ℚ-model's answer, predicate checked with equality;
          `ok tol`    = it does not (some f32 operation rounded), equality of the sum checked within
                        2^-18 · max(1, |inner|, |gaps| + Σ(|flex_basis| + |margins|));
          `ok n/a …`  = hypotheses not met (nothing claimed).
    drfs: with gap, margins, offsets ≥ 0 on input: every resolved margin ≥ 0 and every offset except that of the first
          visited item ≥ 0.
    pos / wl: with non-negative margins, sizes and non-first offsets and default insets: the margin boxes of one line are
          ordered in document order (reversed for *-reverse) and do not overlap (`ok exact` / `ok tol`).
-/
import TaffyVerif.Drv.StyleParse
import TaffyVerif.Model.FlexLine
import TaffyVerif.Drv.C07Brute

namespace DrvC07
open Proto Drv FlexLine

abbrev F := Float32

/-! ### parsing, generic in the number type -/

section
variable {α : Type} (pn : String → Option α)

def pNum : P α := pMap tok pn
def pOptNum : P (Option α) := pMap tok fun s => if s = "-" then some none else (pn s).map some

def pItem : P (FlexItemM α) := fun ts => do
  let (fb, ts) ← pNum pn ts
  let (ifb, ts) ← pNum pn ts
  let (hi, ts) ← pNum pn ts
  let (ho, ts) ← pNum pn ts
  let (rmin, ts) ← pNum pn ts
  let (mx, ts) ← pOptNum pn ts
  let (g, ts) ← pNum pn ts
  let (s, ts) ← pNum pn ts
  let (ms, ts) ← pNum pn ts
  let (me, ts) ← pNum pn ts
  let (msa, ts) ← pBool ts
  let (mea, ts) ← pBool ts
  let (is_, ts) ← pOptNum pn ts
  let (ie, ts) ← pOptNum pn ts
  let (fr, ts) ← pBool ts
  let (viol, ts) ← pNum pn ts
  let (tgt, ts) ← pNum pn ts
  let (otgt, ts) ← pNum pn ts
  let (off, ts) ← pNum pn ts
  pure ({ flexBasis := fb, innerFlexBasis := ifb, hypInner := hi, hypOuter := ho, resolvedMinMain := rmin,
          maxMain := mx, flexGrow := g, flexShrink := s, marginStart := ms, marginEnd := me,
          marginStartAuto := msa, marginEndAuto := mea, insetStart := is_, insetEnd := ie, frozen := fr,
          violation := viol, targetMain := tgt, outerTargetMain := otgt, offsetMain := off }, ts)

def pMany {β : Type} (p : P β) : Nat → P (List β)
  | 0 => fun ts => some ([], ts)
  | n + 1 => fun ts => do
    let (x, ts) ← p ts
    let (xs, ts) ← pMany p n ts
    pure (x :: xs, ts)

def pItemSize : P (FlexItemM α × α) := fun ts => do
  let (c, ts) ← pItem pn ts
  let (s, ts) ← pNum pn ts
  pure ((c, s), ts)
end

def pDir : P FlexDirection := pMap tok fun s => match s with
  | "r" => some FlexDirection.row | "c" => some .column | "rr" => some .rowReverse | "cr" => some .columnReverse
  | _ => none

def showMode : AlignContent → String
  | .start => "s" | .end => "e" | .flexStart => "fs" | .flexEnd => "fe" | .center => "c" | .stretch => "st"
  | .spaceBetween => "sb" | .spaceEvenly => "se" | .spaceAround => "sa"

def pMode : P AlignContent := fun ts =>
  match pAlignContent ts with
  | some (some m, rest) => some (m, rest)
  | _ => none

/-! ### requests at a number type -/

structure RflReq (α : Type) where
  dir : FlexDirection
  inner : Option α
  gap : α
  items : List (FlexItemM α)

def pRfl {α : Type} (pn : String → Option α) : P (RflReq α) := fun ts => do
  let (dir, ts) ← pDir ts
  let (inner, ts) ← pOptNum pn ts
  let (gap, ts) ← pNum pn ts
  let (n, ts) ← pNat ts
  let (items, ts) ← pMany (pItem pn) n ts
  pure ({ dir, inner, gap, items }, ts)

structure DrfsReq (α : Type) where
  dir : FlexDirection
  inner : α
  gap : α
  jc : Option AlignContent
  items : List (FlexItemM α)

def pDrfs {α : Type} (pn : String → Option α) : P (DrfsReq α) := fun ts => do
  let (dir, ts) ← pDir ts
  let (inner, ts) ← pNum pn ts
  let (gap, ts) ← pNum pn ts
  let (jc, ts) ← pAlignContent ts
  let (n, ts) ← pNat ts
  let (items, ts) ← pMany (pItem pn) n ts
  pure ({ dir, inner, gap, jc, items }, ts)

structure PosReq (α : Type) where
  dir : FlexDirection
  start : α
  zs : List (FlexItemM α × α)

def pPos {α : Type} (pn : String → Option α) : P (PosReq α) := fun ts => do
  let (dir, ts) ← pDir ts
  let (start, ts) ← pNum pn ts
  let (n, ts) ← pNat ts
  let (zs, ts) ← pMany (pItemSize pn) n ts
  pure ({ dir, start, zs }, ts)

/-- whole-layout observation of one in-flow child: line id, location.main, size.main, margin start/end -/
structure WlItem (α : Type) where
  line : Nat
  loc : α
  size : α
  ms : α
  me : α

def pWlItem {α : Type} (pn : String → Option α) : P (WlItem α) := fun ts => do
  let (line, ts) ← pNat ts
  let (loc, ts) ← pNum pn ts
  let (size, ts) ← pNum pn ts
  let (ms, ts) ← pNum pn ts
  let (me, ts) ← pNum pn ts
  pure ({ line, loc, size, ms, me }, ts)

/-! ### Float32 answers -/

def sp (xs : List String) : String := String.intercalate " " xs

def ansRfl (r : RflReq F) : String :=
  match resolveFlexibleLengths r.items r.inner r.gap (r.items.length + 1) with
  | none => "fuel"
  | some out => sp (out.map fun c =>
      sp [showF32z c.targetMain, showF32z c.outerTargetMain, showBool c.frozen, showF32z c.violation])

def ansDrfs (r : DrfsReq F) : String :=
  sp ((distributeRemainingFreeSpace r.items r.inner r.gap r.jc r.dir).map fun c =>
    sp [showF32z c.offsetMain, showF32z c.marginStart, showF32z c.marginEnd])

def ansPos (r : PosReq F) : String :=
  sp ((mainAxisPositions r.zs r.start r.dir).map showF32z)

/-! ### property predicates over ℚ -/

def ratAbs (q : Rat) : Rat := if q < 0 then -q else q
def ratMax (a b : Rat) : Rat := if a ≤ b then b else a
def tol18 (scale : Rat) : Rat := ratMax 1 (ratAbs scale) / 262144

/-- `a.end ≤ b.start + tol` for every earlier/later pair (document order; swapped when reversed) -/
def pairwiseOrdered (reversed : Bool) (tol : Rat) : List (Rat × Rat) → Bool
  | [] => true
  | a :: rest =>
    rest.all (fun b => if reversed then decide (b.2 ≤ a.1 + tol) else decide (a.2 ≤ b.1 + tol))
      && pairwiseOrdered reversed tol rest

def sumQ (l : List Rat) : Rat := l.foldl (· + ·) 0

/-- hypotheses of `C07.flexibility_exhausted` on one item -/
def itemWF (c : FlexItemM Rat) : Bool :=
  !c.frozen && decide (0 ≤ c.flexGrow) && decide (0 ≤ c.flexShrink) && decide (0 ≤ c.innerFlexBasis)
    && decide (c.hypInner = clampMain c c.flexBasis) && decide (c.hypOuter = c.hypInner + c.marginSum)

/-- upper clamp bound (`none` = unbounded) and lower clamp bound of the loop's clamp -/
def upperBound (c : FlexItemM Rat) : Option Rat := c.maxMain.map fun mx => ratMax (ratMax mx c.resolvedMinMain) 0
def lowerBound (c : FlexItemM Rat) : Rat := ratMax c.resolvedMinMain 0

/-- conclusion of `flexibility_exhausted` on answers `(target, outer)` -/
def exhaustedOK (r : RflReq Rat) (w : Rat) (growing : Bool) (ans : List (Rat × Rat)) (tol : Rat) : Bool :=
  let gapTotal := sumAxisGaps r.gap r.items.length
  let total := sumQ (ans.map (·.2)) + gapTotal
  let fills := decide (ratAbs (total - w) ≤ tol)
  let atBound := (r.items.zip ans).all fun (c, t, _) =>
    if growing then
      !decide (0 < c.flexGrow) || (match upperBound c with | some u => decide (t = u) | none => false)
    else
      !decide (0 < c.flexShrink * c.innerFlexBasis) || decide (t = lowerBound c)
  fills || atBound

def parseAnsRfl (ws : List String) (n : Nat) : Option (List (Rat × Rat × Bool × Rat)) :=
  (pMany (fun ts => do
    let (t, ts) ← pNum parseRat ts
    let (o, ts) ← pNum parseRat ts
    let (f, ts) ← pBool ts
    let (v, ts) ← pNum parseRat ts
    pure ((t, o, f, v), ts)) n ws).bind fun (l, rest) => if rest.isEmpty then some l else none

def monRfl (req ans : List String) : String :=
  -- termination facet first: the implementation answered (it did not hang) and every item is frozen
  match pRfl parseRat req with
  | none => "ok n/a non-finite-input"
  | some (r, _) =>
    match parseAnsRfl ans r.items.length with
    | none => if ans = ["fuel"] then "not-terminated" else "ok n/a non-finite-answer"
    | some a =>
      if !(a.all fun (_, _, f, _) => f) then "unfrozen-item-on-exit" else
      match r.inner with
      | none => "ok n/a indefinite"
      | some w =>
        if !(r.items.all itemWF) then "ok n/a item-not-wf" else
        let gapTotal := sumAxisGaps r.gap r.items.length
        let uff := gapTotal + sumQ (r.items.map (·.hypOuter))
        let growing := decide (uff < w)
        let shrinking := decide (uff > w)
        let factorsOK :=
          if growing then r.items.all fun c => decide (c.flexGrow = 0) || decide (1 ≤ c.flexGrow)
          else if shrinking then r.items.all fun c => decide (c.flexShrink = 0) || decide (1 ≤ c.flexShrink)
          else true
        if !factorsOK then "ok n/a factor-below-one" else
        let pairs := a.map fun (t, o, _, _) => (t, o)
        -- exact when the implementation's answer is the ℚ-model's answer
        let modelAns : Option (List (Rat × Rat)) :=
          (resolveFlexibleLengths r.items r.inner r.gap (r.items.length + 1)).map fun out =>
            out.map fun c => (c.targetMain, c.outerTargetMain)
        if modelAns == some pairs then
          (if exhaustedOK r w growing pairs 0 then "ok exact" else "not-exhausted exact")
        else
          -- scale: the larger of the inner size and Σ |outer flex base size| + |gaps| (the magnitudes that are summed)
          let scale := ratMax (ratAbs w) (ratAbs gapTotal + sumQ (r.items.map fun c =>
            ratAbs c.flexBasis + ratAbs c.marginStart + ratAbs c.marginEnd))
          (if exhaustedOK r w growing pairs (tol18 scale) then "ok tol" else "not-exhausted tol")

def monDrfs (req ans : List String) : String :=
  match pDrfs parseRat req with
  | none => "ok n/a non-finite-input"
  | some (r, _) =>
    let n := r.items.length
    match (pMany (fun ts => do
        let (o, ts) ← pNum parseRat ts
        let (ms, ts) ← pNum parseRat ts
        let (me, ts) ← pNum parseRat ts
        pure ((o, ms, me), ts)) n ans) with
    | none => "ok n/a non-finite-answer"
    | some (a, _) =>
      let hyp := decide (0 ≤ r.gap) && r.items.all fun c =>
        decide (0 ≤ c.marginStart) && decide (0 ≤ c.marginEnd) && decide (0 ≤ c.offsetMain)
      if !hyp then "ok n/a negative-input" else
      let visited := if r.dir.isReverse then a.reverse else a
      let marginsOK := a.all fun (_, ms, me) => decide (0 ≤ ms) && decide (0 ≤ me)
      let offsetsOK := (visited.drop 1).all fun (o, _, _) => decide (0 ≤ o)
      if !marginsOK then "negative-margin" else if !offsetsOK then "negative-offset" else "ok"

/-- order / no overlap of margin boxes, exact first, then with tolerance -/
def orderVerdict (reversed : Bool) (boxes : List (Rat × Rat)) (scale : Rat) : String :=
  if pairwiseOrdered reversed 0 boxes then "ok exact"
  else if pairwiseOrdered reversed (tol18 scale) boxes then "ok tol"
  else "overlap"

def monPos (req ans : List String) : String :=
  match pPos parseRat req with
  | none => "ok n/a non-finite-input"
  | some (r, _) =>
    match pMany (pNum parseRat) r.zs.length ans with
    | none => "ok n/a non-finite-answer"
    | some (locs, _) =>
      let visited := if r.dir.isReverse then r.zs.reverse else r.zs
      let hyp := (r.zs.all fun (c, s) => decide (0 ≤ c.marginStart) && decide (0 ≤ c.marginEnd) && decide (0 ≤ s)
          && c.insetStart.isNone && c.insetEnd.isNone)
        && (visited.drop 1).all fun (c, _) => decide (0 ≤ c.offsetMain)
      if !hyp then "ok n/a hypotheses" else
      let boxes := (r.zs.zip locs).map fun ((c, s), loc) => marginBox c s loc
      let scale := boxes.foldl (fun m b => ratMax m (ratMax (ratAbs b.1) (ratAbs b.2))) 0
      orderVerdict r.dir.isReverse boxes scale

/-- the `wl` predicate: per line (items with the same line id), margin boxes ordered and disjoint within `tol` -/
def wlVerdict {α : Type} (toQ : α → Option Rat) (dir : FlexDirection) (tol : α) (items : List (WlItem α)) : String :=
  match toQ tol, items.mapM (fun (i : WlItem α) => do
      let loc ← toQ i.loc; let size ← toQ i.size; let ms ← toQ i.ms; let me ← toQ i.me
      pure (i.line, (loc - ms, loc + size + me))) with
  | some tol, some bs =>
    let lines := (bs.map (·.1)).eraseDups
    if lines.all fun l => pairwiseOrdered dir.isReverse tol ((bs.filter fun b => b.1 == l).map (·.2))
    then "ok" else "overlap"
  | _, _ => "ok"

def pWl {α : Type} (pn : String → Option α) : P (FlexDirection × α × List (WlItem α)) := fun ts => do
  let (dir, ts) ← pDir ts
  let (tol, ts) ← pNum pn ts
  let (n, ts) ← pNat ts
  let (items, ts) ← pMany (pWlItem pn) n ts
  pure ((dir, tol, items), ts)

def f32ToRat (x : Float32) : Option Rat := f32BitsToRat x.toBits.toNat

def splitArrow (ws : List String) : List String × List String :=
  (ws.takeWhile (· ≠ "=>"), (ws.dropWhile (· ≠ "=>")).drop 1)

def step (st : Unit) (ws : List String) : Unit × String :=
  match ws with
  | "rfl" :: rest =>
    (st, match pRfl parseF32 rest with | some (r, []) => ansRfl r | _ => "bad-op")
  | "drfs" :: rest =>
    (st, match pDrfs parseF32 rest with | some (r, []) => ansDrfs r | _ => "bad-op")
  | "pos" :: rest =>
    (st, match pPos parseF32 rest with | some (r, []) => ansPos r | _ => "bad-op")
  | ["cao", free, n, gap, mode, rev, first] =>
    (st, match parseF32 free, parseNat n, parseF32 gap, pMode [mode], parseBool rev, parseBool first with
      | some free, some n, some gap, some (mode, _), some rev, some first =>
        showF32z (computeAlignmentOffset free n gap mode rev first)
      | _, _, _, _, _, _ => "bad-op")
  | ["aaf", free, n, mode, safe] =>
    (st, match parseF32 free, parseNat n, pMode [mode], parseBool safe with
      | some free, some n, some (mode, _), some safe => showMode (applyAlignmentFallback free n mode safe)
      | _, _, _, _ => "bad-op")
  | "wl" :: rest =>
    (st, match pWl parseF32 rest with
      | some ((dir, tol, items), []) => wlVerdict f32ToRat dir tol items
      | _ => "bad-op")
  | ["brute", n, samples, seed] =>
    (st, match parseNat n, parseNat samples, parseNat seed with
      | some n, some samples, some seed => C07Brute.run n samples seed
      | _, _, _ => "bad-op")
  | "wlx" :: rest =>
    (st, match pWl parseF32 rest with
      | some ((dir, tol, items), []) => wlVerdict f32ToRat dir tol items
      | _ => "bad-op")
  | "mon" :: "rfl" :: rest => let (q, a) := splitArrow rest; (st, monRfl q a)
  | "mon" :: "drfs" :: rest => let (q, a) := splitArrow rest; (st, monDrfs q a)
  | "mon" :: "pos" :: rest => let (q, a) := splitArrow rest; (st, monPos q a)
  | "mon" :: "wl" :: rest =>
    let (q, a) := splitArrow rest
    (st, match pWl parseRat q with
      | some ((dir, tol, items), []) =>
        -- the monitor re-evaluates the predicate over ℚ and also insists that the implementation-side oracle agreed
        let v := wlVerdict (fun (x : Rat) => some x) dir tol items
        if v = "ok" && a = ["ok"] then "ok" else "overlap"
      | _ => "ok n/a non-finite")
  | "mon" :: _ => (st, "ok")
  | _ => (st, "bad-op")

def handler : Handler := { σ := Unit, init := (), step := step }

end DrvC07
