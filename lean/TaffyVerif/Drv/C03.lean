/-
  C03 driver: what the totality obligations predict for the supervisor's observations —
  every layout in the bounded domain completes (`ok`), every index-checked accessor/mutator answers `err` for an
  out-of-range index (C14's `index_error_iff`), and `remove_children_range` with an out-of-range range panics
  (documented; known finding).
-/
import TaffyVerif.Drv.Common

namespace DrvC03
open Proto

def step (_ : Unit) (ws : List String) : Unit × String :=
  ((), match ws with
  | ["index", "remove_children_range", n, b] =>
    match parseNat n, parseNat b with
    | some n, some b => if b > n then "panic" else "ok"
    | _, _ => "bad-op"
  | ["index", name, n, i] =>
    match parseNat n, parseNat i with
    | some n, some i =>
      -- insert accepts i ≤ n (the harness passes i+1 for it); the others need i < n
      if name == "insert_child_at_index" then (if i + 1 > n then "err" else "ok")
      else if i ≥ n then "err" else "ok"
    | _, _ => "bad-op"
  | "layout" :: _ => "ok"
  | _ => "bad-op")

def handler : Handler := { σ := Unit, init := (), step := step }
end DrvC03
