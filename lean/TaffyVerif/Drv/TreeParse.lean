/-
  Parser for the preorder tree serialisation of harness/src/treegen.rs `TreeDesc::line`:
  per node `<46 style tokens> <ctx> <nchildren>`, children following in order.
-/
import TaffyVerif.Drv.StyleParse
import TaffyVerif.Model.Prog

namespace Drv
open Proto

def pCtx : P (Option (MeasureSpec Float32)) := pMap tok fun s =>
  if s = "-" then some none else
  match s.splitOn ":" with
  | ["f", w, h] => do let w ← parseF32 w; let h ← parseF32 h; pure (some (.fixed w h))
  | ["w", w, h] => do let w ← parseF32 w; let h ← parseF32 h; pure (some (.wrap w h))
  | _ => none

mutual
def pTree (fuel : Nat) : P (STree Float32) := fun ts =>
  match fuel with
  | 0 => none
  | fuel + 1 => do
    let (style, ts) ← pStyle ts
    let (ctx, ts) ← pCtx ts
    let (n, ts) ← pNat ts
    let (kids, ts) ← pTrees fuel n ts
    pure (.node style ctx kids, ts)
def pTrees (fuel : Nat) (n : Nat) : P (List (STree Float32)) := fun ts =>
  match n with
  | 0 => some ([], ts)
  | n + 1 => do
    let (t, ts) ← pTree fuel ts
    let (rest, ts) ← pTrees fuel n ts
    pure (t :: rest, ts)
end

end Drv
