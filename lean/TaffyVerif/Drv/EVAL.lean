/-
  EVAL driver: `compute_root_layout` over the tree-level evaluator (Model/Eval.lean) with the real cache model, the leaf
  model, the block model and the flexbox model (Model/Flex.lean); grid containers are outside this fragment (the harness
  generates none).
-/
import TaffyVerif.Drv.TreeParse
import TaffyVerif.Model.Eval
import TaffyVerif.Model.Leaf
import TaffyVerif.Model.Root
import TaffyVerif.Model.Block
import TaffyVerif.Model.Flex
import TaffyVerif.Drv.GRID
import TaffyVerif.Model.GridEval

namespace DrvEVAL
open Proto Drv Eval

abbrev F := Float32

def leafAlg (inp : LayoutInput F) (st : Style F) (m : Size (Option F) → Size (AvailableSpace F) → Size F) : LayoutOutput F :=
  match LeafModel.computeLeafLayout inp st m with
  | .ok (o, _) => o
  | .error _ => LayoutOutput.hidden

def unmodelled : Style F → List (Style F) → LayoutInput F → ProgM F (LayoutOutput F) :=
  fun _ _ _ => pure LayoutOutput.hidden

def algs : Algs F :=
  { leaf := leafAlg, block := BlockModel.computeBlockLayout, flex := FlexModel.computeFlexboxLayout, grid := GridModel.gridAlg }

/-- one node's style in the `evalg` format: the 46 shared tokens followed by the grid fields -/
def pGStyle : P (Style F) := fun ts => do
  let (g, ts) ← DrvGRID.pGridStyle ts
  let (row, ts) ← DrvGRID.pLinePl ts
  let (col, ts) ← DrvGRID.pLinePl ts
  pure ({ g.base with grid :=
    { templateRows := g.gridTemplateRows, templateColumns := g.gridTemplateColumns, autoRows := g.gridAutoRows,
      autoColumns := g.gridAutoColumns, autoFlow := g.gridAutoFlow, row, column := col } }, ts)

mutual
def pGTree (fuel : Nat) : P (STree F) := fun ts =>
  match fuel with
  | 0 => none
  | fuel + 1 => do
    let (style, ts) ← pGStyle ts
    let (ctx, ts) ← pCtx ts
    let (n, ts) ← pNat ts
    let (kids, ts) ← pGTrees fuel n ts
    pure (.node style ctx kids, ts)
def pGTrees (fuel : Nat) (n : Nat) : P (List (STree F)) := fun ts =>
  match n with
  | 0 => some ([], ts)
  | n + 1 => do
    let (t, ts) ← pGTree fuel ts
    let (rest, ts) ← pGTrees fuel n ts
    pure (t :: rest, ts)
end

mutual
def preorder : NS F (CacheModel.Cache F) → List (Layout F)
  | .mk _ l kids => l :: preorderList kids
def preorderList : List (NS F (CacheModel.Cache F)) → List (Layout F)
  | [] => []
  | k :: ks => preorder k ++ preorderList ks
end

/-- `compute_root_layout` (rounding disabled) from a freshly built tree -/
def layoutRoot (t : STree F) (av : Size (AvailableSpace F)) : List (Layout F) :=
  let inp := RootModel.rootInput t.style av
  let r := evalNode realCache algs (STree.depth t + 1) t (NS.init realCache t) inp
  match preorder r.2 with
  | _ :: rest => RootModel.rootLayout t.style av r.1 :: rest
  | [] => []

/-- the real cache model with a counter of `store`s: in `evalNodeWith` a `store` happens exactly once per evaluation of
the node's body (a cache miss outside hidden run mode), which is what hook H3 records as `QueryKind::Miss` -/
def countingCache : CacheImpl F (CacheModel.Cache F × Nat) where
  empty := (CacheModel.Cache.new, 0)
  get c i := (realCache (α := F)).get c.1 i
  store c i o := ((realCache (α := F)).store c.1 i o, c.2 + 1)
  clear c := ((realCache (α := F)).clear c.1, c.2)

mutual
def preorderCounts : NS F (CacheModel.Cache F × Nat) → List Nat
  | .mk c _ kids => c.2 :: preorderCountsList kids
def preorderCountsList : List (NS F (CacheModel.Cache F × Nat)) → List Nat
  | [] => []
  | k :: ks => preorderCounts k ++ preorderCountsList ks
end

/-- body evaluations per node (preorder) of one `compute_root_layout` over a freshly built tree: the model's prediction
of the cost of a pass (C16's cost tie) -/
def costRoot (t : STree F) (av : Size (AvailableSpace F)) : List Nat :=
  let inp := RootModel.rootInput t.style av
  let r := evalNode countingCache algs (STree.depth t + 1) t (NS.init countingCache t) inp
  preorderCounts r.2

def step (_ : Unit) (ws : List String) : Unit × String :=
  ((), match ws with
  | "eval" :: aw :: ah :: rest =>
    match parseAv aw, parseAv ah, pTree 64 rest with
    | some aw, some ah, some (t, _) =>
      String.intercalate " | " ((layoutRoot t ⟨aw, ah⟩).map showLayout)
    | _, _, _ => "bad-op"
  | "evalg" :: aw :: ah :: rest =>
    match parseAv aw, parseAv ah, pGTree 64 rest with
    | some aw, some ah, some (t, _) =>
      String.intercalate " | " ((layoutRoot t ⟨aw, ah⟩).map showLayout)
    | _, _, _ => "bad-op"
  | "evalgcost" :: aw :: ah :: rest =>
    match parseAv aw, parseAv ah, pGTree 80 rest with
    | some aw, some ah, some (t, _) =>
      String.intercalate " " ((costRoot t ⟨aw, ah⟩).map toString)
    | _, _, _ => "bad-op"
  | _ => "bad-op")

def handler : Handler := { σ := Unit, init := (), step := step }
end DrvEVAL
