/-
  C04 / C05 / C06 / C12 driver: evaluates each whole-layout property's predicate on the implementation's own
  observations (two style trees and the unrounded layouts taffy produced for them), as written by harness/src/pairs.rs:

    obs <PROP> <params…> | <tree A> | <tree B> | <layouts A> | <layouts B>      →  `ok` | `bad <tag> <first failing node>`
    panic <PROP> a|b|both                                                     →  `ok` (both) | `bad panic`
    note <PROP> …                                                             →  `ok`

  Besides the predicate on the layouts, the handler re-derives tree B from tree A (scaling / replacing the picked
  subtree / the content-box → border-box rewrite) on the part of the style that the tree line serialises (everything but
  grid templates and placements) and answers `bad malformed-pair …` when the harness' B is not that tree.
  Numbers are compared as canonical bit patterns (`Proto.showF32z`: −0.0 ↦ +0.0, every NaN ↦ 7fc00000); scaling is the
  exact Float32 multiplication by the power of two.
-/
import TaffyVerif.Drv.TreeParse

namespace DrvPairs
open Proto Drv

/-! ### parsing -/

/-- split a token list at the `|` tokens -/
def splitBar (ws : List String) : List (List String) :=
  let (cur, acc) := ws.foldl (fun (p : List String × List (List String)) w =>
    if w = "|" then ([], p.1.reverse :: p.2) else (w :: p.1, p.2)) ([], [])
  (cur.reverse :: acc).reverse

def pLayouts (fuel : Nat) (ts : List String) : Option (List (Layout Float32)) :=
  match fuel with
  | 0 => none
  | fuel + 1 =>
    if ts.isEmpty then some [] else do
      let (l, rest) ← pLayout ts
      let ls ← pLayouts fuel rest
      pure (l :: ls)

def pWholeTree (ts : List String) : Option (STree Float32) :=
  match pTree 64 ts with
  | some (t, []) => some t
  | _ => none

/-- one node of a tree in preorder, with what the predicates need to know about its position -/
structure Node where
  style : Style Float32
  ctx : Option (MeasureSpec Float32)
  nkids : Nat
  parent : Option Nat
  /-- number of nodes of the subtree rooted here -/
  size : Nat
  /-- the node is `display:none` or lies below such a node -/
  underHidden : Bool
deriving Inhabited

partial def flatten (t : STree Float32) (parent : Option Nat) (under : Bool) (start : Nat) : List Node :=
  match t with
  | .node s c kids =>
    let h := under || s.display == .none
    let rest := kids.foldl (fun (acc : List Node) k => acc ++ flatten k (some start) h (start + 1 + acc.length)) []
    { style := s, ctx := c, nkids := kids.length, parent, size := rest.length + 1, underHidden := h } :: rest

def flat (t : STree Float32) : List Node := flatten t none false 0

/-- the serialised part of a node -/
def Node.same (a b : Node) : Bool := a.style == b.style && a.ctx == b.ctx && a.nkids == b.nkids

/-! ### layouts -/

/-- the 20 numeric fields in `layout_line` order, canonical -/
def fieldsOf (l : Layout Float32) : List Float32 :=
  [l.location.x, l.location.y, l.size.width, l.size.height, l.contentSize.width, l.contentSize.height,
   l.scrollbarSize.width, l.scrollbarSize.height, l.border.left, l.border.right, l.border.top, l.border.bottom,
   l.padding.left, l.padding.right, l.padding.top, l.padding.bottom,
   l.margin.left, l.margin.right, l.margin.top, l.margin.bottom]

def canon (l : Layout Float32) : List String := (fieldsOf l).map showF32z

def allZero (l : Layout Float32) : Bool := (canon l).all (· == "00000000")

/-- every numeric field equal -/
def sameFields (a b : Layout Float32) : Bool := canon a == canon b

/-- every numeric field but content_size equal (content_size = positions 4, 5) -/
def sameButContent (a b : Layout Float32) : Bool :=
  let drop45 (xs : List String) := xs.take 4 ++ xs.drop 6
  drop45 (canon a) == drop45 (canon b)

/-- `b = k · a` field by field, bit-exact after canonicalisation -/
def scaledFields (k : Float32) (a b : Layout Float32) : Bool :=
  (fieldsOf a).map (fun x => showF32z (x * k)) == canon b

/-- first index `i < n` with `bad i` -/
def firstBad (n : Nat) (bad : Nat → Bool) : Option Nat := (List.range n).find? bad

/-- index in B of A's node `j` when the subtree `[idx, idx+sz)` of A is one leaf in B -/
def mapIdx (j idx sz : Nat) : Nat := if j < idx then j else j - sz + 1

def pow2 (e : Int) : Float32 := Float32.ofBits ((127 + e).toNat.toUInt32 <<< 23)

/-! ### C04 -/

def scLPA (k : Float32) : LPA Float32 → LPA Float32
  | .length v => .length (v * k)
  | x => x
def scLP (k : Float32) : LP Float32 → LP Float32
  | .length v => .length (v * k)
  | x => x
def rmap {β γ : Type} (f : β → γ) (r : Rect β) : Rect γ := ⟨f r.left, f r.right, f r.top, f r.bottom⟩
def smap {β γ : Type} (f : β → γ) (s : Size β) : Size γ := ⟨f s.width, f s.height⟩

/-- every absolute length of the (serialised) style × k; percentages, factors, ratios and enums unchanged -/
def scStyle (k : Float32) (s : Style Float32) : Style Float32 :=
  { s with scrollbarWidth := s.scrollbarWidth * k, inset := rmap (scLPA k) s.inset, size := smap (scLPA k) s.size,
           minSize := smap (scLPA k) s.minSize, maxSize := smap (scLPA k) s.maxSize, margin := rmap (scLPA k) s.margin,
           padding := rmap (scLP k) s.padding, border := rmap (scLP k) s.border, gap := smap (scLP k) s.gap,
           flexBasis := scLPA k s.flexBasis }

def scCtx (k : Float32) : Option (MeasureSpec Float32) → Option (MeasureSpec Float32)
  | some (.fixed w h) => some (.fixed (w * k) (h * k))
  | some (.wrap w h) => some (.wrap (w * k) (h * k))
  | none => none

def scAv (k : Float32) : AvailableSpace Float32 → AvailableSpace Float32
  | .definite v => .definite (v * k)
  | x => x

def sameAv (a b : AvailableSpace Float32) : Bool := showAv a == showAv b

def judgeC04 (params : List String) (na nb : List Node) (la lb : List (Layout Float32)) : String :=
  match params with
  | [e, aw, ah, bw, bh] =>
    match parseInt e, parseAv aw, parseAv ah, parseAv bw, parseAv bh with
    | some e, some aw, some ah, some bw, some bh =>
      let k := pow2 e
      -- B must be the scaled A
      if !(sameAv (scAv k aw) bw && sameAv (scAv k ah) bh) then "bad malformed-pair avail" else
      if na.length != nb.length || la.length != na.length then "bad malformed-pair shape" else
      match firstBad na.length (fun i =>
          !(Node.same { na[i]! with style := scStyle k na[i]!.style, ctx := scCtx k na[i]!.ctx } nb[i]!)) with
      | some i => s!"bad malformed-pair {i}"
      | none =>
        if la.length != lb.length then s!"bad c04-not-homogeneous {min la.length lb.length}" else
        match firstBad la.length (fun i => la[i]!.order != lb[i]!.order || !scaledFields k la[i]! lb[i]!) with
        | some i => s!"bad c04-not-homogeneous {i}"
        | none => "ok"
    | _, _, _, _, _ => "bad-request"
  | _ => "bad-request"

/-! ### C05 / C06: a picked subtree of A is one bare leaf in B -/

def bareHidden : Style Float32 := { (Style.default : Style Float32) with display := .none }
def bareAbsolute : Style Float32 := { (Style.default : Style Float32) with position := .absolute }

/-- B's nodes are A's with `[idx, idx+sz)` replaced by one childless, context-free node of style `bare` -/
def replacedOk (na nb : List Node) (idx sz : Nat) (bare : Style Float32) : Bool :=
  idx < na.length && na[idx]!.size == sz && nb.length + sz == na.length + 1 &&
  (List.range na.length).all (fun j =>
    if idx ≤ j && j < idx + sz then true else Node.same na[j]! nb[mapIdx j idx sz]!) &&
  (nb[idx]!.style == bare && nb[idx]!.ctx.isNone && nb[idx]!.nkids == 0)

def identityOk (na nb : List Node) : Bool :=
  na.length == nb.length && (List.range na.length).all (fun j => Node.same na[j]! nb[j]!)

/-- `pick = none`: the identity pair -/
def parsePick (idx sz : String) : Option (Option (Nat × Nat)) :=
  if idx = "-" then some none else do
    let i ← parseNat idx; let s ← parseNat sz
    pure (some (i, s))

def judgeC05 (params : List String) (na nb : List Node) (la lb : List (Layout Float32)) : String :=
  match params with
  | [_, _, idx, sz] =>
    match parsePick idx sz with
    | none => "bad-request"
    | some pick =>
      if la.length != na.length || lb.length != nb.length then "bad malformed-pair shape" else
      let wellFormed := match pick with
        | none => identityOk na nb
        | some (i, s) => i ≥ 1 && replacedOk na nb i s bareHidden && na[i]!.style.display == .none
      if !wellFormed then "bad malformed-pair tree" else
      -- (i) every node at or below a display:none node of A is all-zero
      match firstBad la.length (fun i => na[i]!.underHidden && !allZero la[i]!) with
      | some i => s!"bad c05-hidden-not-zero {i}"
      | none =>
        let (idx, sz) := pick.getD (la.length, 1)
        if lb.length + sz != la.length + 1 then s!"bad c05-hidden-visible {lb.length}" else
        if pick.isSome && !allZero lb[idx]! then s!"bad c05-hidden-not-zero {idx}" else
        -- (ii) every node outside the picked subtree has the same layout, order included
        match firstBad la.length (fun j =>
            if idx ≤ j && j < idx + sz then false else
            let b := lb[mapIdx j idx sz]!
            la[j]!.order != b.order || !sameFields la[j]! b) with
        | some j => s!"bad c05-hidden-visible {j}"
        | none => "ok"
  | _ => "bad-request"

def judgeC06 (params : List String) (na nb : List Node) (la lb : List (Layout Float32)) : String :=
  match params with
  | [_, _, idx, sz, g] =>
    match parsePick idx sz with
    | none => "bad-request"
    | some pick =>
      if la.length != na.length || lb.length != nb.length then "bad malformed-pair shape" else
      let wellFormed := match pick with
        | none => identityOk na nb
        | some (i, s) =>
          i ≥ 1 && replacedOk na nb i s bareAbsolute && na[i]!.style.position == .absolute &&
          na[i]!.style.display != .none &&
          -- g = 1 claims a grid parent
          (g != "1" || (match na[i]!.parent with | some p => na[p]!.style.display == .grid | none => false))
      if !wellFormed then "bad malformed-pair tree" else
      let (idx, sz) := pick.getD (la.length, 1)
      if lb.length + sz != la.length + 1 then s!"bad c06-abs-visible {lb.length}" else
      -- every node outside the picked subtree: everything but content_size and order is unchanged
      match firstBad la.length (fun j =>
          if idx ≤ j && j < idx + sz then false else !sameButContent la[j]! lb[mapIdx j idx sz]!) with
      | some j => s!"bad c06-abs-visible {j}"
      | none => "ok"
  | _ => "bad-request"

/-! ### C12 -/

def lpLen : LP Float32 → Option Float32
  | .length v => some v
  | _ => none
def dimOk : LPA Float32 → Bool
  | .percent _ => false
  | _ => true

/-- the nodes the property quantifies over -/
def eligible (s : Style Float32) : Bool :=
  s.boxSizing == .contentBox && s.aspectRatio.isNone &&
  [s.padding.left, s.padding.right, s.padding.top, s.padding.bottom,
   s.border.left, s.border.right, s.border.top, s.border.bottom].all (fun x => (lpLen x).isSome) &&
  [s.size.width, s.size.height, s.minSize.width, s.minSize.height, s.maxSize.width, s.maxSize.height,
   s.flexBasis].all dimOk

def dimAdd (d : Float32) : LPA Float32 → LPA Float32
  | .length v => .length (v + d)
  | x => x

/-- content-box ↦ border-box with every definite length increased by padding + border of its axis; `flex_basis` by the
sum along the parent flex container's main axis (horizontal when the parent is not a flex container: never read) -/
def toBorderBox (s : Style Float32) (mainRow : Bool) : Style Float32 :=
  let v := fun x => (lpLen x).getD 0
  let h := v s.padding.left + v s.padding.right + v s.border.left + v s.border.right
  let w := v s.padding.top + v s.padding.bottom + v s.border.top + v s.border.bottom
  { s with boxSizing := .borderBox,
           size := ⟨dimAdd h s.size.width, dimAdd w s.size.height⟩,
           minSize := ⟨dimAdd h s.minSize.width, dimAdd w s.minSize.height⟩,
           maxSize := ⟨dimAdd h s.maxSize.width, dimAdd w s.maxSize.height⟩,
           flexBasis := dimAdd (if mainRow then h else w) s.flexBasis }

def parentMainRow (na : List Node) (i : Nat) : Bool :=
  match na[i]!.parent with
  | some p => if na[p]!.style.display == .flex then na[p]!.style.flexDirection.isRow else true
  | none => true

def judgeC12 (params : List String) (na nb : List Node) (la lb : List (Layout Float32)) : String :=
  match params with
  | _ :: _ :: k :: idxs =>
    match parseNat k, idxs.mapM parseNat with
    | some k, some sw =>
      if sw.length != k || na.length != nb.length || la.length != na.length then "bad malformed-pair shape" else
      match firstBad na.length (fun i =>
          if sw.contains i then
            !(eligible na[i]!.style &&
              Node.same { na[i]! with style := toBorderBox na[i]!.style (parentMainRow na i) } nb[i]!)
          else !Node.same na[i]! nb[i]!) with
      | some i => s!"bad malformed-pair {i}"
      | none =>
        if la.length != lb.length then s!"bad c12-box-sizing-differs {min la.length lb.length}" else
        match firstBad la.length (fun i => la[i]!.order != lb[i]!.order || !sameFields la[i]! lb[i]!) with
        | some i => s!"bad c12-box-sizing-differs {i}"
        | none => "ok"
    | _, _ => "bad-request"
  | _ => "bad-request"

/-! ### handler -/

def judge (prop : String) (params : List String) (na nb : List Node) (la lb : List (Layout Float32)) : String :=
  match prop with
  | "C04" => judgeC04 params na nb la lb
  | "C05" => judgeC05 params na nb la lb
  | "C06" => judgeC06 params na nb la lb
  | "C12" => judgeC12 params na nb la lb
  | _ => "bad-request"

/-- `want`: the property this handler instance is registered for -/
def step (want : String) (_ : Unit) (ws : List String) : Unit × String :=
  match ws with
  | "obs" :: prop :: rest =>
    if prop != want then ((), "bad-request wrong-property") else
    match splitBar rest with
    | [params, ta, tb, la, lb] =>
      match pWholeTree ta, pWholeTree tb, pLayouts 4096 la, pLayouts 4096 lb with
      | some ta, some tb, some la, some lb => ((), judge prop params (flat ta) (flat tb) la lb)
      | _, _, _, _ => ((), "bad-request unparsable")
    | _ => ((), "bad-request sections")
  | ["panic", _, "both"] => ((), "ok")
  | "panic" :: _ => ((), "bad panic")
  | "note" :: _ => ((), "ok")
  | _ => ((), "bad-request")

def handler (want : String) : Handler := { σ := Unit, init := (), step := step want }

end DrvPairs

namespace DrvC04
def handler : Handler := DrvPairs.handler "C04"
end DrvC04
namespace DrvC05
def handler : Handler := DrvPairs.handler "C05"
end DrvC05
namespace DrvC06
def handler : Handler := DrvPairs.handler "C06"
end DrvC06
namespace DrvC12
def handler : Handler := DrvPairs.handler "C12"
end DrvC12
