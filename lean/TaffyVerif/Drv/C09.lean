/-
  C09 driver: grid track initialisation and track sizing at Float32.

  requests (harness/src/c09.rs):
    explicit <size> <maxsize> <gap> <inner> <template>                         → N | overflow | panic
    init <neg> <expl> <pos> <gap> <k> <occupied…> <autos> <template>           → <len> (<g|t><c|n> <min> <max>)*
    fr <space> <n> (<max> <base>)*                                            → size of an fr
    align <content box> <padding> <border> <mode> <n> (<g|t><c|n> <min> <max> <base> <gl>)*   → offsets
    maximise|stretch <opt> <avail> <n> (<g|t><c|n> <min> <max> <base> <gl>)*    → base sizes
    sizing <min> <max> <stretch> <avail> <inner> <n> (<g|t><c|n> <min> <max>)* <k> (<start> <end> <scroll> <minC> <maxC> <minimum>)*
                                                                              → base sizes
    obs <axis> <size> <gap> <inner> <k> <occupied…> <autos> <template> | <neg> <expl> <pos> <n> sizes… <n+1> gutters…   → ok
  `mon` lines evaluate the property clauses on the implementation's answer / observation.
-/
import TaffyVerif.Drv.StyleParse
import TaffyVerif.Model.FrSize
import TaffyVerif.Model.Alignment

namespace DrvC09
open Proto Drv GridTracks

abbrev F := Float32

def pVal (pre : String) (s : String) : Option F :=
  if s.startsWith pre then parseF32 (s.drop pre.length).toString else none

def pMin : P (MinTrack F) := pMap tok fun s =>
  if s = "a" then some .auto else if s = "mn" then some .minContent else if s = "mx" then some .maxContent
  else if s.startsWith "l:" then (pVal "l:" s).map .length
  else if s.startsWith "p:" then (pVal "p:" s).map .percent
  else none

def pMax : P (MaxTrack F) := pMap tok fun s =>
  if s = "a" then some .auto else if s = "mn" then some .minContent else if s = "mx" then some .maxContent
  else if s.startsWith "l:" then (pVal "l:" s).map .length
  else if s.startsWith "p:" then (pVal "p:" s).map .percent
  else if s.startsWith "fp:" then (pVal "fp:" s).map .fitContentPx
  else if s.startsWith "fq:" then (pVal "fq:" s).map .fitContentPercent
  else if s.startsWith "fr:" then (pVal "fr:" s).map .fr
  else none

def pFn : P (TrackFn F) := fun ts => do
  let (mn, ts) ← pMin ts
  let (mx, ts) ← pMax ts
  pure (⟨mn, mx⟩, ts)

def pRepeat {β : Type} (p : P β) : Nat → P (List β)
  | 0 => fun ts => some ([], ts)
  | n + 1 => fun ts => do
    let (x, ts) ← p ts
    let (xs, ts) ← pRepeat p n ts
    pure (x :: xs, ts)

def pList {β : Type} (p : P β) : P (List β) := fun ts => do
  let (n, ts) ← pNat ts
  pRepeat p n ts

def pDef : P (TrackDef F) := fun ts =>
  match ts with
  | "s" :: ts => do
    let (f, ts) ← pFn ts
    pure (.single f, ts)
  | "r" :: k :: ts => do
    let kind ← (if k = "fill" then some Repetition.autoFill else if k = "fit" then some .autoFit
      else if k.startsWith "c:" then (parseNat (k.drop 2).toString).map .count else none)
    let (fs, ts) ← pList pFn ts
    pure (.rep kind fs, ts)
  | _ => none

def pTemplate : P (List (TrackDef F)) := pList pDef

def showMin : MinTrack F → String
  | .length v => "l:" ++ showF32 v
  | .percent v => "p:" ++ showF32 v
  | .auto => "a"
  | .minContent => "mn"
  | .maxContent => "mx"

def showMax : MaxTrack F → String
  | .length v => "l:" ++ showF32 v
  | .percent v => "p:" ++ showF32 v
  | .auto => "a"
  | .minContent => "mn"
  | .maxContent => "mx"
  | .fitContentPx v => "fp:" ++ showF32 v
  | .fitContentPercent v => "fq:" ++ showF32 v
  | .fr v => "fr:" ++ showF32 v

def showTrackFns (t : GridTrack F) : String :=
  (if t.kind == .gutter then "g" else "t") ++ (if t.isCollapsed then "c" else "n") ++ " " ++ showMin t.minFn ++ " "
    ++ showMax t.maxFn

def showGErr : GErr → String
  | .overflow => "overflow"
  | .unwrapNone => "panic"

/-- `<g|t><c|n> <min> <max>` -/
def pTrackHead : P (GridTrack F) := fun ts => do
  let (k, ts) ← tok ts
  let (mn, ts) ← pMin ts
  let (mx, ts) ← pMax ts
  let kind ← (if k.startsWith "g" then some TrackKind.gutter else if k.startsWith "t" then some .track else none)
  let t : GridTrack F := GridTrack.newWithKind kind mn mx
  pure ({ t with isCollapsed := k.endsWith "c" }, ts)

def pExt : P (Ext F) := pMap tok fun s => (parseF32 s).map fun v => if v.isInf then .inf else .fin v

/-- `<g|t><c|n> <min> <max> <base> <growth limit>` -/
def pTrackSized : P (GridTrack F) := fun ts => do
  let (t, ts) ← pTrackHead ts
  let (b, ts) ← pF32 ts
  let (g, ts) ← pExt ts
  pure ({ t with baseSize := b, growthLimit := g }, ts)

def pItem : P (Item F) := fun ts => do
  let (s, ts) ← pNat ts
  let (e, ts) ← pNat ts
  let (sc, ts) ← pBool ts
  let (mn, ts) ← pF32 ts
  let (mx, ts) ← pF32 ts
  let (mi, ts) ← pF32 ts
  pure ({ start := s, «end» := e, scroll := sc, minContent := mn, maxContent := mx, minimum := mi }, ts)

def showBases (ts : List (GridTrack F)) : String :=
  String.intercalate " " (ts.map fun t => showF32z t.baseSize)

structure SizingReq where
  params : SizingParams F
  tracks : List (GridTrack F)
  items : List (Item F)

def pSizing : P SizingReq := fun ts => do
  let (mn, ts) ← pOptF32 ts
  let (mx, ts) ← pOptF32 ts
  let (st, ts) ← pBool ts
  let (av, ts) ← pAv ts
  let (inner, ts) ← pOptF32 ts
  let (tracks, ts) ← pList pTrackHead ts
  let (items, ts) ← pList pItem ts
  -- items must lie inside the track vector (`&mut axis_tracks[range]` would panic otherwise)
  if items.all fun it => it.start < it.end && 2 * it.end < tracks.length then
    pure ({ params := { axisMinSize := mn, axisMaxSize := mx, stretch := st, avail := av, axisInner := inner },
            tracks, items }, ts)
  else none

structure ObsReq where
  size : Dimension F
  /-- max-size of the container in this axis -/
  maxSize : Dimension F
  gap : LP F
  /-- content-box size if the style size is a definite length (clamped by min/max): the fill clause's hypothesis -/
  inner : Option F
  /-- the content-box size auto-repetitions are counted against, computed by the harness from the style alone
      (size, else max size, else min size; clamped; floored at padding + border) -/
  autoFitInner : Option F
  occ : List Nat
  autos : List (TrackFn F)
  tpl : List (TrackDef F)
  neg : Nat
  expl : Nat
  pos : Nat
  sizes : List F
  gutters : List F

def pObs : P ObsReq := fun ts => do
  let (_, ts) ← tok ts
  let (size, ts) ← pLPA ts
  let (maxSize, ts) ← pLPA ts
  let (gap, ts) ← pLP ts
  let (inner, ts) ← pOptF32 ts
  let (autoFitInner, ts) ← pOptF32 ts
  let (occ, ts) ← pList pNat ts
  let (autos, ts) ← pList pFn ts
  let (tpl, ts) ← pTemplate ts
  match ts with
  | "|" :: ts => do
    let (neg, ts) ← pNat ts
    let (expl, ts) ← pNat ts
    let (pos, ts) ← pNat ts
    let (sizes, ts) ← pList pF32 ts
    let (gutters, ts) ← pList pF32 ts
    pure ({ size, maxSize, gap, inner, autoFitInner, occ, autos, tpl, neg, expl, pos, sizes, gutters }, ts)
  | _ => none

/-! ### property monitor -/

def tol : F := Float32.ofBits 0x36800000  -- 2^-18

def sumL (l : List F) : F := l.foldl (· + ·) 0

/-- a fixed track: min and max are the same length -/
def fixedLen (t : GridTrack F) : Option F :=
  match t.minFn, t.maxFn with
  | .length a, .length b => if a == b then some a else none
  | _, _ => none

/-- clauses of C09 on one axis of `DetailedGridInfo` -/
def monObs (o : ObsReq) : String :=
  let n := o.sizes.length
  if o.gutters.length != n + 1 || n != o.neg + o.expl + o.pos then "shape" else
  match computeExplicitGridSizeInAxis o.size o.maxSize o.gap o.tpl o.autoFitInner with
  | .error _ => "ok skipped-overflow"
  | .ok e =>
  if e != o.expl then "explicit-count" else
  match initializeGridTracks ⟨o.neg, o.expl, o.pos⟩ o.tpl o.autos o.gap (fun i => o.occ.contains i) with
  | .error _ => "ok skipped-overflow"
  | .ok ts =>
    if ts.length != 2 * n + 1 then "explicit-count-emitted" else
    let idx := List.range n
    -- fixed tracks exact
    let fixedBad := idx.filterMap fun i =>
      match fixedLen (ts.getD (2 * i + 1) default), o.sizes[i]? with
      | some v, some s => if s == v then none else some (s - v)
      | _, _ => none
    let gapLen : Option F := match o.gap with | .length v => some v | .percent _ => none
    let gutBad := (List.range (n + 1)).filterMap fun i =>
      let want : Option F := if i == 0 || i == n || (ts.getD (2 * i) default).isCollapsed then some 0 else gapLen
      match want, o.gutters[i]? with
      | some w, some g => if g == w then none else some (g - w)
      | _, _ => none
    if !fixedBad.isEmpty then "fixed-track-not-exact" else
    if !gutBad.isEmpty then "gutter-not-gap" else
    -- fill clause
    let fill : String :=
      match o.inner with
      | none => "ok"
      | some inner =>
        let frs := idx.filterMap fun i => match (ts.getD (2 * i + 1) default).maxFn, o.sizes[i]? with
          | .fr f, some s => some (f, s)
          | _, _ => none
        let fsum := sumL (frs.map (·.1))
        if fsum >= 1 then
          let total := sumL o.sizes + sumL o.gutters
          let scale := if inner > 1 then inner else 1
          if total < inner - tol * (Float32.ofNat (n + 8) / 8) * scale then
            let ratios := (frs.filter fun x => x.1 > 0).map fun x => x.2 / x.1
            let frSize := ratios.foldl (fun a b => if b < a then b else a) (Float32.ofBits 0x7f800000)
            let flexSum := sumL ((frs.filter fun x =>
              x.1 > 0 && (x.2 - x.1 * frSize).abs <= tol * (if x.2 > 1 then x.2 else 1)).map (·.1))
            if flexSum < 1 then "ok known:fr-underfill-content-floored" else "fr-underfill"
          else "ok"
        else "ok"
    fill

/-- `tracks_alternate` on an implementation answer of `init` -/
def monInit (gap : LP F) (ts : List (GridTrack F)) : String :=
  let n := ts.length
  if n % 2 != 1 then "length-even" else
  let kindsOk := (List.range n).all fun i =>
    (ts.getD i default).kind == (if i % 2 == 0 then TrackKind.gutter else TrackKind.track)
  if !kindsOk then "kinds-do-not-alternate" else
  let zero (t : GridTrack F) : Bool :=
    t.isCollapsed && showMin t.minFn == "l:00000000" && showMax t.maxFn == "l:00000000"
  if !(zero (ts.getD 0 default) && zero (ts.getD (n - 1) default)) then "outer-gutter-not-collapsed" else
  let innerOk := (List.range n).all fun i =>
    if i % 2 == 0 && 0 < i && i < n - 1 then
      let g := ts.getD i default
      (!g.isCollapsed && showMin g.minFn == showMin (MinTrack.ofLP gap) && showMax g.maxFn == showMax (MaxTrack.ofLP gap))
        || (zero g && (ts.getD (i - 1) default).isCollapsed)
    else true
  if innerOk then "ok" else "gutter-not-gap"

/-- `fr_fills_partial` on an implementation answer of `fr` -/
def monFr (space : F) (tracks : List (GridTrack F)) (ans : F) : String :=
  if space == 0 then (if ans == 0 then "ok" else "fr-nonzero-for-zero-space") else
  let flex := tracks.filter fun t => match t.maxFn with
    | .fr f => f * ans >= t.baseSize
    | _ => false
  let flexSum := sumL (flex.map (·.flexFactor))
  if flexSum >= 1 then
    let total := sumL (tracks.map fun t => match t.maxFn with
      | .fr f => if f * ans >= t.baseSize then f * ans else t.baseSize
      | _ => t.baseSize)
    let scale := if space.abs > 1 then space.abs else 1
    if total >= space - tol * scale then "ok" else "fr-does-not-fill"
  else "ok"

/-- `fixed_track_exact` on an implementation answer of `sizing` -/
def monSizing (r : SizingReq) (ans : List F) : String :=
  if ans.length != r.tracks.length then "shape" else
  let n := r.tracks.length
  let bad := (List.range n).filterMap fun i =>
    match fixedLen (r.tracks.getD i default), ans[i]? with
    | some v, some s => if s == v then none else some (s - v)
    | _, _ => none
  if bad.isEmpty then "ok" else "fixed-track-not-exact"

/-! ### requests -/

def runSizing (r : SizingReq) : List (GridTrack F) := trackSizingAlgorithm r.params r.tracks r.items

def answer (ws : List String) : String :=
  match ws with
  | "explicit" :: rest =>
    (do
      let (size, ts) ← pLPA rest
      let (maxSize, ts) ← pLPA ts
      let (gap, ts) ← pLP ts
      let (inner, ts) ← pOptF32 ts
      let (tpl, _) ← pTemplate ts
      pure (match computeExplicitGridSizeInAxis size maxSize gap tpl inner with
        | .ok n => toString n
        | .error e => showGErr e)).getD "bad-op"
  | "init" :: rest =>
    (do
      let (neg, ts) ← pNat rest
      let (expl, ts) ← pNat ts
      let (pos, ts) ← pNat ts
      let (gap, ts) ← pLP ts
      let (occ, ts) ← pList pNat ts
      let (autos, ts) ← pList pFn ts
      let (tpl, _) ← pTemplate ts
      pure (match initializeGridTracks ⟨neg, expl, pos⟩ tpl autos gap (fun i => occ.contains i) with
        | .ok l => String.intercalate " " (toString l.length :: l.map showTrackFns)
        | .error e => showGErr e)).getD "bad-op"
  | "fr" :: rest =>
    (do
      let (space, ts) ← pF32 rest
      let (tracks, _) ← pList (fun ts => do
        let (mx, ts) ← pMax ts
        let (b, ts) ← pF32 ts
        let t : GridTrack F := GridTrack.newWithKind .track .auto mx
        pure ({ t with baseSize := b }, ts)) ts
      pure (showF32z (findSizeOfFr tracks space))).getD "bad-op"
  | "maximise" :: rest =>
    (do
      let (inner, ts) ← pOptF32 rest
      let (av, ts) ← pAv ts
      let (tracks, _) ← pList pTrackSized ts
      pure (showBases (maximiseTracks tracks inner av))).getD "bad-op"
  | "stretch" :: rest =>
    (do
      let (mn, ts) ← pOptF32 rest
      let (av, ts) ← pAv ts
      let (tracks, _) ← pList pTrackSized ts
      pure (showBases (stretchAutoTracks tracks mn av))).getD "bad-op"
  | "sizing" :: rest =>
    (do
      let (r, _) ← pSizing rest
      pure (showBases (runSizing r))).getD "bad-op"
  | "align" :: rest =>
    (do
      let (cb, ts) ← pF32 rest
      let (pad, ts) ← pF32 ts
      let (bor, ts) ← pF32 ts
      let (mode, ts) ← pAlignContent ts
      let mode ← mode
      let (tracks, _) ← pList pTrackSized ts
      pure (String.intercalate " " ((alignTracks cb pad bor tracks mode).map fun (t : GridTrack F) => showF32z t.offset))).getD "bad-op"
  | "obs" :: _ => "ok"
  | _ => "bad-op"

def splitArrow (ws : List String) : List String × List String :=
  (ws.takeWhile (· ≠ "=>"), (ws.dropWhile (· ≠ "=>")).drop 1)

def monitor (ws : List String) : String :=
  let (req, ans) := splitArrow ws
  match req with
  | "obs" :: rest =>
    match pObs rest with
    | some (o, _) => monObs o
    | none => "bad-op"
  | "init" :: rest =>
    (do
      let (_, ts) ← pNat rest
      let (_, ts) ← pNat ts
      let (_, ts) ← pNat ts
      let (gap, _) ← pLP ts
      if ans == ["panic"] then pure "ok" else
      let (tracks, _) ← pList pTrackHead ans
      pure (monInit gap tracks)).getD "bad-op"
  | "fr" :: rest =>
    (do
      let (space, ts) ← pF32 rest
      let (tracks, _) ← pList (fun ts => do
        let (mx, ts) ← pMax ts
        let (b, ts) ← pF32 ts
        let t : GridTrack F := GridTrack.newWithKind .track .auto mx
        pure ({ t with baseSize := b }, ts)) ts
      let (v, _) ← pF32 ans
      pure (monFr space tracks v)).getD "bad-op"
  | "sizing" :: rest =>
    (do
      let (r, _) ← pSizing rest
      if ans == ["panic"] then pure "ok" else
      let vs ← ans.mapM parseF32
      pure (monSizing r vs)).getD "bad-op"
  | _ => "ok"

def step (_ : Unit) (ws : List String) : Unit × String :=
  match ws with
  | "mon" :: rest => ((), monitor rest)
  | _ => ((), answer ws)

def handler : Handler := { σ := Unit, init := (), step := step }

end DrvC09
