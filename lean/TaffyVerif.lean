import TaffyVerif.Num
import TaffyVerif.Proto
import TaffyVerif.Model.Geometry
import TaffyVerif.Model.Cache
import TaffyVerif.Model.Style
import TaffyVerif.Drv.StyleParse
import TaffyVerif.Model.Prog
import TaffyVerif.Drv.TreeParse
