import TaffyVerif.Num
import TaffyVerif.Proto
import TaffyVerif.Model.Geometry
import TaffyVerif.Model.Cache
