import TaffyVerif.Drv.C02
import TaffyVerif.Drv.Hist
import TaffyVerif.Drv.C09
import TaffyVerif.Drv.EVAL
import TaffyVerif.Drv.Pairs
import TaffyVerif.Drv.C07
import TaffyVerif.Drv.C19
import TaffyVerif.Drv.C11
import TaffyVerif.Drv.C10
import TaffyVerif.Drv.C08
import TaffyVerif.Drv.C03
import TaffyVerif.Drv.C14
import TaffyVerif.Drv.C13
import TaffyVerif.Drv.C18
import TaffyVerif.Drv.C15
import TaffyVerif.Drv.FLEX
import TaffyVerif.Drv.GRID

def handlers : List (String × Handler) := [
  ("C02", DrvC02.handler),
  ("C01", DrvHist.handlerC01),
  ("C16", DrvHist.handlerC16),
  ("C17", DrvHist.handlerC17),
  ("C09", DrvC09.handler),
  ("EVAL", DrvEVAL.handler),
  ("C04", DrvC04.handler),
  ("C05", DrvC05.handler),
  ("C06", DrvC06.handler),
  ("C12", DrvC12.handler),
  ("C07", DrvC07.handler),
  ("C19", DrvC19.handler),
  ("C11", DrvC11.handler),
  ("C10", DrvC10.handler),
  ("C08", DrvC08.handler),
  ("C03", DrvC03.handler),
  ("C14", DrvC14.handler),
  ("C13", DrvC13.handler),
  ("C18", DrvC18.handler),
  ("C15", DrvC15.handler),
  ("FLEX", DrvFLEX.handler),
  ("GRID", DrvGRID.handler)
]

partial def loop (h : Handler) (inp : IO.FS.Stream) (out : IO.FS.Stream) (s : h.σ) : IO Unit := do
  let line ← inp.getLine
  if line.isEmpty then return ()
  if line.startsWith "#" then
    -- case separator: echoed, and the handler state is reset
    out.putStr line
    if !line.endsWith "\n" then out.putStrLn ""
    loop h inp out h.init
  else
    let (s', ans) := h.step s (Proto.words line)
    out.putStrLn ans
    loop h inp out s'

def main (args : List String) : IO UInt32 := do
  match args with
  | [p] =>
    match handlers.lookup p with
    | some h =>
      let inp ← IO.getStdin
      let out ← IO.getStdout
      loop h inp out h.init
      out.flush
      return 0
    | none => IO.eprintln s!"unknown handler {p}"; return 2
  | _ => IO.eprintln "usage: tvdriver <property>"; return 2
