//! src/geometry.rs and the `TaffyZero` part of src/style_helpers.rs  →  Generated/Geometry.lean
//! Generic impls are instantiated at `f32` (the only instantiation the hand-written models use).
use crate::emit::{check_adt, impl_items, impls, norm, Out, Plan};
use crate::lean::{Ty, World};
use crate::util::{parse_file, CfgEnv};
use std::collections::HashMap;
use syn::{ImplItem, Item};

pub const REQUIRED: &[&str] = &[
    "Rect.horizontal_axis_sum", "Rect.vertical_axis_sum", "Rect.sum_axes", "Rect.ZERO", "Size.ZERO", "Size.f32_max", "Size.f32_min",
    "Size.NONE", "Size.maybe_apply_aspect_ratio", "Size.unwrap_or", "Size.or", "Size.both_axis_defined", "Point.ZERO", "Point.NONE",
    "Line.FALSE", "f32.TaffyZero_ZERO", "Size.TaffyZero_ZERO", "Rect.TaffyZero_ZERO", "Point.TaffyZero_ZERO", "Size.zero", "Rect.zero", "Point.zero",
];

pub fn extract(repo: &str, w: &mut World) -> Result<String, String> {
    let file = parse_file(&format!("{repo}/src/geometry.rs"))?;
    let env = CfgEnv::default_build();
    for n in ["Size", "Point", "Rect", "Line"] {
        check_adt(w, &file.items, &env, n, false)?;
    }
    let mut out = Out::new("Gen.Geometry", "src/geometry.rs, src/style_helpers.rs (TaffyZero)", &["TaffyVerif.Generated.Prelude", "TaffyVerif.Generated.Sys"]);
    let f = Ty::F32;
    let of = Ty::opt(Ty::F32);
    let mut v = vec![];
    impls(&file.items, &env, &[], &mut v)?;
    let g = |names: &[&str]| -> HashMap<String, Ty> { names.iter().map(|n| (n.to_string(), Ty::F32)).collect() };
    // the `FlexDirection`-indexed accessors go to Generated/Axes.lean (extract/src/axes.rs), after `impl FlexDirection`
    out.comment("Rect::main_axis_sum, Rect::cross_axis_sum, Size::from_cross (and the generic `impl<T>` accessors): see Generated/Axes.lean");
    out.text.push('\n');
    for info in &v {
        if info.trait_.is_some() {
            continue;
        }
        match (info.self_ty.as_str(), info.generics.len()) {
            ("Rect<T>", 2) => impl_items(&mut out, w, info, &env, "Rect", Some(Ty::adt("Rect", vec![f.clone()])), &g(&["T", "U"]), "Rect.", REQUIRED, &["main_axis_sum", "cross_axis_sum"])?,
            ("Rect<f32>", 0) => impl_items(&mut out, w, info, &env, "Rect", Some(Ty::adt("Rect", vec![f.clone()])), &g(&[]), "Rect.", REQUIRED, &[])?,
            ("Size<f32>", 0) => impl_items(&mut out, w, info, &env, "Size", Some(Ty::adt("Size", vec![f.clone()])), &g(&[]), "Size.", REQUIRED, &[])?,
            ("Size<Option<f32>>", 0) => impl_items(&mut out, w, info, &env, "Size", Some(Ty::adt("Size", vec![of.clone()])), &g(&[]), "Size.", REQUIRED, &["from_cross"])?,
            ("Size<Option<T>>", 1) => impl_items(&mut out, w, info, &env, "Size", Some(Ty::adt("Size", vec![of.clone()])), &g(&["T"]), "Size.", REQUIRED, &[])?,
            ("Line<bool>", 0) => impl_items(&mut out, w, info, &env, "Line", Some(Ty::adt("Line", vec![Ty::Bool])), &g(&[]), "Line.", REQUIRED, &[])?,
            ("Point<f32>", 0) => impl_items(&mut out, w, info, &env, "Point", Some(Ty::adt("Point", vec![f.clone()])), &g(&[]), "Point.", REQUIRED, &[])?,
            ("Point<Option<f32>>", 0) => impl_items(&mut out, w, info, &env, "Point", Some(Ty::adt("Point", vec![of.clone()])), &g(&[]), "Point.", REQUIRED, &[])?,
            _ => {}
        }
    }
    // style_helpers.rs: `TaffyZero` at f32, and the `zero()` constructors
    let sh = parse_file(&format!("{repo}/src/style_helpers.rs"))?;
    out.comment("src/style_helpers.rs: `TaffyZero::ZERO` (instantiated at f32) and the `zero()` constructors");
    let mut zero_fn_ok = false;
    for it in &sh.items {
        if let Item::Fn(ff) = it {
            if ff.sig.ident == "zero" {
                // `pub const fn zero<T: TaffyZero>() -> T { T::ZERO }` — calls `zero::<X>()` are translated as `<X as TaffyZero>::ZERO`
                zero_fn_ok = norm(&ff.block) == "{T::ZERO}";
            }
        }
    }
    if !zero_fn_ok {
        return Err("style_helpers::zero is no longer `T::ZERO`".into());
    }
    let mut v2 = vec![];
    impls(&sh.items, &env, &[], &mut v2)?;
    // trait constants first (f32, then the containers), then the inherent `zero()`s
    for pass in 0..3 {
        for info in &v2 {
            let (head, st): (&str, Ty) = match info.self_ty.as_str() {
                "f32" => ("f32", Ty::F32),
                "Size<T>" => ("Size", Ty::adt("Size", vec![f.clone()])),
                "Rect<T>" => ("Rect", Ty::adt("Rect", vec![f.clone()])),
                "Point<T>" => ("Point", Ty::adt("Point", vec![f.clone()])),
                _ => continue,
            };
            let is_zero_trait = info.trait_.as_deref() == Some("TaffyZero");
            match pass {
                0 | 1 if is_zero_trait && ((pass == 0) == (head == "f32")) => {
                    for ii in info.items {
                        if let ImplItem::Const(c) = ii {
                            if c.ident == "ZERO" {
                                out.constant(w, head, "<TaffyZero>::ZERO", "TaffyZero::ZERO", &format!("{head}.TaffyZero_ZERO"), Some(st.clone()), g(&["T"]), &c.ty, &c.expr, true);
                            }
                        }
                    }
                }
                2 if info.trait_.is_none() && head != "f32" => {
                    for ii in info.items {
                        if let ImplItem::Fn(ff) = ii {
                            if ff.sig.ident == "zero" {
                                out.function(w, Plan { head: head.to_string(), rust_name: "zero".into(), lean_rel: format!("{head}.zero"), self_ty: Some(st.clone()), generics: g(&["T"]), sig: &ff.sig, block: &ff.block, required: true, trunc_sub: false });
                            }
                        }
                    }
                }
                _ => {}
            }
        }
    }
    out.finish(REQUIRED)
}
