//! src/geometry.rs and the `TaffyZero` part of src/style_helpers.rs  →  Generated/Geometry.lean
//! Generic impls are instantiated at `f32` (the only instantiation the hand-written models use).
use crate::emit::{check_adt, impl_items, impls, norm, Out, Plan};
use crate::lean::{Ty, World};
use crate::util::{parse_file, CfgEnv};
use std::collections::HashMap;
use syn::{ImplItem, Item};

pub const REQUIRED: &[&str] = &[
    "Rect.horizontal_axis_sum", "Rect.vertical_axis_sum", "Rect.sum_axes", "Rect.ZERO", "Size.ZERO", "Size.f32_max", "Size.f32_min",
    "Size.NONE", "Size.maybe_apply_aspect_ratio", "Size.unwrap_or", "Size.or", "Size.both_axis_defined", "Point.ZERO", "Point.NONE",
    "Rect.add", "Size.add", "Size.map", "Size.zip_map", "Point.map",
    "Line.FALSE", "f32.TaffyZero_ZERO", "Size.TaffyZero_ZERO", "Rect.TaffyZero_ZERO", "Point.TaffyZero_ZERO", "Size.zero", "Rect.zero", "Point.zero",
];

pub fn extract(repo: &str, w: &mut World) -> Result<String, String> {
    let file = parse_file(&format!("{repo}/src/geometry.rs"))?;
    let env = CfgEnv::default_build();
    for n in ["Size", "Point", "Rect", "Line"] {
        check_adt(w, &file.items, &env, n, false)?;
    }
    let mut out = Out::new("Gen.Geometry", "src/geometry.rs, src/style_helpers.rs (TaffyZero)", &["TaffyVerif.Generated.Prelude", "TaffyVerif.Generated.Sys"]);
    let f = Ty::F32;
    let of = Ty::opt(Ty::F32);
    let mut v = vec![];
    impls(&file.items, &env, &[], &mut v)?;
    let g = |names: &[&str]| -> HashMap<String, Ty> { names.iter().map(|n| (n.to_string(), Ty::F32)).collect() };
    // the `FlexDirection`-indexed accessors go to Generated/Axes.lean (extract/src/axes.rs), after `impl FlexDirection`
    out.comment("Rect::main_axis_sum, Rect::cross_axis_sum, Size::from_cross (and the generic `impl<T>` accessors): see Generated/Axes.lean");
    out.text.push('\n');
    for info in &v {
        if info.trait_.is_some() {
            continue;
        }
        match (info.self_ty.as_str(), info.generics.len()) {
            ("Rect<T>", 2) => impl_items(&mut out, w, info, &env, "Rect", Some(Ty::adt("Rect", vec![f.clone()])), &g(&["T", "U"]), "Rect.", REQUIRED, &["main_axis_sum", "cross_axis_sum"])?,
            ("Rect<f32>", 0) => impl_items(&mut out, w, info, &env, "Rect", Some(Ty::adt("Rect", vec![f.clone()])), &g(&[]), "Rect.", REQUIRED, &[])?,
            ("Size<f32>", 0) => impl_items(&mut out, w, info, &env, "Size", Some(Ty::adt("Size", vec![f.clone()])), &g(&[]), "Size.", REQUIRED, &[])?,
            ("Size<Option<f32>>", 0) => impl_items(&mut out, w, info, &env, "Size", Some(Ty::adt("Size", vec![of.clone()])), &g(&[]), "Size.", REQUIRED, &["from_cross"])?,
            ("Size<Option<T>>", 1) => impl_items(&mut out, w, info, &env, "Size", Some(Ty::adt("Size", vec![of.clone()])), &g(&["T"]), "Size.", REQUIRED, &[])?,
            ("Line<bool>", 0) => impl_items(&mut out, w, info, &env, "Line", Some(Ty::adt("Line", vec![Ty::Bool])), &g(&[]), "Line.", REQUIRED, &[])?,
            ("Point<f32>", 0) => impl_items(&mut out, w, info, &env, "Point", Some(Ty::adt("Point", vec![f.clone()])), &g(&[]), "Point.", REQUIRED, &[])?,
            ("Point<Option<f32>>", 0) => impl_items(&mut out, w, info, &env, "Point", Some(Ty::adt("Point", vec![of.clone()])), &g(&[]), "Point.", REQUIRED, &[])?,
            _ => {}
        }
    }
    // operator traits: `impl<U, T: Add<U>> Add<Rect<U>> for Rect<T>` (and `Size`), instantiated at f32 — `a + b` on these types is
    // translated as a call of the function (`expr.rs`, `binary`)
    out.comment("`impl Add<Rect<U>> for Rect<T>` / `impl Add<Size<U>> for Size<T>`, instantiated at T = U = f32 (`a + b` on rects / sizes)");
    out.text.push('\n');
    for info in &v {
        let cont = match (info.self_ty.as_str(), info.trait_.as_deref()) {
            ("Rect<T>", Some("Add<Rect<U>>")) => "Rect",
            ("Size<T>", Some("Add<Size<U>>")) => "Size",
            _ => continue,
        };
        let st = Ty::adt(cont, vec![f.clone()]);
        for ii in info.items {
            match ii {
                ImplItem::Type(t) => {
                    // `type Output = Rect<T::Output>;` / `Size<<T as Add<U>>::Output>`: at f32 + f32 the output is f32
                    let got = norm(&t.ty);
                    if t.ident != "Output" || (got != format!("{cont}<T::Output>") && got != format!("{cont}<<TasAdd<U>>::Output>")) {
                        return Err(format!("`impl Add for {cont}`: associated type `{}` is `{got}`", t.ident));
                    }
                }
                ImplItem::Fn(ff) if ff.sig.ident == "add" => {
                    let want = format!("fnadd(self,rhs:{cont}<U>)->Self::Output");
                    if norm(&ff.sig) != want {
                        return Err(format!("`impl Add for {cont}`: signature is `{}`, expected `{want}`", norm(&ff.sig)));
                    }
                    let sig: syn::Signature = syn::parse_str(&format!("fn add(self, rhs: {cont}<f32>) -> {cont}<f32>")).map_err(|e| e.to_string())?;
                    out.function(w, Plan { head: cont.to_string(), rust_name: "add".into(), lean_rel: format!("{cont}.add"), self_ty: Some(st.clone()), generics: g(&["T", "U"]), sig: &sig, block: &ff.block, required: true, trunc_sub: false, ext: Default::default() });
                }
                _ => {}
            }
        }
    }
    // the higher-order helpers of the generic `impl<T>` blocks, kept polymorphic (`f: F` with `F: Fn(T) -> R` ↦ `(f : β → R)`)
    out.comment("`Size::map`, `Size::zip_map`, `Point::map` (generic `impl<T>`, polymorphic; the closure is a Lean function)");
    out.text.push('\n');
    let beta = Ty::Var("β".into());
    let gb: HashMap<String, Ty> = [("T".to_string(), beta.clone())].into_iter().collect();
    for info in &v {
        if info.trait_.is_some() || info.generics.len() != 1 {
            continue;
        }
        let (cont, names): (&str, &[&str]) = match info.self_ty.as_str() {
            "Size<T>" => ("Size", &["map", "zip_map"]),
            "Point<T>" => ("Point", &["map"]),
            _ => continue,
        };
        for ii in info.items {
            if let ImplItem::Fn(ff) = ii {
                let name = ff.sig.ident.to_string();
                if names.contains(&name.as_str()) && env.enabled(&ff.attrs)? {
                    let lean_rel = format!("{cont}.{name}");
                    out.function(w, Plan { head: cont.to_string(), rust_name: name, lean_rel, self_ty: Some(Ty::adt(cont, vec![beta.clone()])), generics: gb.clone(), sig: &ff.sig, block: &ff.block, required: true, trunc_sub: false, ext: crate::emit::PlanExt { type_vars: true, ..Default::default() } });
                }
            }
        }
    }
    // style_helpers.rs: `TaffyZero` at f32, and the `zero()` constructors
    let sh = parse_file(&format!("{repo}/src/style_helpers.rs"))?;
    out.comment("src/style_helpers.rs: `TaffyZero::ZERO` (instantiated at f32) and the `zero()` constructors");
    let mut zero_fn_ok = false;
    for it in &sh.items {
        if let Item::Fn(ff) = it {
            if ff.sig.ident == "zero" {
                // `pub const fn zero<T: TaffyZero>() -> T { T::ZERO }` — calls `zero::<X>()` are translated as `<X as TaffyZero>::ZERO`
                zero_fn_ok = norm(&ff.block) == "{T::ZERO}";
            }
        }
    }
    if !zero_fn_ok {
        return Err("style_helpers::zero is no longer `T::ZERO`".into());
    }
    let mut v2 = vec![];
    impls(&sh.items, &env, &[], &mut v2)?;
    // trait constants first (f32, then the containers), then the inherent `zero()`s
    for pass in 0..3 {
        for info in &v2 {
            let (head, st): (&str, Ty) = match info.self_ty.as_str() {
                "f32" => ("f32", Ty::F32),
                "Size<T>" => ("Size", Ty::adt("Size", vec![f.clone()])),
                "Rect<T>" => ("Rect", Ty::adt("Rect", vec![f.clone()])),
                "Point<T>" => ("Point", Ty::adt("Point", vec![f.clone()])),
                _ => continue,
            };
            let is_zero_trait = info.trait_.as_deref() == Some("TaffyZero");
            match pass {
                0 | 1 if is_zero_trait && ((pass == 0) == (head == "f32")) => {
                    for ii in info.items {
                        if let ImplItem::Const(c) = ii {
                            if c.ident == "ZERO" {
                                out.constant(w, head, "<TaffyZero>::ZERO", "TaffyZero::ZERO", &format!("{head}.TaffyZero_ZERO"), Some(st.clone()), g(&["T"]), &c.ty, &c.expr, true);
                            }
                        }
                    }
                }
                2 if info.trait_.is_none() && head != "f32" => {
                    for ii in info.items {
                        if let ImplItem::Fn(ff) = ii {
                            if ff.sig.ident == "zero" {
                                out.function(w, Plan { head: head.to_string(), rust_name: "zero".into(), lean_rel: format!("{head}.zero"), self_ty: Some(st.clone()), generics: g(&["T"]), sig: &ff.sig, block: &ff.block, required: true, trunc_sub: false, ext: Default::default() });
                            }
                        }
                    }
                }
                _ => {}
            }
        }
    }
    out.finish(REQUIRED)
}
