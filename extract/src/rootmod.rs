//! src/compute/mod.rs (`compute_root_layout`, `compute_cached_layout`)  →  Generated/Root.lean
//!
//! Both functions reach the tree through trait methods; they are translated into interaction programs (`Gen.Tree.Prog`,
//! `Generated/Tree.lean`: one node per trait-method call, in the Rust order). `compute_cached_layout`'s `compute_uncached`
//! closure takes the tree as its first argument: it is a sub-program (a Lean parameter `NodeId → LayoutInput α → Gen.Tree.Prog …`),
//! and calling it is a `Prog.bind`. The statements under `#[cfg(taffy_verif)]` (the framework's own hooks) and the `debug_*!`
//! macros are not part of the default build.
use crate::emit::{fn_bound, impl_traits, norm, Out, Plan, PlanExt};
use crate::lean::World;
use crate::treemod::node_generics;
use crate::util::{parse_file, CfgEnv};
use syn::Item;

pub const REQUIRED: &[&str] = &["compute_root_layout", "compute_cached_layout"];

pub fn extract(repo: &str, w: &mut World) -> Result<String, String> {
    let env = CfgEnv::default_build();
    crate::stmt::check_debug_macros(repo)?;
    let file = parse_file(&format!("{repo}/src/compute/mod.rs"))?;
    let base = w.tree_plan.clone().ok_or("the tree traits have not been translated (Generated/Tree.lean)")?;
    let mut out = Out::new(
        "Gen.Root",
        "src/compute/mod.rs (compute_root_layout, compute_cached_layout)",
        &["TaffyVerif.Generated.Tree", "TaffyVerif.Generated.Geometry", "TaffyVerif.Generated.AvailableSpace", "TaffyVerif.Generated.MaybeMath", "TaffyVerif.Generated.Resolve", "TaffyVerif.Generated.Style"],
    );
    out.comment("Interaction form over `Gen.Tree.Prog` (Generated/Tree.lean): `tree.m(args)` is `Prog.m args (fun answer => …)`, a provided");
    out.comment("method or a closure that takes the tree is `Prog.bind`, in the order the Rust performs the calls. `|val, basis| tree.calc(val, basis)`");
    out.comment("is the calc resolver: dropped, calc() is not modelled.");
    out.text.push('\n');
    let find = |name: &str| -> Result<&syn::ItemFn, String> {
        file.items
            .iter()
            .find_map(|it| match it {
                Item::Fn(f) if f.sig.ident == name => Some(f),
                _ => None,
            })
            .ok_or(format!("function {name} not found"))
    };
    for name in REQUIRED {
        let f = match find(name) {
            Ok(f) => f,
            Err(e) => {
                out.errors.push(format!("required function `{name}`: {e}"));
                continue;
            }
        };
        if !env.enabled(&f.attrs)? {
            out.errors.push(format!("required function `{name}` is cfg-disabled"));
            continue;
        }
        // the tree parameter: `&mut impl LayoutPartialTree`, or `&mut Tree` with `Tree: CacheTree`
        let mut pp = base.clone();
        for a in &f.sig.inputs {
            if let syn::FnArg::Typed(t) = a {
                let n = match &*t.pat {
                    syn::Pat::Ident(i) => i.ident.to_string(),
                    _ => continue,
                };
                if let Some(trs) = impl_traits(&t.ty) {
                    if trs.iter().any(|x| x == "LayoutPartialTree" || x == "CacheTree") {
                        pp.tree_param = Some(n);
                        continue;
                    }
                }
                if let syn::Type::Reference(r) = &*t.ty {
                    let g = norm(&r.elem);
                    let is_tree_generic = f.sig.generics.params.iter().any(|gp| match gp {
                        syn::GenericParam::Type(tp) => tp.ident == g.as_str() && tp.bounds.iter().any(|b| matches!(b, syn::TypeParamBound::Trait(tb) if ["LayoutPartialTree", "CacheTree"].contains(&tb.path.segments.last().unwrap().ident.to_string().as_str()))),
                        _ => false,
                    });
                    if is_tree_generic {
                        pp.tree_param = Some(n);
                        pp.tree_generic = Some(g);
                        continue;
                    }
                }
            }
        }
        if pp.tree_param.is_none() {
            out.errors.push(format!("required function `{name}`: no tree parameter found"));
            continue;
        }
        // closures whose first argument is the tree are sub-programs
        for a in &f.sig.inputs {
            if let syn::FnArg::Typed(t) = a {
                if let (syn::Pat::Ident(i), Some(pa)) = (&*t.pat, fn_bound(&f.sig, &t.ty)) {
                    let first = pa.inputs.first().map(|t| match t {
                        syn::Type::Reference(r) => norm(&r.elem),
                        t => norm(t),
                    });
                    if first.is_some() && first == pp.tree_generic {
                        pp.monadic_closures.push(i.ident.to_string());
                    }
                }
            }
        }
        out.function(
            w,
            Plan {
                head: String::new(),
                rust_name: name.to_string(),
                lean_rel: name.to_string(),
                self_ty: None,
                generics: node_generics(),
                sig: &f.sig,
                block: &f.block,
                required: true,
                trunc_sub: false,
                ext: PlanExt { prog: Some(pp), doc: Some(" — interaction form over `Gen.Tree.Prog`".into()), ..Default::default() },
            },
        );
    }
    out.finish(REQUIRED)
}
