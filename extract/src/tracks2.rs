//! The rest of src/compute/grid/track_sizing.rs: `distribute_space_up_to_limits`, `maximise_tracks`, `distribute_item_space_to_base_size`,
//! `distribute_item_space_to_growth_limit`  →  Generated/TrackSizing2.lean (namespace `Gen.TrackSizing`, beside Generated/TrackSizing.lean);
//! Props/TieTracks2.lean proves them equal to Model/FrSize.lean.
//!
//! A child module of `slices.rs` (it extends that translator and sees its private parts). What it adds to the fragment:
//!  * `while c { … }` whose body may contain `if d { break; }` as a statement of the body: `Slice.loop[M] fuel state step` with
//!    `step state = if c then (…; if d then (state, true) else (…; (state', false))) else (state, true)` — the fuel is the one the hand-written
//!    model's callers use (`FnOpts`/`LOOP_FUEL`); running out of fuel leaves the loop like a `break` (the convention of `loop`);
//!  * `for x in v.iter_mut()[.filter(p)] { body }` whose body assigns `x` AND outer locals: `Slice.mapAccum (fun acc x => (acc', x')) acc v`;
//!  * `.min_by(|a, b| a.total_cmp(b))` over extended values: `Slice.Ext.minByTotalCmp`;
//!  * `.map(f)` with a function-valued local `f` (`.map(&track_distribution_proportion)`);
//!  * a nested `const N: f32 = lit;` is a `let`; a decimal literal `0.01` is `Num.ofNat 1 / Num.ofNat 100` (numerator < 2^24 and a power of ten
//!    ≤ 10^10 are exact in f32 and f32 division is correctly rounded, so this IS the literal's f32 value);
//!  * closure parameters whose `f32` result can be `f32::INFINITY` (`track_limit`) have the result type `GridTracks.Ext α` (`FnOpts::ext_fn_params`);
//!    in such a function `e / p` with an extended `e` stays extended (`Slice.Ext.divF`), `f32_min(e, x)` with a finite `x` is finite
//!    (`Slice.Ext.minF`);
//!  * a call of a function that updates arguments AND returns a value, in a `let` (`let extra_space = distribute_space_up_to_limits(…)`);
//!  * closure literals passed where a function parameter is expected capture locals (they are translated at the call site).
use super::*;
use crate::gridinit::Acc;
use crate::util::parse_file;
use syn::Item;

/// per-function switches of the widened fragment
#[derive(Clone, Default, Debug)]
pub struct FnOpts {
    /// closure parameters (Rust names) whose declared `f32` result can be `f32::INFINITY`
    pub ext_fn_params: Vec<String>,
    /// `e / p` with an extended `e` is `Slice.Ext.divF e p` (otherwise `e` must be finite)
    pub ext_div: bool,
    /// the fuel of loops in nested `fn`s
    pub nested_fuel: Option<String>,
    /// nested `fn` items are translated before the body (Rust lets the body call an item declared after it)
    pub hoist_nested_fns: bool,
    /// interaction form: the function is a program of `Slice.ItemProg ι α` (one node per `prog_calls` method call on an item, in the Rust
    /// order); the outcomes of `Except GErr` operations are lifted into it (`Slice.ItemProg.ofExcept`)
    pub prog_mode: bool,
    /// methods of the abstract item type that touch the tree: (name, Lean operation)
    pub prog_calls: Vec<(String, String)>,
    /// binders emitted before those of the signature (the abstract item type's pure methods)
    pub extra_binders: String,
    /// the program type of a function in interaction form when it is not `Slice.ItemProg ι` (e.g. `Slice.TreeProg χ`): its namespace has
    /// `ofExcept`; the type is applied to `α` and the result type
    pub prog_name: Option<(String, String)>,
    /// methods of the (untranslated) `tree` parameter that are program nodes: (name, Lean operation); the value is an `f32`
    pub tree_calls: Vec<(String, String)>,
    /// translated functions (Lean names) that are programs of `prog_name` themselves: called without `ofExcept`
    pub prog_fns: Vec<String>,
}

/// `0.01` ↦ `Num.ofNat 1 / Num.ofNat 100`
pub fn decimal_literal(digits: &str) -> Option<X> {
    let (ip, fp) = digits.split_once('.')?;
    if !ip.chars().all(|c| c.is_ascii_digit()) || !fp.chars().all(|c| c.is_ascii_digit()) {
        return None;
    }
    let fp = fp.trim_end_matches('0');
    if fp.is_empty() || fp.len() > 10 {
        return None;
    }
    let num: u64 = format!("{ip}{fp}").parse().ok()?;
    if num == 0 || num >= (1 << 24) {
        return None;
    }
    let den = 10u64.pow(fp.len() as u32);
    Some(X::A(format!("(Num.ofNat {num} / Num.ofNat {den})")))
}

/// does an iterator chain start in `.iter_mut()` (through `filter`s)?
pub fn roots_in_iter_mut(e: &Expr) -> bool {
    match strip(e) {
        Expr::MethodCall(m) if m.method == "iter_mut" && m.args.is_empty() => true,
        Expr::MethodCall(m) if m.method == "filter" => roots_in_iter_mut(&m.receiver),
        _ => false,
    }
}

/// in a program of `Slice.ItemProg`: an operation of `Except GErr` (a vocabulary primitive or a translated function that can panic) is lifted;
/// blocks and the monadic list combinators are already programs
pub fn lift_except(x: X) -> X {
    lift_except_in(&FnOpts::default(), x)
}

/// the same for a function whose program type is `opts.prog_name`
pub fn lift_except_in(opts: &FnOpts, x: X) -> X {
    let ns = opts.prog_name.as_ref().map(|p| p.1.clone()).unwrap_or("Slice.ItemProg".to_string());
    let own = format!("{ns}.");
    if matches!(&x, X::App(f, _) if opts.prog_fns.iter().any(|p| p == f)) {
        return x;
    }
    match &x {
        X::App(f, _) if (f.starts_with("Slice.") && !["Slice.loopM", "Slice.ItemProg.", own.as_str()].iter().any(|p| f.starts_with(p))) || f.starts_with("Gen.") => X::app(&format!("{ns}.ofExcept"), vec![x]),
        _ => x,
    }
}

/// `if c { break; }` as a statement
fn break_if(st: &Stmt) -> Option<&Expr> {
    match st {
        Stmt::Expr(Expr::If(i), _) if i.else_branch.is_none() && !matches!(&*i.cond, Expr::Let(_)) && matches!(i.then_branch.stmts.as_slice(), [Stmt::Expr(Expr::Break(b), _)] if b.label.is_none() && b.expr.is_none()) => Some(&*i.cond),
        _ => None,
    }
}

impl<'a> Cx<'a> {
    /// a nested `const NAME: T = e;`: a `let` (the fragment only has constants that are declared before their first use)
    pub(super) fn nested_const(&mut self, c: &syn::ItemConst) -> R<()> {
        if !self.cfg.enabled(&c.attrs)? {
            return Ok(());
        }
        let t = self.rust_ty(&c.ty)?;
        let n0 = self.cur.len();
        let (v, vt) = self.expr(&c.expr, &t)?;
        if !t.compatible(&vt) || self.cur.len() != n0 {
            return Err(format!("nested constant `{}`: value of type {:?}, declared {:?}", c.ident, vt, t));
        }
        let n = self.declare(&c.ident.to_string(), t);
        self.emit(St::Let(n, v));
        Ok(())
    }

    /// `.max_by(|a, b| a.total_cmp(b))`
    pub(super) fn max_by(&mut self, recv: X, et: &T, arg: &Expr) -> R<(X, T)> {
        let ok = match strip(arg) {
            Expr::Closure(c) if c.inputs.len() == 2 => {
                let ps: Vec<String> = c.inputs.iter().map(crate::emit::norm).collect();
                crate::emit::norm(&c.body) == format!("{}.total_cmp({})", ps[0], ps[1])
            }
            _ => false,
        };
        if !ok {
            return Err("`max_by` with a comparison other than `|a, b| a.total_cmp(b)`".into());
        }
        match et {
            T::F32 => Ok((X::app("Slice.maxByTotalCmp", vec![recv]), T::opt(T::F32))),
            t => Err(format!("`max_by(total_cmp)` over elements of type {:?}", t)),
        }
    }

    /// `let x = item.m(…, tree, …);` for a tree-touching method `m` of the abstract item type: one program node; the item is updated
    pub(super) fn let_item_call(&mut self, pat: &Pat, init: &Expr) -> R<bool> {
        let m = match strip(init) {
            Expr::MethodCall(m) => m,
            _ => return Ok(false),
        };
        let op = match self.opts.prog_calls.iter().find(|(n, _)| m.method == n) {
            Some((_, op)) => op.clone(),
            None => return Ok(false),
        };
        let rn = match strip(&m.receiver) {
            Expr::Path(p) if p.path.get_ident().is_some() => p.path.get_ident().unwrap().to_string(),
            _ => return Err("a tree-touching item method on something that is not a local".into()),
        };
        let (recv, rt) = self.expr(&m.receiver, &T::Unknown)?;
        if !matches!(rt, T::Var(_)) {
            return Ok(false);
        }
        let var = match pat {
            Pat::Ident(i) if i.subpat.is_none() => i.ident.to_string(),
            _ => return Err("`let` pattern for a tree-touching item method".into()),
        };
        let mut ls = vec![recv];
        for a in &m.args {
            if self.is_dropped_arg(a) {
                continue;
            }
            let (x, _) = self.expr(a, &T::Unknown)?;
            ls.push(x);
        }
        let r = self.fresh_name("r");
        self.emit(St::Bind(r.clone(), X::App(op, ls)));
        let il = self.locals.get(&rn).map(|l| l.lean.clone()).ok_or("unknown item local")?;
        self.emit(St::Let(il, X::Field(Box::new(X::A(r.clone())), "2".into())));
        let ln = self.declare(&var, T::F32);
        self.emit(St::Let(ln, X::Field(Box::new(X::A(r)), "1".into())));
        Ok(true)
    }

    /// `v.iter_mut().filter(p).map(|x| { … })` whose closure updates `x` through tree-touching calls:
    /// `(values, v) ← Slice.ItemProg.filterMapM p (fun x => do …; pure (value, x)) v`
    pub(super) fn iter_mut_filter_map(&mut self, m: &syn::ExprMethodCall) -> R<(X, T)> {
        if !self.opts.prog_mode {
            return Err("`iter_mut()…map(…)` outside a function in interaction form".into());
        }
        let mut filters: Vec<&Expr> = vec![];
        let mut cur = strip(&m.receiver);
        loop {
            match cur {
                Expr::MethodCall(f) if f.method == "filter" && f.args.len() == 1 => {
                    filters.push(&f.args[0]);
                    cur = strip(&f.receiver);
                }
                Expr::MethodCall(f) if f.method == "iter_mut" && f.args.is_empty() => {
                    cur = strip(&f.receiver);
                    break;
                }
                _ => return Err("unsupported `iter_mut()` chain".into()),
            }
        }
        if filters.len() != 1 {
            return Err("`iter_mut()…map(…)`: exactly one `filter` is supported".into());
        }
        let place = cur;
        let (list, lt) = self.expr(place, &T::Unknown)?;
        let et = match lt {
            T::List(t) => *t,
            t => return Err(format!("mutable iteration over a value of type {:?}", t)),
        };
        let (pf, pt, peff) = self.closure(filters[0], &[et.clone()], &T::Bool, false)?;
        if pt != T::Bool || peff {
            return Err("`filter` closure: not a pure predicate".into());
        }
        let c = match strip(&m.args[0]) {
            Expr::Closure(c) if c.inputs.len() == 1 => c,
            _ => return Err("`map` without a closure literal".into()),
        };
        let var = match &c.inputs[0] {
            Pat::Ident(i) => i.ident.to_string(),
            _ => return Err("`map` closure parameter".into()),
        };
        let body: Vec<Stmt> = match &*c.body {
            Expr::Block(b) => b.block.stmts.clone(),
            other => vec![Stmt::Expr(other.clone(), None)],
        };
        let saved_locals = self.locals.clone();
        let saved_cur = std::mem::take(&mut self.cur);
        let x = self.declare(&var, et.clone());
        let r = (|| -> R<(X, T)> {
            let (last, init) = body.split_last().ok_or("empty closure")?;
            for s in init {
                self.stmt(s)?;
            }
            let e = match last {
                Stmt::Expr(e, None) => e,
                _ => return Err("`map` closure without a value".into()),
            };
            let (v, vt) = self.expr(e, &T::Unknown)?;
            let xl = self.locals.get(&var).map(|l| l.lean.clone()).unwrap_or(x.clone());
            Ok((X::Tuple(vec![v, X::A(xl)]), vt))
        })();
        let out = std::mem::replace(&mut self.cur, saved_cur);
        self.locals = saved_locals;
        let (tup, vt) = r?;
        let blk = Blk { stmts: out, tail: Tail::Val(tup) };
        let f = X::Fun(vec![x], Box::new(blk), true);
        let tmp = self.fresh_name("fm");
        self.emit(St::Bind(tmp.clone(), X::app("Slice.ItemProg.filterMapM", vec![pf, f, list])));
        let (nm, nv) = self.assign_into(place, X::Field(Box::new(X::A(tmp.clone())), "2".into()))?;
        self.emit(St::Let(nm, nv));
        Ok((X::Field(Box::new(X::A(tmp)), "1".into()), T::list(vt)))
    }

    /// `let x = match e { … };` whose arms assign outer locals: the arms answer `((outer…), value)`
    pub(super) fn let_match_assigning(&mut self, pat: &Pat, init: &Expr) -> R<bool> {
        let m = match strip(init) {
            Expr::Match(m) => m,
            _ => return Ok(false),
        };
        let vars = self.assigned_outer_stmts(&[], &[init])?;
        if vars.is_empty() {
            return Ok(false);
        }
        let var = match pat {
            Pat::Ident(i) if i.subpat.is_none() => i.ident.to_string(),
            _ => return Err("`let` pattern for a `match` that assigns outer locals".into()),
        };
        let vs = vars.clone();
        let mut val_t = T::Unknown;
        let (tail, _) = self.match_tail(m, &T::Unknown, &mut |s: &mut Self, body: &Expr, _ex: &T| {
            let saved_locals = s.locals.clone();
            let saved_cur = std::mem::take(&mut s.cur);
            let r = (|| -> R<(X, T)> {
                let (v, vt) = match body {
                    Expr::Block(b) if b.label.is_none() => {
                        let (last, init) = b.block.stmts.split_last().ok_or("empty arm")?;
                        for st in init {
                            s.stmt(st)?;
                        }
                        match last {
                            Stmt::Expr(e, None) => s.expr(e, &T::Unknown)?,
                            _ => return Err("a `match` arm without a value".into()),
                        }
                    }
                    other => s.expr(other, &T::Unknown)?,
                };
                Ok((X::Tuple(vec![s.vars_tuple(&vs), v]), vt))
            })();
            let out = std::mem::replace(&mut s.cur, saved_cur);
            s.locals = saved_locals;
            let (x, vt) = r?;
            if !val_t.compatible(&vt) {
                return Err(format!("arms of `match` have different types {:?} / {:?}", val_t, vt));
            }
            val_t = val_t.join(&vt);
            Ok((Blk { stmts: out, tail: Tail::Val(x) }, T::Unknown))
        })?;
        let blk = Blk { stmts: vec![], tail };
        let eff = blk.effectful();
        let st = self.fresh_name("st");
        let x = X::Block(Box::new(blk));
        self.emit(if eff { St::Bind(st.clone(), x) } else { St::Let(st.clone(), x) });
        let n = vars.len();
        for (k, v) in vars.iter().enumerate() {
            let l = self.locals[v].lean.clone();
            let acc = X::Field(Box::new(X::A(st.clone())), "1".into());
            self.emit(St::Let(l, if n == 1 { acc } else { tuple_proj(acc, k, n) }));
        }
        let ln = self.declare(&var, val_t);
        self.emit(St::Let(ln, X::Field(Box::new(X::A(st)), "2".into())));
        Ok(true)
    }

    /// `.min_by(|a, b| a.total_cmp(b))`
    pub(super) fn min_by(&mut self, recv: X, et: &T, arg: &Expr) -> R<(X, T)> {
        let ok = match strip(arg) {
            Expr::Closure(c) if c.inputs.len() == 2 => {
                let ps: Vec<String> = c.inputs.iter().map(crate::emit::norm).collect();
                crate::emit::norm(&c.body) == format!("{}.total_cmp({})", ps[0], ps[1])
            }
            _ => false,
        };
        if !ok {
            return Err("`min_by` with a comparison other than `|a, b| a.total_cmp(b)`".into());
        }
        match et {
            T::Ext => Ok((X::app("Slice.Ext.minByTotalCmp", vec![recv]), T::opt(T::Ext))),
            t => Err(format!("`min_by(total_cmp)` over elements of type {:?}", t)),
        }
    }

    /// `if x == f32::INFINITY { a } else { x }` for an extended `x`: the finite value of `x`, or `a`
    pub(super) fn finite_or(&mut self, i: &syn::ExprIf) -> R<Option<(X, T)>> {
        let b = match strip(&i.cond) {
            Expr::Binary(b) if matches!(b.op, BinOp::Eq(_)) => b,
            _ => return Ok(None),
        };
        if crate::emit::norm(&b.right) != "f32::INFINITY" {
            return Ok(None);
        }
        let else_e = match &i.else_branch {
            Some((_, e)) => match &**e {
                Expr::Block(eb) if eb.label.is_none() => match eb.block.stmts.as_slice() {
                    [Stmt::Expr(e, None)] => e,
                    _ => return Ok(None),
                },
                _ => return Ok(None),
            },
            None => return Ok(None),
        };
        let then_e = match i.then_branch.stmts.as_slice() {
            [Stmt::Expr(e, None)] => e,
            _ => return Ok(None),
        };
        if crate::emit::norm(else_e) != crate::emit::norm(&b.left) || self.peek_type(&b.left) != Some(T::Ext) {
            return Ok(None);
        }
        let (x, _) = self.expr(&b.left, &T::Ext)?;
        let n0 = self.cur.len();
        let (a, at) = self.expr(then_e, &T::F32)?;
        if at != T::F32 || self.cur.len() != n0 {
            return Ok(None);
        }
        Ok(Some((X::app("Slice.Ext.finiteOr", vec![x, a]), T::F32)))
    }

    /// a closure literal as a value (`let f = |track: &GridTrack| …;`): parameter types from the annotations, else from the expected type
    pub(super) fn closure_value(&mut self, e: &Expr, expect: &T) -> R<(X, T)> {
        let c = match strip(e) {
            Expr::Closure(c) => c,
            _ => return Err("a closure literal is required here".into()),
        };
        let (eps, er): (Vec<T>, T) = match expect {
            T::Fn(ps, r) if ps.len() == c.inputs.len() => (ps.clone(), (**r).clone()),
            _ => (vec![T::Unknown; c.inputs.len()], T::Unknown),
        };
        let mut ptys = vec![];
        for (p, ep) in c.inputs.iter().zip(&eps) {
            let t = match p {
                Pat::Type(pt) => self.rust_ty(&pt.ty)?,
                _ => ep.clone(),
            };
            if t.has_unknown() {
                return Err("closure outside a whitelisted method call (parameter types unknown)".into());
            }
            ptys.push(t);
        }
        let (f, ft, eff) = self.closure(e, &ptys, &er, false)?;
        if eff {
            return Err("a closure value whose body can panic".into());
        }
        let ft = if er == T::Ext && ft == T::F32 { return Err("closure result must be extended".into()) } else { ft };
        Ok((f, T::Fn(ptys, Box::new(ft))))
    }

    /// `(closure) as fn(&T) -> R`
    pub(super) fn fn_pointer_cast(&mut self, c: &syn::ExprCast, _expect: &T) -> R<(X, T)> {
        let bf = match &*c.ty {
            syn::Type::BareFn(bf) => bf,
            _ => return Err("internal: not a fn pointer cast".into()),
        };
        let ps = bf.inputs.iter().map(|a| self.rust_ty(&a.ty)).collect::<R<Vec<_>>>()?;
        let r = match &bf.output {
            syn::ReturnType::Default => T::Unit,
            syn::ReturnType::Type(_, t) => self.rust_ty(t)?,
        };
        let (f, ft) = self.closure_value(&c.expr, &T::Fn(ps.clone(), Box::new(r.clone())))?;
        match &ft {
            T::Fn(_, fr) if r.compatible(fr) => Ok((f, T::Fn(ps, Box::new(r)))),
            _ => Err("fn pointer cast of a closure with another result type".into()),
        }
    }

    /// `let x = recv.m(…);` where the translated method `m` updates its receiver (a place) and answers a value
    pub(super) fn let_mut_method(&mut self, pat: &Pat, init: &Expr) -> R<bool> {
        let m = match strip(init) {
            Expr::MethodCall(m) => m,
            _ => return Ok(false),
        };
        let name = m.method.to_string();
        let rt = match self.peek_type(&m.receiver) {
            Some(t) => t,
            None => return Ok(false),
        };
        let args: Vec<&Expr> = m.args.iter().collect();
        let f = match self.env.fns(&rt.head(), &name).into_iter().find(|f| f.muts == vec![0] && f.ret != T::Unit && f.self_ty.as_ref().map(|st| st.compatible(&rt)).unwrap_or(false) && f.params.len() + f.dropped + f.dropped_pos.len() == args.len()) {
            Some(f) => f,
            None => return Ok(false),
        };
        let var = match pat {
            Pat::Ident(i) if i.subpat.is_none() => i.ident.to_string(),
            _ => return Err("`let` pattern for a method call that updates its receiver".into()),
        };
        let (recv, _) = self.expr(&m.receiver, &T::Unknown)?;
        let mut ls = vec![recv];
        ls.extend(self.args_of(&f, &args, &format!("{}::{name}", rt.head()), &mut HashMap::new())?);
        let r = self.apply(&f, ls);
        let r = match r {
            X::A(_) => r,
            other => {
                let tmp = self.fresh_name("r");
                self.emit(St::Let(tmp.clone(), other));
                X::A(tmp)
            }
        };
        let (nm, nv) = self.assign_into(&m.receiver, tuple_proj(r.clone(), 0, 2))?;
        self.emit_let(nm, nv);
        let ln = self.declare(&var, f.ret.clone());
        self.emit(St::Let(ln, tuple_proj(r, 1, 2)));
        Ok(true)
    }

    /// a block in value position whose statements assign the outer locals `vars`: it answers `((vars…), value)`; a final `if … else …`
    /// is split into its branches
    fn block_assigning(&mut self, stmts: &[Stmt], vars: &[String], expect: &T, val_t: &mut T) -> R<Blk> {
        let saved_locals = self.locals.clone();
        let saved_cur = std::mem::take(&mut self.cur);
        let r = (|| -> R<Tail> {
            let (last, init) = stmts.split_last().ok_or("empty block")?;
            for st in init {
                self.stmt(st)?;
            }
            match last {
                Stmt::Expr(Expr::If(i), None) if i.else_branch.is_some() && !matches!(&*i.cond, Expr::Let(_)) => {
                    let (c, ct) = self.expr(&i.cond, &T::Bool)?;
                    if ct != T::Bool {
                        return Err("`if` condition is not a bool".into());
                    }
                    let a = self.block_assigning(&i.then_branch.stmts, vars, expect, val_t)?;
                    let eb: Vec<Stmt> = match &*i.else_branch.as_ref().unwrap().1 {
                        Expr::Block(b) if b.label.is_none() => b.block.stmts.clone(),
                        other => vec![Stmt::Expr(other.clone(), None)],
                    };
                    let b = self.block_assigning(&eb, vars, expect, val_t)?;
                    Ok(Tail::If(c, Box::new(a), Box::new(b)))
                }
                Stmt::Expr(e, None) => {
                    let (v, vt) = self.expr(e, expect)?;
                    if !val_t.compatible(&vt) {
                        return Err(format!("branches of different types {:?} / {:?}", val_t, vt));
                    }
                    *val_t = val_t.join(&vt);
                    Ok(Tail::Val(X::Tuple(vec![self.vars_tuple(vars), v])))
                }
                _ => Err("a block without a value".into()),
            }
        })();
        let out = std::mem::replace(&mut self.cur, saved_cur);
        self.locals = saved_locals;
        Ok(Blk { stmts: out, tail: r? })
    }

    /// `let x = o.unwrap_or_else(|| { … });` whose closure assigns outer locals (through methods that update `self`):
    /// `match o with | some v => ((outer…), v) | none => (…; ((outer…), value))`
    pub(super) fn let_unwrap_or_else(&mut self, pat: &Pat, init: &Expr) -> R<bool> {
        let m = match strip(init) {
            Expr::MethodCall(m) if m.method == "unwrap_or_else" && m.args.len() == 1 => m,
            _ => return Ok(false),
        };
        let c = match strip(&m.args[0]) {
            Expr::Closure(c) if c.inputs.is_empty() => c,
            _ => return Ok(false),
        };
        let var = match pat {
            Pat::Ident(i) if i.subpat.is_none() => i.ident.to_string(),
            _ => return Err("`let` pattern for `unwrap_or_else`".into()),
        };
        let vars = self.assigned_outer_stmts(&[], &[&m.args[0]])?;
        let (recv, rt) = self.expr(&m.receiver, &T::Unknown)?;
        let it = match &rt {
            T::Opt(t) => (**t).clone(),
            t => return Err(format!("`unwrap_or_else` on a value of type {:?}", t)),
        };
        let body: Vec<Stmt> = match &*c.body {
            Expr::Block(b) if b.label.is_none() => b.block.stmts.clone(),
            other => vec![Stmt::Expr(other.clone(), None)],
        };
        let mut val_t = it.clone();
        let none_blk = self.block_assigning(&body, &vars, &it, &mut val_t)?;
        let v = self.fresh_name("v");
        let some_blk = Blk::val(X::Tuple(vec![self.vars_tuple(&vars), X::A(v.clone())]));
        let blk = Blk { stmts: vec![], tail: Tail::Match(vec![recv], vec![(vec![format!("(some {v})")], some_blk), (vec!["none".to_string()], none_blk)]) };
        let eff = blk.effectful();
        let st = self.fresh_name("st");
        let x = X::Block(Box::new(blk));
        self.emit(if eff { St::Bind(st.clone(), x) } else { St::Let(st.clone(), x) });
        let n = vars.len();
        for (k, vn) in vars.iter().enumerate() {
            let l = self.locals[vn].lean.clone();
            let acc = X::Field(Box::new(X::A(st.clone())), "1".into());
            self.emit(St::Let(l, if n == 1 { acc } else { tuple_proj(acc, k, n) }));
        }
        let ln = self.declare(&var, val_t);
        self.emit(St::Let(ln, X::Field(Box::new(X::A(st)), "2".into())));
        Ok(true)
    }

    /// `let x = f(…, v, …);` where `f` updates `v` and answers a value
    pub(super) fn let_mut_call(&mut self, pat: &Pat, init: &Expr) -> R<bool> {
        let c = match strip(init) {
            Expr::Call(c) => c,
            _ => return Ok(false),
        };
        let p = match &*c.func {
            Expr::Path(p) if p.path.segments.len() == 1 => p,
            _ => return Ok(false),
        };
        let name = p.path.segments[0].ident.to_string();
        let f = match self.local_fns.get(&name).cloned().or_else(|| self.env.fns("", &name).first().cloned()) {
            Some(f) if !f.muts.is_empty() && f.self_ty.is_none() && f.ret != T::Unit => f,
            _ => return Ok(false),
        };
        let var = match pat {
            Pat::Ident(i) if i.subpat.is_none() => i.ident.to_string(),
            _ => return Err("`let` pattern for a call that updates its arguments".into()),
        };
        let args: Vec<&Expr> = c.args.iter().collect();
        let ls = self.args_of(&f, &args, &name, &mut HashMap::new())?;
        let r = self.apply(&f, ls);
        let n = f.muts.len() + 1;
        let r = match r {
            X::A(_) => r,
            other => {
                let tmp = self.fresh_name("r");
                self.emit(St::Let(tmp.clone(), other));
                X::A(tmp)
            }
        };
        for (k, i) in f.muts.iter().enumerate() {
            let (nm, nv) = self.assign_into(args[*i], tuple_proj(r.clone(), k, n))?;
            self.emit_let(nm, nv);
        }
        let ln = self.declare(&var, f.ret.clone());
        self.emit(St::Let(ln, tuple_proj(r, n - 1, n)));
        Ok(true)
    }

    fn bind_state(&mut self, vars: &[String], params: &mut Vec<String>) {
        match vars.len() {
            0 => params.push("_".into()),
            1 => params.push(self.locals[&vars[0]].lean.clone()),
            n => {
                let stn = self.fresh_name("st");
                params.push(stn.clone());
                for (k, v) in vars.iter().enumerate() {
                    let l = self.locals[v].lean.clone();
                    self.emit(St::Let(l, tuple_proj(X::A(stn.clone()), k, n)));
                }
            }
        }
    }

    /// the statements of a loop body from `stmts[0]` on: `((state), stop)`
    fn loop_body(&mut self, stmts: &[Stmt], vars: &[String]) -> R<Blk> {
        let saved_locals = self.locals.clone();
        let saved_cur = std::mem::take(&mut self.cur);
        let r = (|| -> R<Tail> {
            for (k, st) in stmts.iter().enumerate() {
                if !self.stmt_enabled(st)? {
                    continue;
                }
                if let Some(cond) = break_if(st) {
                    let (c, ct) = self.expr(cond, &T::Bool)?;
                    if ct != T::Bool {
                        return Err("`if` condition is not a bool".into());
                    }
                    let brk = Blk::val(X::Tuple(vec![self.vars_tuple(vars), X::a("true")]));
                    let rest = self.loop_body(&stmts[k + 1..], vars)?;
                    return Ok(Tail::If(c, Box::new(brk), Box::new(rest)));
                }
                self.stmt(st)?;
            }
            Ok(Tail::Val(X::Tuple(vec![self.vars_tuple(vars), X::a("false")])))
        })();
        let out = std::mem::replace(&mut self.cur, saved_cur);
        self.locals = saved_locals;
        Ok(Blk { stmts: out, tail: r? })
    }

    /// `while c { body }`, `if d { break; }` allowed as a statement of the body
    pub(super) fn while_loop(&mut self, w: &syn::ExprWhile) -> R<()> {
        let fuel = self.loop_fuel.clone().ok_or("`while` in a function for which no fuel is given")?;
        if w.label.is_some() {
            return Err("labelled loop".into());
        }
        if matches!(&*w.cond, Expr::Let(_)) {
            return Err("`while let`".into());
        }
        let body = &w.body.stmts;
        {
            use syn::visit::Visit;
            struct Brk(bool);
            impl<'ast> Visit<'ast> for Brk {
                fn visit_expr_break(&mut self, _: &'ast syn::ExprBreak) {
                    self.0 = true;
                }
                fn visit_expr_continue(&mut self, _: &'ast syn::ExprContinue) {
                    self.0 = true;
                }
                fn visit_expr_return(&mut self, _: &'ast syn::ExprReturn) {
                    self.0 = true;
                }
            }
            let mut v = Brk(false);
            for s in body {
                if break_if(s).is_none() {
                    v.visit_stmt(s);
                }
            }
            if v.0 {
                return Err("`break` / `continue` / `return` inside a `while` other than a statement `if c { break; }` of its body".into());
            }
        }
        let st: Vec<&Stmt> = body.iter().collect();
        let vars = self.assigned_outer_stmts(&st, &[&w.cond])?;
        for v in &vars {
            if self.locals[v].ty == T::Unknown {
                return Err(format!("`{v}` is declared without initialiser and assigned in a `while`"));
            }
        }
        let saved_locals = self.locals.clone();
        let saved_cur = std::mem::take(&mut self.cur);
        let mut params: Vec<String> = vec![];
        let r = (|| -> R<Tail> {
            self.bind_state(&vars, &mut params);
            let (c, ct) = self.expr(&w.cond, &T::Bool)?;
            if ct != T::Bool {
                return Err("`while` condition is not a bool".into());
            }
            let stay = Blk::val(X::Tuple(vec![self.vars_tuple(&vars), X::a("true")]));
            let go = self.loop_body(body, &vars)?;
            Ok(Tail::If(c, Box::new(go), Box::new(stay)))
        })();
        let out = std::mem::replace(&mut self.cur, saved_cur);
        self.locals = saved_locals;
        let blk = Blk { stmts: out, tail: r? };
        let eff = blk.effectful();
        let f = X::Fun(params, Box::new(blk), false);
        let init_x = self.vars_tuple(&vars);
        let term = X::app(if eff { "Slice.loopM" } else { "Slice.loop" }, vec![X::A(fuel), init_x, f]);
        self.rebind(&vars, Blk { stmts: vec![], tail: if eff { Tail::Eff(term) } else { Tail::Val(term) } });
        Ok(())
    }

    /// `for x in v.iter_mut()[.filter(p)]* { body }` where the body assigns `x` and the outer locals `outer`:
    /// `(outer, v) := Slice.mapAccum (fun outer x => if p x then (body; (outer, x)) else (outer, x)) outer v`
    pub(super) fn map_accum_loop(&mut self, var: &str, place: &Expr, filters: &[&Expr], body: &[Stmt], outer: &[String]) -> R<()> {
        let (list, lt) = self.expr(place, &T::Unknown)?;
        let et = match lt {
            T::List(t) => *t,
            t => return Err(format!("mutable iteration over a value of type {:?}", t)),
        };
        let init = self.vars_tuple(outer);
        let saved_locals = self.locals.clone();
        let saved_cur = std::mem::take(&mut self.cur);
        let mut params: Vec<String> = vec![];
        let r = (|| -> R<(Blk, String)> {
            // the accumulator is unpacked inside the branch that runs the body; the skipping branch hands the parameter on
            let acc_name = match outer.len() {
                1 => self.locals[&outer[0]].lean.clone(),
                _ => self.fresh_name("st"),
            };
            params.push(acc_name.clone());
            let x = self.declare(var, et.clone());
            params.push(x.clone());
            let mut preds = vec![];
            for f in filters {
                let c = match strip(f) {
                    Expr::Closure(c) if c.inputs.len() == 1 => c,
                    _ => return Err("`filter` without a closure literal".into()),
                };
                let mut p = match &c.inputs[0] {
                    Pat::Type(pt) => &*pt.pat,
                    p => p,
                };
                while let Pat::Reference(r) = p {
                    p = &*r.pat;
                }
                let pn = match p {
                    Pat::Ident(i) => i.ident.to_string(),
                    _ => return Err("`filter` closure parameter".into()),
                };
                let keep = self.locals.get(&pn).cloned();
                self.locals.insert(pn.clone(), Local { lean: x.clone(), ty: et.clone(), seq: 0 });
                let n0 = self.cur.len();
                let r = self.expr(&c.body, &T::Bool);
                match keep {
                    Some(k) => self.locals.insert(pn, k),
                    None => self.locals.remove(&pn),
                };
                let (px, pt) = r?;
                if pt != T::Bool || self.cur.len() != n0 {
                    return Err("`filter` closure: not a pure predicate".into());
                }
                preds.push(px);
            }
            let skip = Blk::val(X::Tuple(vec![X::A(acc_name.clone()), X::A(x.clone())]));
            // the body, in a block of its own
            let saved_cur2 = std::mem::take(&mut self.cur);
            let saved_locals2 = self.locals.clone();
            let rb = (|| -> R<X> {
                if outer.len() > 1 {
                    for (k, v) in outer.iter().enumerate() {
                        let l = self.locals[v].lean.clone();
                        self.emit(St::Let(l, tuple_proj(X::A(acc_name.clone()), k, outer.len())));
                    }
                }
                for s in body {
                    self.stmt(s)?;
                }
                let xl = self.locals.get(var).map(|l| l.lean.clone()).unwrap_or(x.clone());
                Ok(X::Tuple(vec![self.vars_tuple(outer), X::A(xl)]))
            })();
            let out = std::mem::replace(&mut self.cur, saved_cur2);
            self.locals = saved_locals2;
            let mut blk = Blk { stmts: out, tail: Tail::Val(rb?) };
            // a final `if` statement whose joined tuple is exactly (outer…, x) becomes the tail when the shapes agree
            blk = fuse_pair_tail(blk);
            if !preds.is_empty() {
                let mut c = preds[0].clone();
                for p in &preds[1..] {
                    c = X::Bin("&&".into(), Box::new(c), Box::new(p.clone()));
                }
                blk = Blk { stmts: vec![], tail: Tail::If(c, Box::new(blk), Box::new(skip)) };
            }
            Ok((blk, x))
        })();
        let extra = std::mem::replace(&mut self.cur, saved_cur);
        self.locals = saved_locals;
        let (blk, _x) = r?;
        if !extra.is_empty() {
            return Err("internal: statements escaped a loop body".into());
        }
        if blk.effectful() {
            return Err("a loop over `&mut` elements that assigns outer locals and can panic".into());
        }
        let f = X::Fun(params, Box::new(blk), false);
        let term = X::app("Slice.mapAccum", vec![f, init, list]);
        let tmp = self.fresh_name("ma");
        self.emit(St::Let(tmp.clone(), term));
        let n = outer.len();
        for (k, v) in outer.iter().enumerate() {
            let l = self.locals[v].lean.clone();
            let acc = X::Field(Box::new(X::A(tmp.clone())), "1".into());
            self.emit(St::Let(l, if n == 1 { acc } else { tuple_proj(acc, k, n) }));
        }
        let (nm, nv) = self.assign_into(place, X::Field(Box::new(X::A(tmp)), "2".into()))?;
        self.emit_let(nm, nv);
        Ok(())
    }
}

/// `let st := <if …>; let a := st.1; let b := st.2; ((a), b)`-style endings are left as they are: the tie proofs see through `let`
fn fuse_pair_tail(b: Blk) -> Blk {
    b
}

// ================================================================================================ the module

/// translated and tied (Props/TieTracks2.lean)
pub const REQUIRED: &[&str] = &["distribute_space_up_to_limits", "maximise_tracks", "distribute_item_space_to_growth_limit", "distribute_item_space_to_base_size"];
/// attempted; what leaves the fragment is reported in a comment of the generated file
pub const OPTIONAL: &[&str] = &[];

/// the fuel of `distribute_space_up_to_limits`' `while`: `GridTracks.distFuel tracks.len()` = 2·len + 8, what every caller in Model/FrSize.lean passes
const DIST_FUEL: &str = "2 * List.length tracks + 8";

fn opts_for(name: &str) -> (FnOpts, Option<String>) {
    match name {
        "distribute_space_up_to_limits" => (FnOpts { ext_fn_params: vec!["track_limit".into()], ext_div: true, nested_fuel: None, hoist_nested_fns: false, ..Default::default() }, Some(DIST_FUEL.to_string())),
        "distribute_item_space_to_base_size" => (FnOpts { ext_fn_params: vec!["track_limit".into()], ext_div: false, nested_fuel: None, hoist_nested_fns: true, ..Default::default() }, None),
        _ => (FnOpts::default(), None),
    }
}

pub fn extract(repo: &str, w: &World, reg: &mut Reg) -> Result<String, String> {
    let env = CfgEnv::default_build();
    let file = parse_file(&format!("{repo}/src/compute/grid/track_sizing.rs"))?;
    let mut acc = Acc::new(
        "Gen.TrackSizing",
        "src/compute/grid/track_sizing.rs",
        &["TaffyVerif.Generated.TrackSizing", "TaffyVerif.Model.SliceOps2"],
        &[
            "The space distribution functions (extract/src/tracks2.rs on top of slices.rs; conventions as in Generated/TrackSizing.lean, plus:)",
            "`while c { …; if d { break; } … }` is `Slice.loop[M] fuel state step`, `step state = if c then (…; if d then (state, true) else (…; (state', false)))",
            "else (state, true)`, with the fuel the hand-written model's callers pass (`GridTracks.distFuel tracks.len()`; Props/C03Tracks.lean proves it is",
            "never exhausted); `for track in tracks.iter_mut().filter(p) { … }` that also assigns outer locals is `Slice.mapAccum`; the closure parameter",
            "`track_limit` answers a `GridTracks.Ext` (its callers pass `f32::INFINITY`-valued limits); `(limit − x) / p` stays extended (`Slice.Ext.divF`),",
            "`min_by(|a, b| a.total_cmp(b))` over extended values is `Slice.Ext.minByTotalCmp`, `f32_min(e, x)` with a finite `x` is `Slice.Ext.minF`;",
            "`const THRESHOLD: f32 = 0.01` is `Num.ofNat 1 / Num.ofNat 100` (exact operands, correctly rounded division = the literal's f32 value).",
        ],
    );
    // `enum IntrinsicContributionType` has no model-independent Lean type: generated from the source (unit variants only)
    match unit_enum(&file, &env, "IntrinsicContributionType") {
        Ok(vs) => {
            acc.text.push_str(&format!("/-- `enum IntrinsicContributionType` -/\ninductive Gen.TrackSizing.IntrinsicContributionType where\n{}deriving Repr, DecidableEq\n\n", vs.iter().map(|v| format!("  | {v}\n")).collect::<String>()));
            reg.enums.push(SEnum { rust: "IntrinsicContributionType".into(), lean: "Gen.TrackSizing.IntrinsicContributionType".into(), alpha: false, variants: vs.iter().map(|v| (v.clone(), v.clone(), vec![])).collect() });
        }
        Err(e) => acc.errors.push(format!("enum IntrinsicContributionType: {e}")),
    }
    let no = HashMap::new();
    for name in REQUIRED.iter().chain(OPTIONAL.iter()) {
        let f = file.items.iter().find_map(|it| match it {
            Item::Fn(f) if f.sig.ident == name && env.enabled(&f.attrs).unwrap_or(false) => Some(f),
            _ => None,
        });
        let req = REQUIRED.contains(name);
        let f = match f {
            Some(f) => f,
            None => {
                acc.fail(name, req, "not found in the source".into());
                continue;
            }
        };
        let (opts, fuel) = opts_for(name);
        let rel = ident(name);
        let plan = FnPlan { head: String::new(), rust_name: name.to_string(), lean_name: format!("{}.{rel}", acc.ns), self_ty: None, generics: no.clone(), sig: &f.sig, block: &f.block, doc: None, ext_ret: false, loop_fuel: fuel, opts };
        match translate_fn(w, reg, &plan) {
            Ok((text, sfn)) => {
                acc.text.push_str(&text);
                acc.translated.push(rel);
                reg.add_fn("", name, sfn);
            }
            Err(e) => acc.fail(&rel, req, e),
        }
    }
    acc.finish(REQUIRED)
}

/// the variants of a field-less enum of the file
fn unit_enum(file: &syn::File, env: &CfgEnv, name: &str) -> R<Vec<String>> {
    for it in &file.items {
        if let Item::Enum(e) = it {
            if e.ident == name && env.enabled(&e.attrs)? {
                if !e.variants.iter().all(|v| matches!(v.fields, syn::Fields::Unit)) || !e.generics.params.is_empty() {
                    return Err("not a field-less enum".into());
                }
                return Ok(e.variants.iter().map(|v| v.ident.to_string()).collect());
            }
        }
    }
    Err("not found in the source".into())
}

// ================================================================================================ interaction form: expand_flexible_tracks

/// `expand_flexible_tracks`  →  Generated/TrackSizing3.lean: a program of `Slice.ItemProg ι α` (Model/SliceOps3.lean). `GridItem` is the abstract
/// type `ι`: its pure methods `crosses_flexible_track` / `track_range_excluding_lines` are function parameters, its tree-touching method
/// `max_content_contribution_cached(axis, tree, known_dimensions, inner_node_size)` is a program node that answers the contribution and the
/// updated item (its cache); `tree` itself is not translated.
pub fn extract3(repo: &str, w: &World, reg: &mut Reg) -> Result<String, String> {
    let env = CfgEnv::default_build();
    let file = parse_file(&format!("{repo}/src/compute/grid/track_sizing.rs"))?;
    let mut acc = Acc::new(
        "Gen.TrackSizing",
        "src/compute/grid/track_sizing.rs",
        &["TaffyVerif.Generated.TrackSizing2", "TaffyVerif.Generated.Geometry", "TaffyVerif.Model.SliceOps3"],
        &[
            "`expand_flexible_tracks` in interaction form (extract/src/tracks2.rs): a program of `Slice.ItemProg ι α` (Model/SliceOps3.lean). `GridItem` is the",
            "abstract type `ι`; its pure methods are the function parameters `crosses_flexible_track`, `track_range_excluding_lines` (the `Range<usize>` as a",
            "pair); `item.max_content_contribution_cached(axis, tree, known_dimensions, inner_node_size)` is a program node that answers the contribution and",
            "the updated item, one node per call in the Rust order (the iterator chain `items.iter_mut().filter(p).map(f)` is lazy: per item, `p`, then `f`);",
            "operations of `Except GErr` are lifted (`Slice.ItemProg.ofExcept`); `&axis_tracks[range]` is `Slice.indexRange` (panics out of range);",
            "`max_by(|a, b| a.total_cmp(b))` is `Slice.maxByTotalCmp`; a `let x = match … { … }` whose arms update `items` answers `(items, x)`.",
        ],
    );
    let item = T::Var("ι".into());
    let axis = T::adt("AbstractAxis");
    reg.add_fn("?", "crosses_flexible_track", SFn { lean: "crosses_flexible_track".into(), self_ty: Some(item.clone()), params: vec![axis.clone()], ret: T::Bool, eff: false, muts: vec![], dropped: 0, dropped_pos: vec![], alpha: false, numcast: false });
    reg.add_fn("?", "track_range_excluding_lines", SFn { lean: "track_range_excluding_lines".into(), self_ty: Some(item.clone()), params: vec![axis], ret: T::Tuple(vec![T::Usize, T::Usize]), eff: false, muts: vec![], dropped: 0, dropped_pos: vec![], alpha: false, numcast: false });
    // the tree-touching method: only usable as `let x = item.max_content_contribution_cached(…);` (`Cx::let_item_call`); registered so that the
    // assignment scan sees that it updates its receiver
    let size_opt = T::Adt("Size".into(), vec![T::opt(T::F32)]);
    reg.add_fn("?", "max_content_contribution_cached", SFn { lean: "Slice.ItemProg.max_content_contribution_cached".into(), self_ty: Some(T::Var("ι".into())), params: vec![T::adt("AbstractAxis"), size_opt.clone(), size_opt], ret: T::F32, eff: true, muts: vec![0], dropped: 0, dropped_pos: vec![1], alpha: true, numcast: false });
    // `Size::NONE` as translated in Generated/Geometry.lean
    reg.consts.insert(("Size".to_string(), "NONE".to_string()), ("Gen.Geometry.Size.NONE".to_string(), T::Adt("Size".into(), vec![T::opt(T::F32)])));
    let name = "expand_flexible_tracks";
    let f = file.items.iter().find_map(|it| match it {
        Item::Fn(f) if f.sig.ident == name && env.enabled(&f.attrs).unwrap_or(false) => Some(f),
        _ => None,
    });
    match f {
        None => acc.fail(name, true, "not found in the source".into()),
        Some(f) => {
            let mut generics = HashMap::new();
            generics.insert("GridItem".to_string(), item);
            let opts = FnOpts {
                prog_mode: true,
                prog_calls: vec![("max_content_contribution_cached".into(), "Slice.ItemProg.max_content_contribution_cached".into())],
                extra_binders: " (crosses_flexible_track : ι → GridModel.Ax → Bool) (track_range_excluding_lines : ι → GridModel.Ax → Nat × Nat)".into(),
                ..Default::default()
            };
            let plan = FnPlan { head: String::new(), rust_name: name.to_string(), lean_name: format!("{}.{name}", acc.ns), self_ty: None, generics, sig: &f.sig, block: &f.block, doc: None, ext_ret: false, loop_fuel: None, opts };
            match translate_fn(w, reg, &plan) {
                Ok((text, _)) => {
                    acc.text.push_str(&text);
                    acc.translated.push(name.to_string());
                }
                Err(e) => acc.fail(name, true, e),
            }
        }
    }
    acc.finish(&[name])
}
