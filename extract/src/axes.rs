//! The direction/axis helpers: `impl FlexDirection` of src/style/flex.rs and the `FlexDirection` / `AbstractAxis` indexed
//! accessors of src/geometry.rs  →  Generated/Axes.lean (flexbox) and Generated/GridAxes.lean (grid).
//! `impl<T> Size<T>` / `Rect<T>` / `Point<T>` are translated polymorphically (`{β : Type}`), as the models state them.
use crate::emit::{check_adt, impls, ImplInfo, Out, Plan};
use crate::lean::{ident, Ty, World};
use crate::util::{parse_file, CfgEnv};
use std::collections::HashMap;
use syn::ImplItem;

pub const REQUIRED_FLEX: &[&str] = &[
    "FlexDirection.is_row", "FlexDirection.is_column", "FlexDirection.is_reverse",
    "Rect.main_axis_sum", "Rect.cross_axis_sum", "Rect.main_start", "Rect.main_end", "Rect.cross_start", "Rect.cross_end",
    "Size.set_main", "Size.set_cross", "Size.main", "Size.cross", "Size.from_cross",
    "Point.transpose", "Point.main", "Point.cross",
];
pub const REQUIRED_GRID: &[&str] = &["AbstractAxis.other", "Size.get", "Size.set", "Point.get"];

/// the functions of one impl whose names are in `only`
fn some_items(out: &mut Out, w: &mut World, info: &ImplInfo, env: &CfgEnv, head: &str, self_ty: Ty, generics: &HashMap<String, Ty>, only: &[&str], required: &[&str]) -> Result<(), String> {
    for ii in info.items {
        if let ImplItem::Fn(f) = ii {
            let name = f.sig.ident.to_string();
            if !env.enabled(&f.attrs)? || !only.contains(&name.as_str()) {
                continue;
            }
            let lean_rel = format!("{head}.{}", ident(&name));
            let req = required.contains(&lean_rel.as_str());
            out.function(w, Plan { head: head.to_string(), rust_name: name, lean_rel, self_ty: Some(self_ty.clone()), generics: generics.clone(), sig: &f.sig, block: &f.block, required: req, trunc_sub: false, ext: Default::default() });
        }
    }
    Ok(())
}

pub fn extract_flex(repo: &str, w: &mut World) -> Result<String, String> {
    let env = CfgEnv::default_build();
    let flex = parse_file(&format!("{repo}/src/style/flex.rs"))?;
    check_adt(w, &flex.items, &env, "FlexDirection", true)?;
    check_adt(w, &flex.items, &env, "FlexWrap", true)?;
    let mut out = Out::new("Gen.Axes", "src/style/flex.rs (impl FlexDirection), src/geometry.rs (FlexDirection-indexed accessors)", &["TaffyVerif.Generated.Geometry", "TaffyVerif.Model.Style"]);
    let mut v = vec![];
    impls(&flex.items, &env, &[], &mut v)?;
    for info in &v {
        if info.trait_.is_none() && info.self_ty == "FlexDirection" {
            // `main_axis` / `cross_axis` return `AbsoluteAxis`, which has no counterpart type in the models: reported as comments
            some_items(&mut out, w, info, &env, "FlexDirection", Ty::adt("FlexDirection", vec![]), &HashMap::new(), &["is_row", "is_column", "is_reverse", "main_axis", "cross_axis"], REQUIRED_FLEX)?;
        }
    }
    let geo = parse_file(&format!("{repo}/src/geometry.rs"))?;
    let mut v = vec![];
    impls(&geo.items, &env, &[], &mut v)?;
    let beta = Ty::Var("β".into());
    let gb: HashMap<String, Ty> = [("T".to_string(), beta.clone())].into_iter().collect();
    let gf: HashMap<String, Ty> = [("T".to_string(), Ty::F32), ("U".to_string(), Ty::F32)].into_iter().collect();
    for info in &v {
        if info.trait_.is_some() {
            continue;
        }
        match (info.self_ty.as_str(), info.generics.len()) {
            // `impl<T, U> Rect<T> where T: Add<Output = U> + Copy`: instantiated at f32, as in Generated/Geometry.lean
            ("Rect<T>", 2) => some_items(&mut out, w, info, &env, "Rect", Ty::adt("Rect", vec![Ty::F32]), &gf, &["main_axis_sum", "cross_axis_sum"], REQUIRED_FLEX)?,
            ("Rect<T>", 1) => some_items(&mut out, w, info, &env, "Rect", Ty::adt("Rect", vec![beta.clone()]), &gb, &["main_start", "main_end", "cross_start", "cross_end"], REQUIRED_FLEX)?,
            ("Size<T>", 1) => some_items(
                &mut out,
                w,
                info,
                &env,
                "Size",
                Ty::adt("Size", vec![beta.clone()]),
                &gb,
                &["set_main", "set_cross", "with_main", "with_cross", "map_main", "map_cross", "main", "cross", "get_abs"],
                REQUIRED_FLEX,
            )?,
            ("Size<Option<f32>>", 0) => some_items(&mut out, w, info, &env, "Size", Ty::adt("Size", vec![Ty::opt(Ty::F32)]), &HashMap::new(), &["from_cross"], REQUIRED_FLEX)?,
            ("Point<T>", 1) => some_items(&mut out, w, info, &env, "Point", Ty::adt("Point", vec![beta.clone()]), &gb, &["transpose", "main", "cross"], REQUIRED_FLEX)?,
            _ => {}
        }
    }
    out.finish(REQUIRED_FLEX)
}

pub fn extract_grid(repo: &str, w: &mut World) -> Result<String, String> {
    let env = CfgEnv::default_build();
    let geo = parse_file(&format!("{repo}/src/geometry.rs"))?;
    check_adt(w, &geo.items, &env, "AbstractAxis", true)?;
    let mut out = Out::new("Gen.GridAxes", "src/geometry.rs (AbstractAxis-indexed accessors)", &["TaffyVerif.Model.GridItem"]);
    let mut v = vec![];
    impls(&geo.items, &env, &[], &mut v)?;
    let beta = Ty::Var("β".into());
    let gb: HashMap<String, Ty> = [("T".to_string(), beta.clone())].into_iter().collect();
    for info in &v {
        if info.trait_.is_some() {
            continue;
        }
        match (info.self_ty.as_str(), info.generics.len()) {
            // `as_abs_naive` returns `AbsoluteAxis` (no counterpart type in the models): reported as a comment
            ("AbstractAxis", 0) => some_items(&mut out, w, info, &env, "AbstractAxis", Ty::adt("AbstractAxis", vec![]), &HashMap::new(), &["other", "as_abs_naive"], REQUIRED_GRID)?,
            ("Size<T>", 1) => some_items(&mut out, w, info, &env, "Size", Ty::adt("Size", vec![beta.clone()]), &gb, &["get", "set"], REQUIRED_GRID)?,
            ("Point<T>", 1) => some_items(&mut out, w, info, &env, "Point", Ty::adt("Point", vec![beta.clone()]), &gb, &["get", "set"], REQUIRED_GRID)?,
            _ => {}
        }
    }
    out.finish(REQUIRED_GRID)
}
