//! src/tree/traits.rs  →  Generated/Tree.lean
//!
//! The layout functions reach the tree through the traits `LayoutPartialTree` and `CacheTree`. Their methods become the
//! constructors of one interaction-program type (`Gen.Tree.Prog α NodeId β`), read off the trait declarations: a function with a
//! `tree` parameter is translated into a program that performs these interactions in the order the Rust calls the methods (the
//! same form as the hand-written `ProgM`). `NodeId` stays abstract.
//! The provided methods of `LayoutPartialTreeExt` (`perform_child_layout`) are translated from their bodies.
use crate::emit::{impl_traits, norm, EffectSig, Out, Plan, PlanExt, ProgPlan};
use crate::expr::Ctx;
use crate::lean::{ident, Ty, World};
use crate::util::{parse_file, CfgEnv};
use std::collections::HashMap;
use syn::{Item, TraitItem};

pub const REQUIRED: &[&str] = &["Prog", "Prog.bind", "perform_child_layout"];
/// (trait, methods that become queries); `resolve_calc_value` (calc() is not modelled) is the one method left out
const TRAITS: &[(&str, &[&str])] = &[
    ("LayoutPartialTree", &["get_core_container_style", "set_unrounded_layout", "compute_child_layout"]),
    ("CacheTree", &["cache_get", "cache_store", "cache_clear"]),
];
pub const TREE_HEAD: &str = "<tree>";

pub fn node_generics() -> HashMap<String, Ty> {
    [("NodeId".to_string(), Ty::Var("NodeId".into()))].into_iter().collect()
}

pub fn extract(repo: &str, w: &mut World) -> Result<String, String> {
    let env = CfgEnv::default_build();
    let file = parse_file(&format!("{repo}/src/tree/traits.rs"))?;
    let mut out = Out::new("Gen.Tree", "src/tree/traits.rs (LayoutPartialTree, CacheTree, LayoutPartialTreeExt)", &["TaffyVerif.Generated.Prelude", "TaffyVerif.Generated.LayoutTypes", "TaffyVerif.Model.Style"]);
    out.comment("TaffyVerif.Model.Style is imported for the TYPE `Style` only (the answer of `get_core_container_style`: the associated type");
    out.comment("`CoreContainerStyle: CoreStyle` is seen through the getters of `CoreStyle` as translated for `Style`, Generated/Style.lean).");
    out.comment("`resolve_calc_value` is not a query: calc() is not modelled (its results are dropped wherever they are passed on).");
    out.text.push('\n');
    let mut ctors: Vec<(String, Vec<(String, Ty)>, Ty, Option<String>)> = vec![];
    for (tr, methods) in TRAITS {
        let t = file
            .items
            .iter()
            .find_map(|it| match it {
                Item::Trait(t) if t.ident == tr => Some(t),
                _ => None,
            })
            .ok_or(format!("trait {tr} not found"))?;
        // associated types and the style trait they are bounded by
        let mut assoc: HashMap<String, String> = HashMap::new();
        for ti in &t.items {
            if let TraitItem::Type(at) = ti {
                for b in &at.bounds {
                    if let syn::TypeParamBound::Trait(tb) = b {
                        let n = tb.path.segments.last().unwrap().ident.to_string();
                        if crate::emit::STYLE_TRAITS.contains(&n.as_str()) {
                            assoc.insert(at.ident.to_string(), n);
                        }
                    }
                }
            }
        }
        let mut found = vec![];
        for ti in &t.items {
            if let TraitItem::Fn(f) = ti {
                let name = f.sig.ident.to_string();
                if !env.enabled(&f.attrs)? {
                    continue;
                }
                if !methods.contains(&name.as_str()) {
                    if name == "resolve_calc_value" {
                        continue;
                    }
                    return Err(format!("trait {tr} has the method `{name}`, which the interaction-program type does not know"));
                }
                if f.default.is_some() {
                    return Err(format!("`{tr}::{name}` has a provided body: it is no longer an opaque interaction"));
                }
                let cx = Ctx::new(w, None, node_generics());
                let mut params = vec![];
                let mut has_recv = false;
                for a in &f.sig.inputs {
                    match a {
                        syn::FnArg::Receiver(_) => has_recv = true,
                        syn::FnArg::Typed(pt) => {
                            let n = match &*pt.pat {
                                syn::Pat::Ident(i) => i.ident.to_string(),
                                _ => return Err(format!("`{tr}::{name}`: parameter pattern")),
                            };
                            if impl_traits(&pt.ty).is_some() {
                                return Err(format!("`{tr}::{name}`: parameter `{n}` of `impl Trait` type"));
                            }
                            let ty = cx.rust_ty(&pt.ty).map_err(|e| format!("`{tr}::{name}`: {e}"))?;
                            if ty.has_unknown() {
                                return Err(format!("`{tr}::{name}`: parameter `{n}`: type not fully determined"));
                            }
                            params.push((n, ty));
                        }
                    }
                }
                if !has_recv {
                    return Err(format!("`{tr}::{name}` has no receiver"));
                }
                let (ret, view) = match &f.sig.output {
                    syn::ReturnType::Default => (Ty::Unit, None),
                    syn::ReturnType::Type(_, t) => {
                        // `Self::CoreContainerStyle<'_>`
                        let s = norm(t);
                        let assoc_name = s.strip_prefix("Self::").map(|x| x.split('<').next().unwrap().to_string());
                        match assoc_name.and_then(|n| assoc.get(&n).cloned()) {
                            Some(style_trait) => (Ty::adt("Style", vec![]), Some(style_trait)),
                            None => (cx.rust_ty(t).map_err(|e| format!("`{tr}::{name}`: {e}"))?, None),
                        }
                    }
                };
                if ret.has_unknown() {
                    return Err(format!("`{tr}::{name}`: return type not fully determined"));
                }
                found.push(name.clone());
                ctors.push((name, params, ret, view));
            }
        }
        for m in *methods {
            if !found.iter().any(|f| f == m) {
                return Err(format!("`{tr}::{m}` not found"));
            }
        }
    }
    // the program type
    let cs: Vec<(String, Vec<(String, Ty)>, Ty)> = ctors.iter().map(|(n, ps, r, _)| (n.clone(), ps.clone(), r.clone())).collect();
    out.text.push_str(&crate::emit::prog_inductive(
        w,
        "interaction programs over a `tree` (`LayoutPartialTree`, `CacheTree`): one constructor per trait method — the call's arguments, then the\ncontinuation on the method's return value; `unreachable` is `unreachable!()`. The hand-written `ProgM` has the same shape.",
        &["α", "NodeId"],
        &cs,
    ));
    out.translated.push("Prog".into());
    out.translated.push("Prog.bind".into());
    let mut plan = ProgPlan {
        ty_lean: "Gen.Tree.Prog α NodeId".into(),
        ns_lean: "Gen.Tree.Prog".into(),
        type_vars: vec!["NodeId".into()],
        tree_param: None,
        tree_generic: None,
        tree_methods: HashMap::new(),
        tree_head: TREE_HEAD.into(),
        closures: HashMap::new(),
        monadic_closures: vec![],
    };
    for (n, ps, r, view) in &ctors {
        plan.tree_methods.insert(n.clone(), EffectSig { ctor: format!("Gen.Tree.Prog.{}", ident(n)), params: ps.iter().map(|p| p.1.clone()).collect(), ret: r.clone(), ret_view: view.clone() });
    }
    w.tree_plan = Some(plan.clone());
    // provided methods of `LayoutPartialTreeExt` (`self` is the tree)
    let ext = file
        .items
        .iter()
        .find_map(|it| match it {
            Item::Trait(t) if t.ident == "LayoutPartialTreeExt" => Some(t),
            _ => None,
        })
        .ok_or("trait LayoutPartialTreeExt not found")?;
    let blanket = file.items.iter().any(|it| matches!(it, Item::Impl(im) if norm(&im.self_ty) == "T" && im.trait_.as_ref().map(|t| norm(&t.1)) == Some("LayoutPartialTreeExt".into()) && im.items.is_empty()));
    if !blanket {
        return Err("`impl<T: LayoutPartialTree> LayoutPartialTreeExt for T {}` (no overriding items) not found".into());
    }
    for ti in &ext.items {
        if let TraitItem::Fn(f) = ti {
            let name = f.sig.ident.to_string();
            if !env.enabled(&f.attrs)? || name == "calc" {
                continue;
            }
            let block = match &f.default {
                Some(b) => b,
                None => return Err(format!("`LayoutPartialTreeExt::{name}` has no body")),
            };
            let mut pp = plan.clone();
            pp.tree_param = Some("self".into());
            out.function(
                w,
                Plan {
                    head: TREE_HEAD.into(),
                    rust_name: name.clone(),
                    lean_rel: ident(&name),
                    self_ty: None,
                    generics: node_generics(),
                    sig: &f.sig,
                    block,
                    required: REQUIRED.contains(&name.as_str()),
                    trunc_sub: false,
                    ext: PlanExt { prog: Some(pp), doc: Some(" (provided method of `LayoutPartialTreeExt`; `self` is the tree)".into()), ..Default::default() },
                },
            );
        }
    }
    out.finish(REQUIRED)
}
