//! The pure functions of src/compute/grid/track_sizing.rs (over `&mut [GridTrack]` and plain numbers), translated with `slices.rs`
//!   →  Generated/TrackSizing.lean (namespace `Gen.TrackSizing`); Props/TieTracks.lean proves them equal to Model/FrSize.lean.
//! `tree: &impl LayoutPartialTree` is used by these functions only as the calc resolver (`|val, basis| tree.calc(val, basis)`): not
//! translated (calc() is not modelled); any other use of it is an error.
use crate::gridinit::Acc;
use crate::lean::{ident, World};
use crate::slices::Reg;
use crate::util::{parse_file, CfgEnv};
use std::collections::HashMap;
use syn::Item;

/// translated and tied
pub const REQUIRED: &[&str] = &["flush_planned_base_size_increases", "flush_planned_growth_limit_increases", "initialize_track_sizes", "find_size_of_fr", "stretch_auto_tracks"];
/// attempted; what leaves the fragment is reported in a comment of the generated file
pub const OPTIONAL: &[&str] = &[]; // `maximise_tracks`, `distribute_space_up_to_limits`: see tracks2.rs (Generated/TrackSizing2.lean)

pub fn extract(repo: &str, w: &World, reg: &mut Reg) -> Result<String, String> {
    let env = CfgEnv::default_build();
    let file = parse_file(&format!("{repo}/src/compute/grid/track_sizing.rs"))?;
    let mut acc = Acc::new(
        "Gen.TrackSizing",
        "src/compute/grid/track_sizing.rs",
        &["TaffyVerif.Generated.TrackFns", "TaffyVerif.Generated.AvailableSpace", "TaffyVerif.Generated.Sys"],
        &[
            "Translated statement by statement (extract/src/slices.rs). `for track in tracks.iter_mut()[.filter(p)] { … }` (and the `for_each` form) is",
            "`List.map` over the tracks (the body may assign nothing but the track); `growth_limit` and the results of `compute_free_space` /",
            "`fit_content_limit` are `GridTracks.Ext` (finite | +∞): `+`, `e − x`, comparisons and `f32_min` are closed on it (`Slice.Ext.*`); an",
            "extended value in `·`, `/`, `x − e` or stored into a plain `f32` place must be finite (`Slice.Ext.toFinite`, an explicit outcome).",
            "`tree` is used only as the calc resolver and is not translated. `loop { …; if c { break; } }` is `Slice.loop fuel state step` with the fuel of",
            "the hand-written model (find_size_of_fr: tracks.len() + 2; Props/C03Tracks.lean proves it is never exhausted); `a * e >= c` / `a * e < c` with",
            "a possibly infinite `e` are `Slice.Ext.mulGe` / `mulLt`; a local declared without initialiser is `default` until its first assignment.",
        ],
    );
    let no = HashMap::new();
    for it in &file.items {
        if let Item::Fn(f) = it {
            let name = f.sig.ident.to_string();
            if !env.enabled(&f.attrs)? {
                continue;
            }
            let req = REQUIRED.contains(&name.as_str());
            if req || OPTIONAL.contains(&name.as_str()) {
                acc.function(w, reg, "", &ident(&name), None, &no, &f.sig, &f.block, req);
            }
        }
    }
    acc.finish(REQUIRED)
}
