//! Widening of the statement fragment for the per-line functions of src/compute/flexbox.rs (used by flexline.rs; every rule in this
//! file is OPT-IN through `Ctx::ext.enabled`, so the output of the other modules is unchanged).
//!
//! A slice / `Vec` is a Lean `List`. Accepted, beside what expr.rs / stmt.rs accept:
//!
//! * iterator chains used as VALUES, with pure closures (they are translated by `Ctx::expr`, which rejects every statement but `let`):
//!   `xs.iter()` / `xs.iter_mut()` ↦ `xs`; `.len()` ↦ `List.length`; `.is_empty()` ↦ `List.isEmpty`; `.map(f)` ↦ `List.map f`;
//!   `.filter(p)` ↦ `List.filter p`; `.all(p)` ↦ `List.all`; `.fold(init, |acc, x| e)` ↦ `List.foldl (fun acc x => e) init` (a tuple
//!   pattern for `acc` is a `match`); `.sum::<f32>()` ↦ `<ns>.sum_f32` (the fold of `+` from −0.0, stated in the generated file);
//!   `x.is_normal()` ↦ `FlexLine.NumX.isNormal x`; `let o: Option<f32> = x.into()` ↦ `some x`.
//! * `for x in PLACE.iter_mut() { body }` (also `for x in PLACE`, `&mut PLACE`, `.iter()`) with `PLACE` rooted at a local:
//!     - the body assigns only to `x`                    ↦ `PLACE := List.map (fun x => body; x) PLACE`
//!     - the body assigns only to ONE outer local `a`    ↦ `a := List.foldl (fun a x => body; a) a PLACE`
//!   (anything else, `return` / `break` / `continue` / `?` / a `&mut` borrow in the body: error).
//! * a FILTERED MUTABLE VIEW `let mut v: Vec<&mut T> = PLACE.iter_mut().filter(|x| p).collect();` is not a value: it is remembered
//!   as (PLACE, p). `v.iter()` ↦ `List.filter p PLACE`; `for x in &mut v { body }` ↦ `PLACE := List.map (fun x => if p then body; x
//!   else x) PLACE`; `let t = v.iter_mut().fold(init, |acc, x| { body; e })` ↦ `<ns>.fold_mut_where p (fun acc x => (x', e)) init PLACE`
//!   (updated list, accumulator). Membership is decided at `collect()` in Rust and at each use here; the two agree because the borrow
//!   checker allows no other access to PLACE while the view lives and because a use of the view after a loop over it has written a
//!   field that `p` reads is an error (`stale`).
//! * `if c { A } [else { B }]` in statement position whose branches have no exit and assign to exactly one local `a`
//!   ↦ `let a := if c then (A; a) else (B; a)` followed ONCE by the rest (stmt.rs would copy the rest into both branches).
//! * `match s { v if g1 => A, v if g2 => B, _ => C }` whose patterns are all irrefutable ↦ the `if` chain.
//! * `recv.m(args);` for a translated `&mut self` method returning `()` ↦ `recv := m recv args`.
//! * `let f = |(i, x): (usize, &mut T)| { body };` … `PLACE.iter_mut()[.rev()].enumerate().for_each(f);` ↦
//!   `PLACE := List.mapIdx (fun i x => body; x) PLACE` (through `List.reverse` on both sides for `.rev()`).
//! * `loop { if c { break; } body }` at the top level of a function whose first parameter is `&mut`: the function gets a leading
//!   `fuel : Nat` parameter and returns `Option`; two auxiliary definitions are emitted, `<f>.loop_body` (one pass through `body` as a
//!   function of the state) and `<f>.loop : Nat → State → Option State` (`if c then some s else match fuel with | 0 => none |
//!   fuel + 1 => loop fuel (loop_body s)`); `none` = the loop did not reach its `break` within `fuel` iterations (Rust: keeps running).
//!   The state is the `&mut` parameter; an assignment to any other outer local inside the loop is an error.
use crate::expr::{Ctx, Frame, RetMode, R};
use crate::lean::{ident, Ty, L};
use std::collections::HashMap;
use syn::visit::Visit;
use syn::{Expr, Pat, Stmt};

#[derive(Clone)]
pub struct View {
    pub place: Expr,
    pub pred: syn::ExprClosure,
    pub elem: Ty,
    /// fields of the element the predicate reads
    pub reads: Vec<String>,
    pub stale: bool,
}

#[derive(Clone, Default)]
pub struct LoopExt {
    pub enabled: bool,
    /// the function returns `Option` (it contains a `loop`, run under fuel): every exit is wrapped in `some`
    pub fueled: bool,
    pub uses_numx: bool,
    /// auxiliary definitions emitted before the function (`NUMX` stands for the optional instance binder)
    pub aux: Vec<String>,
    pub fn_name: String,
    pub ns: String,
    pub views: HashMap<String, View>,
    pub mut_closures: HashMap<String, syn::ExprClosure>,
    pub n_loops: usize,
    // ---- flexwhile.rs (opt-in, off by default) ----
    /// a plain local passed as an argument of a call of a translated pure function is not a whole-value use of a `&mut` variable
    pub shared_call_args: bool,
    /// `PLACE[0]` may be read / written in a function that returns `Option` (`fueled`): `none` = out of bounds
    pub opt_index: bool,
    /// `while c { body }` under fuel, `split_at_mut`, `push`, `enumerate().find(..)` with a stateful closure
    pub whiles: bool,
    /// the function has a `fuel : Nat` parameter
    pub has_fuel: bool,
    /// inside the `head :: tail` arm of an index statement: Rust place name ↦ (Lean name of the head, element type)
    pub head_binds: Vec<(String, String, Ty)>,
    pub n_whiles: usize,
    /// the parameter that is the tree in a function translated WITHOUT interaction form: it is used only as the calc resolver
    /// (`|val, basis| tree.calc(val, basis)`: dropped) and to read child styles (`tree.get_flexbox_child_style(n)` ↦ `styleOf n`)
    pub calc_tree: Option<String>,
    /// the style traits the function sees styles through have `CoreStyle` as a supertrait (checked against the trait declarations by
    /// the module that sets this): the getters of `CoreStyle` are available through them
    pub view_super_core: bool,
    /// `index as u32` for a usize `index` is translated as `index` (exact below 2³²; stated in the generated doc comment)
    pub index_as_u32: bool,
    /// blockmod.rs (opt-in): `for` loops whose body performs interactions, `if` / `match` statements joined on the tuple of locals they assign
    pub block: bool,
    /// blockmod.rs: the next joinable statement is translated by stmt.rs (set while a join translates its own statement)
    pub no_join: bool,
    /// blockmod.rs: the final expression of the step function of the enclosing `for` (what `continue` jumps to)
    pub loop_tail: Option<syn::Expr>,
    /// blockmod.rs: the pure reads of the tree the function performs (`get_block_child_style` …): each becomes a function parameter
    pub reads_used: Vec<String>,
}

pub const NUMX_MARK: &str = "«NUMX»";

pub(crate) fn strip(e: &Expr) -> &Expr {
    match e {
        Expr::Paren(p) => strip(&p.expr),
        Expr::Group(g) => strip(&g.expr),
        Expr::Reference(r) => strip(&r.expr),
        Expr::Unary(u) if matches!(u.op, syn::UnOp::Deref(_)) => strip(&u.expr),
        _ => e,
    }
}

pub(crate) fn path_ident(e: &Expr) -> Option<String> {
    match strip(e) {
        Expr::Path(p) => p.path.get_ident().map(|i| i.to_string()),
        _ => None,
    }
}

/// the local an lvalue / iterator chain is rooted at
pub(crate) fn root_of(e: &Expr) -> Option<String> {
    match strip(e) {
        Expr::Path(p) => p.path.get_ident().map(|i| i.to_string()),
        Expr::Field(f) => root_of(&f.base),
        Expr::Index(i) => root_of(&i.expr),
        Expr::MethodCall(m) => root_of(&m.receiver),
        _ => None,
    }
}

/// `R.m1().m2(a)…`  →  (R, [(m1, []), (m2, [a]), …])
pub(crate) fn chain(e: &Expr) -> (&Expr, Vec<(String, Vec<&Expr>)>) {
    let mut v = vec![];
    let mut cur = strip(e);
    while let Expr::MethodCall(m) = cur {
        v.push((m.method.to_string(), m.args.iter().collect::<Vec<_>>()));
        cur = strip(&m.receiver);
    }
    v.reverse();
    (cur, v)
}

pub(crate) fn pat_ident(p: &Pat) -> Option<String> {
    match p {
        Pat::Ident(i) if i.subpat.is_none() => Some(i.ident.to_string()),
        Pat::Type(t) => pat_ident(&t.pat),
        Pat::Reference(r) => pat_ident(&r.pat),
        Pat::Paren(p) => pat_ident(&p.pat),
        _ => None,
    }
}

pub(crate) fn pat_names(p: &Pat, out: &mut Vec<String>) {
    match p {
        Pat::Ident(i) => out.push(i.ident.to_string()),
        Pat::Type(t) => pat_names(&t.pat, out),
        Pat::Reference(r) => pat_names(&r.pat, out),
        Pat::Paren(p) => pat_names(&p.pat, out),
        Pat::Tuple(t) => t.elems.iter().for_each(|x| pat_names(x, out)),
        Pat::TupleStruct(t) => t.elems.iter().for_each(|x| pat_names(x, out)),
        Pat::Struct(s) => s.fields.iter().for_each(|f| pat_names(&f.pat, out)),
        Pat::Or(o) => o.cases.iter().for_each(|x| pat_names(x, out)),
        _ => {}
    }
}

fn compound(op: &syn::BinOp) -> bool {
    use syn::BinOp::*;
    matches!(op, AddAssign(_) | SubAssign(_) | MulAssign(_) | DivAssign(_) | RemAssign(_) | BitXorAssign(_) | BitAndAssign(_) | BitOrAssign(_) | ShlAssign(_) | ShrAssign(_))
}

/// `PLACE.iter_mut().filter(closure).collect()`
fn view_decl(e: &Expr) -> Option<(&Expr, &syn::ExprClosure)> {
    let (base, ms) = chain(e);
    if ms.len() == 3 && ms[0].0 == "iter_mut" && ms[0].1.is_empty() && ms[1].0 == "filter" && ms[1].1.len() == 1 && ms[2].0 == "collect" && ms[2].1.is_empty() {
        if let Expr::Closure(c) = strip(ms[1].1[0]) {
            return Some((base, c));
        }
    }
    None
}

/// `VIEW.iter_mut().fold(init, closure)`
fn view_fold(e: &Expr) -> Option<(String, &Expr, &syn::ExprClosure)> {
    let (base, ms) = chain(e);
    let v = path_ident(base)?;
    if ms.len() == 2 && ms[0].0 == "iter_mut" && ms[0].1.is_empty() && ms[1].0 == "fold" && ms[1].1.len() == 2 {
        if let Expr::Closure(c) = strip(ms[1].1[1]) {
            return Some((v, ms[1].1[0], c));
        }
    }
    None
}

/// `PLACE.iter_mut()[.rev()].enumerate().for_each(NAME)`  →  (PLACE, reversed, NAME)
fn for_each_stmt(e: &Expr) -> Option<(&Expr, bool, String)> {
    let (base, ms) = chain(e);
    let names: Vec<&str> = ms.iter().map(|m| m.0.as_str()).collect();
    let rev = match names.as_slice() {
        ["iter_mut", "enumerate", "for_each"] => false,
        ["iter_mut", "rev", "enumerate", "for_each"] => true,
        _ => return None,
    };
    let last = ms.last().unwrap();
    if ms[..ms.len() - 1].iter().any(|m| !m.1.is_empty()) || last.1.len() != 1 {
        return None;
    }
    Some((base, rev, path_ident(last.1[0])?))
}

/// a closure literal one of whose parameters is typed `&mut T` (it updates its argument)
fn is_mut_closure(c: &syn::ExprClosure) -> bool {
    fn has_mut_ref(t: &syn::Type) -> bool {
        match t {
            syn::Type::Reference(r) => r.mutability.is_some() || has_mut_ref(&r.elem),
            syn::Type::Tuple(t) => t.elems.iter().any(has_mut_ref),
            syn::Type::Paren(p) => has_mut_ref(&p.elem),
            _ => false,
        }
    }
    c.inputs.iter().any(|p| matches!(p, Pat::Type(t) if has_mut_ref(&t.ty)))
}

/// the iterable of a `for`: (place, may the loop variable be written through)
pub(crate) fn for_iterable(e: &Expr) -> (&Expr, bool) {
    match e {
        Expr::Paren(p) => for_iterable(&p.expr),
        Expr::Reference(r) => (strip(&r.expr), r.mutability.is_some()),
        Expr::MethodCall(m) if m.args.is_empty() && m.method == "iter_mut" => (strip(&m.receiver), true),
        Expr::MethodCall(m) if m.args.is_empty() && m.method == "iter" => (strip(&m.receiver), false),
        // a bare place: `for line in flex_lines` with `flex_lines: &mut [T]`
        e => (strip(e), true),
    }
}

// ------------------------------------------------------------------------------------------------ syntactic scan
/// what a piece of code may write (an over-approximation: roots of assignment targets, of receivers of method-call statements, of
/// `&mut` call arguments, of mutable iteration) and whether it can leave the enclosing construct
#[derive(Default)]
pub struct Scan {
    pub assigned: Vec<String>,
    pub declared: Vec<String>,
    pub exits: bool,
    pub mut_borrow: bool,
    pub loops: bool,
    /// locals used as whole values (not as the base of a field access, the receiver of a method call, an assignment target or the
    /// iterable of a `for`): for a `&mut` variable such a use can create an alias the state-passing translation would lose
    pub whole_uses: Vec<String>,
    /// inside an expression used as a value (the tail of a nested block is then a value, not a statement)
    in_value: bool,
    /// view name ↦ root of its place
    pub views: HashMap<String, String>,
    /// local closures that update their argument
    pub mut_closures: Vec<String>,
    /// flexwhile.rs: plain locals passed to a call of one of these functions (translated free functions that update no argument:
    /// their reference parameters are `&T`) are not whole-value uses; empty = the rule is off
    pub shared_args: Vec<String>,
    /// flexwhile.rs: the code indexes a slice (`x[i]`, not `x[..]`)
    pub indexes: bool,
}

impl Scan {
    fn assign(&mut self, e: &Expr) {
        if crate::flexwhile::has_index(e) {
            self.indexes = true;
        }
        match root_of(e) {
            Some(r) => {
                let r = self.views.get(&r).cloned().unwrap_or(r);
                if !self.assigned.contains(&r) {
                    self.assigned.push(r)
                }
            }
            None => self.mut_borrow = true,
        }
    }
    fn declare(&mut self, p: &Pat) {
        let mut v = vec![];
        pat_names(p, &mut v);
        for n in v {
            if !self.declared.contains(&n) {
                self.declared.push(n)
            }
        }
    }
    /// a method call whose value is discarded (or the tail of a block): it may update its receiver. A receiver that is not rooted
    /// at a local is a temporary: nothing to update.
    fn stmt_method_call(&mut self, m: &syn::ExprMethodCall) {
        let e = Expr::MethodCall(m.clone());
        if let Some((place, _, _)) = for_each_stmt(&e) {
            self.assign(place);
            return;
        }
        if root_of(&m.receiver).is_some() {
            self.assign(&m.receiver);
        }
        if !matches!(strip(&m.receiver), Expr::Path(_)) {
            self.visit_expr(&m.receiver);
        }
        for a in &m.args {
            self.visit_expr(a);
        }
    }
    /// outer locals possibly written: assigned and not declared inside
    pub fn outer_assigned(&self) -> Vec<String> {
        self.assigned.iter().filter(|a| !self.declared.contains(a)).cloned().collect()
    }
}

impl Scan {
    /// `e` in statement position (its value is discarded, or it is the tail of a block in statement position)
    fn stmt_pos_expr(&mut self, e: &Expr) {
        match e {
            Expr::Paren(p) => self.stmt_pos_expr(&p.expr),
            Expr::MethodCall(m) => self.stmt_method_call(m),
            Expr::If(i) => {
                self.visit_expr(&i.cond);
                for s in &i.then_branch.stmts {
                    self.visit_stmt(s);
                }
                if let Some((_, eb)) = &i.else_branch {
                    self.stmt_pos_expr(eb);
                }
            }
            Expr::Block(b) if b.label.is_none() => {
                for s in &b.block.stmts {
                    self.visit_stmt(s);
                }
            }
            Expr::Match(m) => {
                self.visit_expr(&m.expr);
                for arm in &m.arms {
                    self.declare(&arm.pat);
                    if let Some((_, g)) = &arm.guard {
                        self.visit_expr(g);
                    }
                    self.stmt_pos_expr(&arm.body);
                }
            }
            e => self.visit_expr(e),
        }
    }
}

impl<'ast> Visit<'ast> for Scan {
    fn visit_stmt(&mut self, s: &'ast Stmt) {
        match s {
            Stmt::Local(l) => {
                self.declare(&l.pat);
                if let Some(init) = &l.init {
                    if init.diverge.is_some() {
                        self.exits = true;
                    }
                    if let (Some((place, _)), Some(n)) = (view_decl(&init.expr), pat_ident(&l.pat)) {
                        if let Some(r) = root_of(place) {
                            let r = self.views.get(&r).cloned().unwrap_or(r);
                            self.views.insert(n, r);
                            return;
                        }
                    }
                    if let Some((v, init_e, c)) = view_fold(&init.expr) {
                        if let Some(r) = self.views.get(&v).cloned() {
                            if !self.assigned.contains(&r) {
                                self.assigned.push(r);
                            }
                            self.visit_expr(init_e);
                            self.visit_expr(&Expr::Closure(c.clone()));
                            return;
                        }
                    }
                    if let (Expr::Closure(c), Some(n)) = (strip(&init.expr), pat_ident(&l.pat)) {
                        if is_mut_closure(c) {
                            self.mut_closures.push(n);
                        }
                    }
                    self.visit_expr(&init.expr);
                }
            }
            Stmt::Macro(_) => {}
            Stmt::Item(_) => {}
            // with a semicolon: a statement wherever it stands; without: a statement unless the block is used as a value
            Stmt::Expr(e, Some(_)) => {
                let old = self.in_value;
                self.in_value = false;
                self.stmt_pos_expr(e);
                self.in_value = old;
            }
            Stmt::Expr(e, None) => {
                if self.in_value {
                    self.visit_expr(e)
                } else {
                    self.stmt_pos_expr(e)
                }
            }
        }
    }
    /// `e` in value position
    fn visit_expr(&mut self, e: &'ast Expr) {
        let old = self.in_value;
        self.in_value = true;
        self.value_expr(e);
        self.in_value = old;
    }
}

impl Scan {
    fn value_expr(&mut self, e: &Expr) {
        match e {
            Expr::Assign(a) => {
                self.assign(&a.left);
                self.visit_expr(&a.right);
            }
            Expr::Binary(b) if compound(&b.op) => {
                self.assign(&b.left);
                self.visit_expr(&b.right);
            }
            Expr::Return(_) | Expr::Break(_) | Expr::Continue(_) | Expr::Try(_) | Expr::Yield(_) | Expr::Await(_) => self.exits = true,
            Expr::Reference(r) if r.mutability.is_some() => self.mut_borrow = true,
            Expr::Loop(_) | Expr::While(_) => {
                self.loops = true;
                self.exits = true;
            }
            Expr::ForLoop(f) => {
                let (place, mutable) = for_iterable(&f.expr);
                let mut inner = Scan { views: self.views.clone(), shared_args: self.shared_args.clone(), ..Default::default() };
                for s in &f.body.stmts {
                    inner.visit_stmt(s);
                }
                let mut vars = vec![];
                pat_names(&f.pat, &mut vars);
                if mutable && inner.assigned.iter().any(|a| vars.contains(a)) {
                    self.assign(place);
                }
                for a in &inner.assigned {
                    if !vars.contains(a) && !self.assigned.contains(a) {
                        self.assigned.push(a.clone());
                    }
                }
                self.declare(&f.pat);
                for d in inner.declared {
                    if !self.declared.contains(&d) {
                        self.declared.push(d);
                    }
                }
                self.exits |= inner.exits;
                self.mut_borrow |= inner.mut_borrow;
                self.loops |= inner.loops;
                self.indexes |= inner.indexes;
                for u in inner.whole_uses {
                    if !self.whole_uses.contains(&u) {
                        self.whole_uses.push(u);
                    }
                }
            }
            Expr::Closure(c) => {
                for p in &c.inputs {
                    self.declare(p);
                }
                self.visit_expr(&c.body);
            }
            Expr::Index(ix) if !matches!(&*ix.index, Expr::Range(_)) => {
                self.indexes = true;
                if !matches!(strip(&ix.expr), Expr::Path(_)) {
                    self.visit_expr(&ix.expr);
                }
                self.visit_expr(&ix.index);
            }
            Expr::Call(c) => {
                for a in &c.args {
                    match a {
                        Expr::Reference(r) if r.mutability.is_some() => self.assign(&r.expr),
                        Expr::Path(p) if p.path.get_ident().is_some() && matches!(&*c.func, Expr::Path(fp) if fp.path.get_ident().map(|i| self.shared_args.contains(&i.to_string())).unwrap_or(false)) => {}
                        a => self.visit_expr(a),
                    }
                }
            }
            Expr::Macro(_) => {}
            Expr::Path(p) => {
                if let Some(i) = p.path.get_ident() {
                    let n = i.to_string();
                    if !self.whole_uses.contains(&n) {
                        self.whole_uses.push(n);
                    }
                }
            }
            Expr::Field(f) => {
                if !matches!(strip(&f.base), Expr::Path(_)) {
                    self.visit_expr(&f.base);
                }
            }
            Expr::MethodCall(m) => {
                if !matches!(strip(&m.receiver), Expr::Path(_)) {
                    self.visit_expr(&m.receiver);
                }
                for a in &m.args {
                    self.visit_expr(a);
                }
            }
            _ => syn::visit::visit_expr(self, e),
        }
    }
}

/// the candidates that occur free in `l`, in order of first occurrence (atoms are scanned word by word; `Let` / `Fun` / `Match`
/// patterns bind every word they contain)
pub(crate) fn free_in(l: &L, bound: &mut Vec<String>, cands: &[String], out: &mut Vec<String>) {
    let text = |s: &str, bound: &Vec<String>, out: &mut Vec<String>| {
        for w in s.split(|c: char| !(c.is_alphanumeric() || c == '_' || c == '\'')) {
            if cands.iter().any(|c| c == w) && !bound.iter().any(|b| b == w) && !out.iter().any(|o| o == w) {
                out.push(w.to_string());
            }
        }
    };
    let words = |s: &str| -> Vec<String> { s.split(|c: char| !(c.is_alphanumeric() || c == '_' || c == '\'')).filter(|w| !w.is_empty()).map(|w| w.to_string()).collect() };
    match l {
        L::A(s) => text(s, bound, out),
        L::App(f, args) => {
            text(f, bound, out);
            for a in args {
                free_in(a, bound, cands, out);
            }
        }
        L::Let(p, v, b) => {
            free_in(v, bound, cands, out);
            let n = bound.len();
            bound.extend(words(p));
            free_in(b, bound, cands, out);
            bound.truncate(n);
        }
        L::If(c, a, b) => {
            free_in(c, bound, cands, out);
            free_in(a, bound, cands, out);
            free_in(b, bound, cands, out);
        }
        L::Match(sc, arms) => {
            for s in sc {
                free_in(s, bound, cands, out);
            }
            for (ps, body) in arms {
                let n = bound.len();
                for p in ps {
                    bound.extend(words(p));
                }
                free_in(body, bound, cands, out);
                bound.truncate(n);
            }
        }
        L::Fun(ps, b) => {
            let n = bound.len();
            for p in ps {
                // `(x : T)`: the type is not a binder, but binding its words is harmless only if no candidate is a type name
                let name = p.trim_start_matches('(').split(|c: char| c == ' ' || c == ':').next().unwrap_or("").to_string();
                if p.contains(':') {
                    text(&p[p.find(':').unwrap()..], bound, out);
                }
                bound.push(name);
            }
            free_in(b, bound, cands, out);
            bound.truncate(n);
        }
        L::With(b, _, v) => {
            free_in(b, bound, cands, out);
            free_in(v, bound, cands, out);
        }
        L::Tuple(v) => v.iter().for_each(|x| free_in(x, bound, cands, out)),
        L::Bin(_, a, b) => {
            free_in(a, bound, cands, out);
            free_in(b, bound, cands, out);
        }
        L::Not(a) => free_in(a, bound, cands, out),
        L::Field(b, _) => free_in(b, bound, cands, out),
    }
}

pub(crate) fn lets(binds: Vec<(String, L)>, mut body: L) -> L {
    for (p, v) in binds.into_iter().rev() {
        body = L::Let(p, Box::new(v), Box::new(body));
    }
    body
}

impl<'a> Ctx<'a> {
    // -------------------------------------------------------------------------------------------- helpers
    /// the translated free functions none of whose parameters is `&mut` (callable with a shared reborrow of a `&mut` variable)
    fn shared_fns(&self) -> Vec<String> {
        if !self.ext.shared_call_args {
            return vec![];
        }
        self.w.fns.iter().filter(|((head, _), sigs)| head.is_empty() && sigs.iter().all(|s| !s.mut_first && !s.mut_self && !s.prog)).map(|((_, n), _)| n.clone()).collect()
    }
    pub(crate) fn scan_block(&self, stmts: &[Stmt]) -> Scan {
        let mut s = Scan { views: self.ext.views.iter().filter_map(|(k, v)| root_of(&v.place).map(|r| (k.clone(), r))).collect(), shared_args: self.shared_fns(), ..Default::default() };
        for st in stmts {
            s.visit_stmt(st);
        }
        s
    }
    fn scan_expr(&self, e: &Expr) -> Scan {
        let mut s = Scan { views: self.ext.views.iter().filter_map(|(k, v)| root_of(&v.place).map(|r| (k.clone(), r))).collect(), shared_args: self.shared_fns(), ..Default::default() };
        s.stmt_pos_expr(e);
        s
    }

    /// translate `stmts` as an update of the local `var`: the Lean term is the value of `var` after the statements
    pub(crate) fn block_as_update(&mut self, stmts: &[Stmt], var: &str) -> R<L> {
        let saved = (self.ret, self.ret_ty.clone(), self.mut_param.clone(), self.ext.fueled, self.locals.clone());
        self.ret = RetMode::MutSelfUnit;
        self.ret_ty = Ty::Unit;
        self.mut_param = Some(var.to_string());
        self.ext.fueled = false;
        let r = self.seq(stmts, false, &[]);
        self.ret = saved.0;
        self.ret_ty = saved.1;
        self.mut_param = saved.2;
        self.ext.fueled = saved.3;
        self.locals = saved.4;
        r
    }

    /// a closure literal whose parameters may be tuple / reference patterns; pure body
    pub(crate) fn closure_pat(&mut self, e: &Expr, ptys: &[Ty], expect_ret: &Ty) -> R<(L, Ty)> {
        let c = match strip(e) {
            Expr::Closure(c) => c,
            _ => return Err("a closure literal is required here".into()),
        };
        if c.inputs.len() != ptys.len() {
            return Err("closure arity".into());
        }
        let saved = self.locals.clone();
        let r = (|| -> R<(L, Ty)> {
            let mut ps = vec![];
            let mut destructure: Vec<(String, String)> = vec![];
            for (p, t) in c.inputs.iter().zip(ptys) {
                let mut p = p;
                loop {
                    match p {
                        Pat::Type(pt) => p = &pt.pat,
                        Pat::Reference(r) => p = &r.pat,
                        Pat::Paren(x) => p = &x.pat,
                        _ => break,
                    }
                }
                match p {
                    Pat::Ident(i) if i.subpat.is_none() => {
                        let n = self.declare(&i.ident.to_string(), t.clone(), false);
                        if t.has_unknown() {
                            ps.push(n);
                        } else {
                            ps.push(format!("({n} : {})", self.w.lean_ty(t)));
                        }
                    }
                    Pat::Wild(_) => ps.push("_".into()),
                    Pat::Tuple(_) => {
                        let tmp = self.fresh_name("acc");
                        let alts = self.pat(p, t, false)?;
                        if alts.len() != 1 {
                            return Err("refutable closure parameter pattern".into());
                        }
                        ps.push(if t.has_unknown() { tmp.clone() } else { format!("({tmp} : {})", self.w.lean_ty(t)) });
                        destructure.push((tmp, alts[0].clone()));
                    }
                    _ => return Err("closure parameter pattern".into()),
                }
            }
            let (mut b, bt) = self.expr(&c.body, expect_ret)?;
            for (tmp, pat) in destructure.into_iter().rev() {
                b = L::Match(vec![L::A(tmp)], vec![(vec![pat], b)]);
            }
            Ok((L::Fun(ps, Box::new(b)), bt))
        })();
        self.locals = saved;
        r
    }

    fn view_of(&self, e: &Expr) -> Option<String> {
        path_ident(e).filter(|n| self.ext.views.contains_key(n))
    }

    fn view_check(&self, name: &str) -> R<View> {
        let v = self.ext.views.get(name).cloned().ok_or(format!("`{name}` is not a filtered view"))?;
        if v.stale {
            return Err(format!("the filtered view `{name}` is used after a loop over it wrote a field its filter reads ({}): membership at `collect()` and at this use may differ", v.reads.join(", ")));
        }
        Ok(v)
    }

    /// the filter of a view applied to the element bound to the Lean name `x`
    fn view_pred(&mut self, v: &View, x: &str) -> R<L> {
        if v.pred.inputs.len() != 1 {
            return Err("filter closure arity".into());
        }
        let pn = pat_ident(&v.pred.inputs[0]).ok_or("filter closure parameter pattern")?;
        let saved = self.locals.clone();
        self.locals.insert(pn, (x.to_string(), v.elem.clone()));
        let r = self.expr(&v.pred.body, &Ty::Bool);
        self.locals = saved;
        match r? {
            (l, Ty::Bool) => Ok(l),
            _ => Err("`filter` closure does not return bool".into()),
        }
    }

    /// `List.filter p PLACE` for a view
    fn view_list(&mut self, name: &str) -> R<(L, Ty)> {
        let v = self.view_check(name)?;
        let (pl, _) = self.expr(&v.place, &Ty::Unknown)?;
        let x = pat_ident(&v.pred.inputs[0]).map(|n| ident(&n)).ok_or("filter closure parameter pattern")?;
        let p = self.view_pred(&v, &x)?;
        Ok((L::app("List.filter", vec![L::Fun(vec![format!("({x} : {})", self.w.lean_ty(&v.elem))], Box::new(p)), pl]), Ty::List(Box::new(v.elem.clone()))))
    }

    /// first-level fields of `var` that `stmts` may write
    fn written_fields(stmts: &[Stmt], var: &str) -> Vec<String> {
        struct W<'v> {
            var: &'v str,
            out: Vec<String>,
        }
        fn first_field(e: &Expr, var: &str) -> Option<String> {
            match strip(e) {
                Expr::Field(f) => match strip(&f.base) {
                    Expr::Path(p) if p.path.is_ident(var) => match &f.member {
                        syn::Member::Named(n) => Some(n.to_string()),
                        _ => None,
                    },
                    b => first_field(b, var),
                },
                Expr::Index(i) => first_field(&i.expr, var),
                Expr::MethodCall(m) => first_field(&m.receiver, var),
                _ => None,
            }
        }
        impl<'ast, 'v> Visit<'ast> for W<'v> {
            fn visit_expr(&mut self, e: &'ast Expr) {
                match e {
                    Expr::Assign(a) => {
                        match first_field(&a.left, self.var) {
                            Some(f) => self.out.push(f),
                            None if root_of(&a.left).as_deref() == Some(self.var) => self.out.push("*".into()),
                            None => {}
                        }
                        self.visit_expr(&a.right);
                    }
                    Expr::Binary(b) if compound(&b.op) => {
                        match first_field(&b.left, self.var) {
                            Some(f) => self.out.push(f),
                            None if root_of(&b.left).as_deref() == Some(self.var) => self.out.push("*".into()),
                            None => {}
                        }
                        self.visit_expr(&b.right);
                    }
                    _ => syn::visit::visit_expr(self, e),
                }
            }
            fn visit_stmt(&mut self, s: &'ast Stmt) {
                if let Stmt::Expr(Expr::MethodCall(m), _) = s {
                    match first_field(&m.receiver, self.var) {
                        Some(f) => self.out.push(f),
                        None if root_of(&m.receiver).as_deref() == Some(self.var) => self.out.push("*".into()),
                        None => {}
                    }
                }
                syn::visit::visit_stmt(self, s)
            }
        }
        let mut w = W { var, out: vec![] };
        for s in stmts {
            w.visit_stmt(s);
        }
        w.out
    }

    /// after a loop over the view `name` whose body is `stmts` (loop variable `var`): the view is stale if a field its filter reads was written
    fn view_after_write(&mut self, name: &str, stmts: &[Stmt], var: &str) {
        let written = Self::written_fields(stmts, var);
        if let Some(v) = self.ext.views.get_mut(name) {
            if written.iter().any(|f| f == "*" || v.reads.contains(f)) {
                v.stale = true;
            }
        }
    }

    fn list_elem(&mut self, place: &Expr) -> R<(L, Ty)> {
        let (pl, pt) = self.expr(place, &Ty::Unknown)?;
        match pt {
            Ty::List(t) if !t.has_unknown() => Ok((pl, *t)),
            t => Err(format!("`{}` is not a list of a known element type ({:?})", quote::quote!(#place), t)),
        }
    }

    // -------------------------------------------------------------------------------------------- expressions
    /// pre-dispatch of `Ctx::method_call`: the list / iterator methods of this fragment
    pub(crate) fn ext_method(&mut self, m: &syn::ExprMethodCall, expect: &Ty) -> R<Option<(L, Ty)>> {
        if !self.ext.enabled {
            return Ok(None);
        }
        if let Some(r) = self.ext2_method(m, expect)? {
            return Ok(Some(r));
        }
        let name = m.method.to_string();
        let args: Vec<&Expr> = m.args.iter().collect();
        if let Some(v) = self.view_of(&m.receiver) {
            return match (name.as_str(), args.len()) {
                ("iter", 0) => self.view_list(&v).map(Some),
                ("len", 0) => {
                    let (l, _) = self.view_list(&v)?;
                    Ok(Some((L::app("List.length", vec![l]), Ty::Nat)))
                }
                _ => Err(format!("`{}`: a filtered view can only be read through `.iter()`, folded through `.iter_mut().fold(..)` in a `let`, or looped over", quote::quote!(#m))),
            };
        }
        let known = ["iter_mut", "len", "is_empty", "map", "filter", "all", "sum", "fold", "is_normal", "into"];
        if !known.contains(&name.as_str()) {
            return Ok(None);
        }
        let (recv, rt) = self.expr(&m.receiver, &Ty::Unknown)?;
        let turbofish_f32 = |m: &syn::ExprMethodCall| -> R<()> {
            match &m.turbofish {
                None => Ok(()),
                Some(t) if crate::emit::norm(&t.args) == "f32" => Ok(()),
                Some(t) => Err(format!("`sum::<{}>` (only f32 sums are in the fragment)", crate::emit::norm(&t.args))),
            }
        };
        match (&rt, name.as_str(), args.len()) {
            (Ty::List(_), "iter_mut", 0) => Ok(Some((recv, rt.clone()))),
            (Ty::List(_), "len", 0) => Ok(Some((L::app("List.length", vec![recv]), Ty::Nat))),
            (Ty::List(_), "is_empty", 0) => Ok(Some((L::app("List.isEmpty", vec![recv]), Ty::Bool))),
            (Ty::List(t), "map", 1) => {
                let (f, ft) = self.closure_pat(args[0], &[(**t).clone()], &Ty::Unknown)?;
                Ok(Some((L::app("List.map", vec![f, recv]), Ty::List(Box::new(ft)))))
            }
            (Ty::List(t), "filter", 1) => {
                let (f, ft) = self.closure_pat(args[0], &[(**t).clone()], &Ty::Bool)?;
                if ft != Ty::Bool {
                    return Err("`filter` closure does not return bool".into());
                }
                Ok(Some((L::app("List.filter", vec![f, recv]), rt.clone())))
            }
            (Ty::List(t), "all", 1) => {
                let (f, ft) = self.closure_pat(args[0], &[(**t).clone()], &Ty::Bool)?;
                if ft != Ty::Bool {
                    return Err("`all` closure does not return bool".into());
                }
                Ok(Some((L::app("List.all", vec![recv, f]), Ty::Bool)))
            }
            (Ty::List(t), "sum", 0) => {
                turbofish_f32(m)?;
                if **t != Ty::F32 || !(matches!(expect, Ty::F32 | Ty::Unknown)) {
                    return Err(format!("`sum` over a list of {:?} (only f32 sums are in the fragment)", t));
                }
                Ok(Some((L::app(&format!("{}.sum_f32", self.ext.ns), vec![recv]), Ty::F32)))
            }
            (Ty::List(t), "fold", 2) => {
                let (init, it) = self.expr(args[0], expect)?;
                if it.has_unknown() {
                    return Err("`fold`: the type of the initial value is not determined".into());
                }
                let (f, ft) = self.closure_pat(args[1], &[it.clone(), (**t).clone()], &it)?;
                if !it.compatible(&ft) {
                    return Err(format!("`fold` closure returns {:?}, the accumulator has type {:?}", ft, it));
                }
                Ok(Some((L::app("List.foldl", vec![f, init, recv]), it)))
            }
            (Ty::F32, "is_normal", 0) => {
                self.ext.uses_numx = true;
                Ok(Some((L::app("FlexLine.NumX.isNormal", vec![recv]), Ty::Bool)))
            }
            // `impl From<T> for Option<T>`
            (Ty::F32, "into", 0) if matches!(expect, Ty::Opt(t) if **t == Ty::F32) => Ok(Some((L::app("some", vec![recv]), Ty::opt(Ty::F32)))),
            _ => Ok(None),
        }
    }

    // -------------------------------------------------------------------------------------------- `let`
    /// `let`s of this fragment that are not value bindings: a view declaration, the mutating fold over a view, an argument-updating closure
    pub(crate) fn ext_local(&mut self, l: &syn::Local, rest: &[Stmt], value_tail: bool, conts: &[Frame]) -> R<Option<L>> {
        if !self.ext.enabled {
            return Ok(None);
        }
        if let Some(r) = self.ext2_local(l, rest, value_tail, conts)? {
            return Ok(Some(r));
        }
        let init = match &l.init {
            Some(i) if i.diverge.is_none() => &i.expr,
            _ => return Ok(None),
        };
        let name = match pat_ident(&l.pat) {
            Some(n) => n,
            None => return Ok(None),
        };
        if let Some((place, pred)) = view_decl(init) {
            let (_, elem) = self.list_elem(place)?;
            if root_of(place).map(|r| self.locals.contains_key(&r)) != Some(true) {
                return Err(format!("view over `{}`, which is not rooted at a local", quote::quote!(#place)));
            }
            let pn = pred.inputs.first().and_then(pat_ident).ok_or("filter closure parameter pattern")?;
            // fields of the element the filter reads
            struct Rd<'v> {
                var: &'v str,
                out: Vec<String>,
                whole: bool,
            }
            impl<'ast, 'v> Visit<'ast> for Rd<'v> {
                fn visit_expr(&mut self, e: &'ast Expr) {
                    match e {
                        Expr::Field(f) if matches!(strip(&f.base), Expr::Path(p) if p.path.is_ident(self.var)) => {
                            if let syn::Member::Named(n) = &f.member {
                                self.out.push(n.to_string());
                            }
                        }
                        Expr::Path(p) if p.path.is_ident(self.var) => self.whole = true,
                        _ => syn::visit::visit_expr(self, e),
                    }
                }
            }
            let mut rd = Rd { var: &pn, out: vec![], whole: false };
            rd.visit_expr(&pred.body);
            if rd.whole {
                return Err("the filter of a view uses its element other than through a field".into());
            }
            // the filter is evaluated at `collect()` in Rust and at every use of the view here: it must not depend on anything
            // that can change in between, so it may mention no local but its own parameter
            {
                struct Caps<'c, 'a> {
                    cx: &'c Ctx<'a>,
                    pn: &'c str,
                    hit: Option<String>,
                }
                impl<'ast, 'c, 'a> Visit<'ast> for Caps<'c, 'a> {
                    fn visit_expr_path(&mut self, p: &'ast syn::ExprPath) {
                        if let Some(i) = p.path.get_ident() {
                            let n = i.to_string();
                            if n != self.pn && self.cx.locals.contains_key(&n) {
                                self.hit = Some(n);
                            }
                        }
                    }
                }
                let mut caps = Caps { cx: self, pn: &pn, hit: None };
                caps.visit_expr(&pred.body);
                if let Some(c) = caps.hit {
                    return Err(format!("the filter of a view captures the local `{c}`"));
                }
            }
            let view = View { place: place.clone(), pred: pred.clone(), elem, reads: rd.out, stale: false };
            // the predicate must translate (and be pure) now
            self.view_pred(&view, "x")?;
            self.locals.remove(&name);
            self.ext.views.insert(name.clone(), view);
            let r = self.seq(rest, value_tail, conts);
            return r.map(Some);
        }
        if let Some((vn, init_e, c)) = view_fold(init) {
            if self.ext.views.contains_key(&vn) {
                let v = self.view_check(&vn)?;
                let (init_l, acc_t) = self.expr(init_e, &Ty::Unknown)?;
                if acc_t.has_unknown() {
                    return Err("`fold`: the type of the initial value is not determined".into());
                }
                if c.inputs.len() != 2 {
                    return Err("`fold` closure arity".into());
                }
                let (an, xn) = match (pat_ident(&c.inputs[0]), pat_ident(&c.inputs[1])) {
                    (Some(a), Some(x)) => (a, x),
                    _ => return Err("`iter_mut().fold` closure parameter pattern".into()),
                };
                let stmts: Vec<Stmt> = match &*c.body {
                    Expr::Block(b) => b.block.stmts.clone(),
                    e => vec![Stmt::Expr(e.clone(), None)],
                };
                let sc = self.scan_block(&stmts);
                if sc.exits || sc.mut_borrow {
                    return Err("`iter_mut().fold` closure body leaves the fragment (exit or `&mut` borrow)".into());
                }
                if let Some(o) = sc.outer_assigned().into_iter().find(|a| *a != xn) {
                    return Err(format!("`iter_mut().fold` closure assigns to the captured `{o}`"));
                }
                if sc.whole_uses.contains(&xn) {
                    return Err(format!("the `&mut` element `{xn}` is used as a whole value (it could be aliased); only its fields may be read and written"));
                }
                // body: the element is updated in place, the value is the new accumulator
                let saved = (self.ret, self.ret_ty.clone(), self.mut_param.clone(), self.ext.fueled, self.locals.clone());
                let a_l = self.declare(&an, acc_t.clone(), false);
                let x_l = self.declare(&xn, v.elem.clone(), false);
                self.ret = RetMode::MutSelfVal;
                self.ret_ty = acc_t.clone();
                self.mut_param = Some(xn.clone());
                self.ext.fueled = false;
                let body = self.seq(&stmts, true, &[]);
                self.ret = saved.0;
                self.ret_ty = saved.1;
                self.mut_param = saved.2;
                self.ext.fueled = saved.3;
                self.locals = saved.4;
                let body = body?;
                let x_b = format!("({x_l} : {})", self.w.lean_ty(&v.elem));
                let pred = self.view_pred(&v, &x_l)?;
                let (pl, _) = self.expr(&v.place, &Ty::Unknown)?;
                let f = L::Fun(vec![format!("({a_l} : {})", self.w.lean_ty(&acc_t)), x_b.clone()], Box::new(body));
                let call = L::app(&format!("{}.fold_mut_where", self.ext.ns), vec![L::Fun(vec![x_b], Box::new(pred)), f, init_l, pl]);
                let tmp = self.fresh_name("r");
                let (pn, pv) = self.assign_into(&v.place, L::Field(Box::new(L::A(tmp.clone())), "1".into()))?;
                self.view_after_write(&vn, &stmts, &xn);
                let nested = !conts.is_empty();
                let n = self.declare(&name, acc_t, nested);
                let b = self.seq(rest, value_tail, conts)?;
                return Ok(Some(lets(vec![(tmp.clone(), call), (pn, pv), (n, L::Field(Box::new(L::A(tmp)), "2".into()))], b)));
            }
        }
        if let Expr::Closure(c) = strip(init) {
            if is_mut_closure(c) {
                // `let f = |(i, x): (usize, &mut T)| { body };`  ⇒  `let f := fun (i : Nat) (x : T) => body; x` — translated HERE, so that
                // what the closure captures is what is in scope at its definition, as in Rust
                if c.inputs.len() != 1 {
                    return Err("argument-updating closure: arity".into());
                }
                let (tp, tt) = match &c.inputs[0] {
                    Pat::Type(pt) => match (&*pt.pat, &*pt.ty) {
                        (Pat::Tuple(p), syn::Type::Tuple(t)) if p.elems.len() == 2 && t.elems.len() == 2 => (p, t),
                        _ => return Err("argument-updating closure: the parameter is not `(i, x): (usize, &mut T)`".into()),
                    },
                    _ => return Err("argument-updating closure: the parameter is not `(i, x): (usize, &mut T)`".into()),
                };
                let (iname, xname) = match (pat_ident(&tp.elems[0]), pat_ident(&tp.elems[1])) {
                    (Some(a), Some(b)) => (a, b),
                    _ => return Err("argument-updating closure: parameter pattern".into()),
                };
                if self.rust_ty(&tt.elems[0])? != Ty::Nat || !matches!(&tt.elems[1], syn::Type::Reference(r) if r.mutability.is_some()) {
                    return Err("argument-updating closure: the parameter is not `(i, x): (usize, &mut T)`".into());
                }
                let elem = self.rust_ty(&tt.elems[1])?;
                if elem.has_unknown() {
                    return Err("argument-updating closure: element type not determined".into());
                }
                let stmts: Vec<Stmt> = match &*c.body {
                    Expr::Block(b) => b.block.stmts.clone(),
                    e => vec![Stmt::Expr(e.clone(), None)],
                };
                let sc = self.scan_block(&stmts);
                if sc.exits || sc.mut_borrow {
                    return Err("argument-updating closure: its body leaves the fragment (exit or `&mut` borrow)".into());
                }
                if let Some(o) = sc.outer_assigned().into_iter().find(|a| *a != xname) {
                    return Err(format!("argument-updating closure assigns to the captured `{o}`"));
                }
                if sc.whole_uses.contains(&xname) {
                    return Err(format!("the `&mut` element `{xname}` is used as a whole value (it could be aliased); only its fields may be read and written"));
                }
                let saved = self.locals.clone();
                let il = self.declare(&iname, Ty::Nat, false);
                let xl = self.declare(&xname, elem.clone(), false);
                let body = self.block_as_update(&stmts, &xname);
                self.locals = saved;
                let body = body?;
                let f = L::Fun(vec![format!("({il} : Nat)"), format!("({xl} : {})", self.w.lean_ty(&elem))], Box::new(body));
                let nested = !conts.is_empty();
                let n = self.declare(&name, Ty::Fn(vec![Ty::Nat, elem.clone()], Box::new(elem.clone())), nested);
                self.ext.mut_closures.insert(name, c.clone());
                let b = self.seq(rest, value_tail, conts)?;
                return Ok(Some(L::Let(n, Box::new(f), Box::new(b))));
            }
        }
        Ok(None)
    }

    // -------------------------------------------------------------------------------------------- statements
    /// the statement forms of this fragment; `None`: not one of them (stmt.rs continues)
    pub(crate) fn ext_stmt(&mut self, e: &Expr, conts: &[Frame]) -> R<Option<L>> {
        if !self.ext.enabled {
            return Ok(None);
        }
        if let Some(l) = self.ext2_stmt(e, conts)? {
            return Ok(Some(l));
        }
        match e {
            Expr::ForLoop(f) => self.for_loop(f, conts).map(Some),
            Expr::Loop(l) => self.fuel_loop(l, conts).map(Some),
            Expr::While(_) => Err("`while` loop (only `loop { if c { break; } … }` is in the fragment)".into()),
            Expr::MethodCall(m) => self.method_stmt(m, conts).map(Some),
            Expr::If(i) if !matches!(&*i.cond, Expr::Let(_)) => self.if_join(i, conts),
            _ => Ok(None),
        }
    }

    /// `if c { A } else { B }` as an update of the one local both branches may write
    fn if_join(&mut self, i: &syn::ExprIf, conts: &[Frame]) -> R<Option<L>> {
        let sc = self.scan_expr(&Expr::If(i.clone()));
        if sc.exits || sc.loops || (sc.indexes && self.ext.opt_index) {
            return Ok(None);
        }
        if sc.mut_borrow {
            return Err("`&mut` borrow inside an `if` statement".into());
        }
        let outer = sc.outer_assigned();
        if outer.len() != 1 {
            return Ok(None);
        }
        let var = outer[0].clone();
        if sc.declared.contains(&var) || !self.locals.contains_key(&var) {
            return Ok(None);
        }
        let v = self.if_update(i, &var)?;
        // views: a loop over a view inside a branch may have made it stale (handled where the loop is translated)
        let (lean, _) = self.locals.get(&var).cloned().unwrap();
        let b = self.cont(conts)?;
        Ok(Some(L::Let(lean, Box::new(v), Box::new(b))))
    }

    fn if_update(&mut self, i: &syn::ExprIf, var: &str) -> R<L> {
        let (c, ct) = self.expr(&i.cond, &Ty::Bool)?;
        if ct != Ty::Bool {
            return Err("`if` condition is not a bool".into());
        }
        let a = self.block_as_update(&i.then_branch.stmts, var)?;
        let b = match &i.else_branch {
            None => L::A(self.locals.get(var).map(|x| x.0.clone()).ok_or("internal: join variable")?),
            Some((_, eb)) => match &**eb {
                Expr::Block(b) => self.block_as_update(&b.block.stmts, var)?,
                Expr::If(i2) if !matches!(&*i2.cond, Expr::Let(_)) => self.if_update(i2, var)?,
                _ => return Err("unsupported `else` branch".into()),
            },
        };
        Ok(L::If(Box::new(c), Box::new(a), Box::new(b)))
    }

    /// `recv.m(args);` for a translated `&mut self` method returning `()`; `PLACE.iter_mut()[.rev()].enumerate().for_each(f);`
    pub(crate) fn method_stmt(&mut self, m: &syn::ExprMethodCall, conts: &[Frame]) -> R<L> {
        let whole = Expr::MethodCall(m.clone());
        if let Some((place, rev, fname)) = for_each_stmt(&whole) {
            if !self.ext.mut_closures.contains_key(&fname) {
                return Err(format!("`for_each({fname})`: `{fname}` is not a local closure that updates its argument"));
            }
            let (pl, elem) = self.list_elem(place)?;
            let f = match self.locals.get(&fname).cloned() {
                Some((lean, Ty::Fn(ps, r))) if ps.len() == 2 && ps[0] == Ty::Nat && ps[1] == elem && *r == elem => L::A(lean),
                _ => return Err(format!("`for_each({fname})`: the closure does not take `(usize, &mut T)` for the element type of the list")),
            };
            let v = if rev { L::app("List.reverse", vec![L::app("List.mapIdx", vec![f, L::app("List.reverse", vec![pl])])]) } else { L::app("List.mapIdx", vec![f, pl]) };
            let (n, v) = self.assign_into(place, v)?;
            let b = self.cont(conts)?;
            return Ok(L::Let(n, Box::new(v), Box::new(b)));
        }
        let name = m.method.to_string();
        let args: Vec<&Expr> = m.args.iter().collect();
        let (recv, rt) = self.expr(&m.receiver, &Ty::Unknown)?;
        let sigs = self.w.fns.get(&(rt.head(), name.clone())).cloned().unwrap_or_default();
        for sig in sigs {
            let st = match &sig.self_ty {
                Some(st) if sig.mut_self && !sig.prog && sig.dropped == 0 => st.clone(),
                _ => continue,
            };
            let mut sub = HashMap::new();
            if !st.unify(&rt, &mut sub) || sig.params.len() != args.len() || !sig.ret.subst_vars(&sub).compatible(&rt) || matches!(sig.ret, Ty::Tuple(_)) {
                continue;
            }
            let mut ls = vec![recv];
            for (a, (_, pt)) in args.iter().zip(&sig.params) {
                if matches!(pt, Ty::Fn(..)) {
                    return Err(format!("method statement `{name}` with a function argument"));
                }
                let (l, t) = self.expr(a, &pt.subst_vars(&sub).vars_to_unknown())?;
                if !pt.unify(&t, &mut sub) {
                    return Err(format!("argument of type {:?} where `{name}` expects {:?}", t, pt));
                }
                ls.push(l);
            }
            let (n, v) = self.assign_into(&m.receiver, L::App(sig.lean.clone(), ls))?;
            let b = self.cont(conts)?;
            return Ok(L::Let(n, Box::new(v), Box::new(b)));
        }
        Err(format!("method-call statement `{}`: `{name}` is not a translated `&mut self` method returning `()` of {:?}", quote::quote!(#m), rt))
    }

    /// `for x in …` as `List.map` (the body updates `x`) or `List.foldl` (the body updates one outer local)
    pub(crate) fn for_loop(&mut self, f: &syn::ExprForLoop, conts: &[Frame]) -> R<L> {
        let var = pat_ident(&f.pat).ok_or("`for` pattern")?;
        let (place, mutable) = for_iterable(&f.expr);
        let stmts = &f.body.stmts;
        let sc = self.scan_block(stmts);
        if sc.exits {
            return Err("`for` body with `return` / `break` / `continue` / `?` / a nested loop".into());
        }
        if sc.mut_borrow {
            return Err("`&mut` borrow inside a `for` body".into());
        }
        if mutable && sc.whole_uses.contains(&var) {
            return Err(format!("the `&mut` loop variable `{var}` is used as a whole value (it could be aliased); only its fields may be read and written"));
        }
        let outer = sc.outer_assigned();
        for o in &sc.assigned {
            if sc.declared.contains(o) && self.locals.contains_key(o) && *o != var {
                return Err(format!("`for` body assigns to `{o}` and also declares a local of that name"));
            }
        }
        let writes_var = sc.assigned.contains(&var);
        let accs: Vec<String> = outer.into_iter().filter(|o| *o != var).collect();
        let view = self.view_of(place);
        let (pl, elem, vinfo) = match &view {
            Some(vn) => {
                let v = self.view_check(vn)?;
                let (pl, _) = self.expr(&v.place, &Ty::Unknown)?;
                (pl, v.elem.clone(), Some(v))
            }
            None => {
                let (pl, elem) = self.list_elem(place)?;
                (pl, elem, None)
            }
        };
        let target: Expr = match &vinfo {
            Some(v) => v.place.clone(),
            None => place.clone(),
        };
        let x_ty = self.w.lean_ty(&elem);
        if accs.is_empty() {
            // map
            if writes_var && !mutable {
                return Err("`for` over `.iter()` whose body writes the loop variable".into());
            }
            if root_of(&target).map(|r| self.locals.contains_key(&r)) != Some(true) {
                return Err(format!("`for` over `{}`, which is not rooted at a local", quote::quote!(#target)));
            }
            let saved = self.locals.clone();
            let xl = self.declare(&var, elem.clone(), false);
            let body = self.block_as_update(stmts, &var);
            let guard = match &vinfo {
                Some(v) => Some(self.view_pred(v, &xl)),
                None => None,
            };
            self.locals = saved;
            let mut body = body?;
            if let Some(g) = guard {
                body = L::If(Box::new(g?), Box::new(body), Box::new(L::A(xl.clone())));
            }
            let v = L::app("List.map", vec![L::Fun(vec![format!("({xl} : {x_ty})")], Box::new(body)), pl]);
            let (n, v) = self.assign_into(&target, v)?;
            if let Some(vn) = &view {
                self.view_after_write(vn, stmts, &var);
            }
            let b = self.cont(conts)?;
            return Ok(L::Let(n, Box::new(v), Box::new(b)));
        }
        if accs.len() == 1 && !writes_var {
            // fold
            let acc = accs[0].clone();
            let (al, at) = self.locals.get(&acc).cloned().ok_or(format!("`for` body assigns to the non-local `{acc}`"))?;
            if at.has_unknown() {
                return Err(format!("type of the accumulator `{acc}` is not determined"));
            }
            let list = match &vinfo {
                Some(_) => self.view_list(view.as_ref().unwrap())?.0,
                None => pl,
            };
            let saved = self.locals.clone();
            let xl = self.declare(&var, elem.clone(), false);
            let body = self.block_as_update(stmts, &acc);
            self.locals = saved;
            let body = body?;
            let v = L::app("List.foldl", vec![L::Fun(vec![format!("({al} : {})", self.w.lean_ty(&at)), format!("({xl} : {x_ty})")], Box::new(body)), L::A(al.clone()), list]);
            let b = self.cont(conts)?;
            return Ok(L::Let(al, Box::new(v), Box::new(b)));
        }
        Err(format!("`for` body writes {} (only a body that updates the loop variable, or one outer local, is in the fragment)", if writes_var { format!("the loop variable and {:?}", accs) } else { format!("{:?}", accs) }))
    }

    /// `loop { if c { break; } body }` under fuel
    fn fuel_loop(&mut self, l: &syn::ExprLoop, conts: &[Frame]) -> R<L> {
        if l.label.is_some() {
            return Err("labelled `loop`".into());
        }
        if !self.ext.fueled {
            return Err("`loop` that is not at the top level of a function with a `&mut` first parameter".into());
        }
        let state = self.mut_param.clone().ok_or("`loop` in a function without a `&mut` first parameter")?;
        let (first, rest) = l.body.stmts.split_first().ok_or("empty `loop`")?;
        let cond = match first {
            Stmt::Expr(Expr::If(i), _) if i.else_branch.is_none() && !matches!(&*i.cond, Expr::Let(_)) => match i.then_branch.stmts.as_slice() {
                [Stmt::Expr(Expr::Break(b), _)] if b.label.is_none() && b.expr.is_none() => &*i.cond,
                _ => return Err("`loop` whose first statement is not `if c { break; }`".into()),
            },
            _ => return Err("`loop` whose first statement is not `if c { break; }`".into()),
        };
        let sc = self.scan_block(rest);
        if sc.exits {
            return Err("`loop` body with `return` / `break` / `continue` / `?` / a nested loop after its first statement".into());
        }
        if sc.mut_borrow {
            return Err("`&mut` borrow inside a `loop` body".into());
        }
        if let Some(o) = sc.outer_assigned().into_iter().find(|a| *a != state) {
            return Err(format!("`loop` body assigns to the outer local `{o}` (only the `&mut` parameter `{state}` may be written)"));
        }
        if self.locals.contains_key("fuel") {
            return Err("a local named `fuel`".into());
        }
        let (st_lean, st_ty) = self.locals.get(&state).cloned().ok_or("internal: loop state")?;
        let (c, ct) = self.expr(cond, &Ty::Bool)?;
        if ct != Ty::Bool {
            return Err("`if` condition is not a bool".into());
        }
        let views_before = self.ext.views.clone();
        let body = self.block_as_update(rest, &state)?;
        // views declared inside the loop body do not outlive an iteration
        self.ext.views = views_before;
        // captured locals, in order of first occurrence
        let cands: Vec<String> = self.locals.iter().filter(|(k, _)| **k != state).map(|(_, v)| v.0.clone()).collect();
        let mut caps_body = vec![];
        free_in(&body, &mut vec![st_lean.clone()], &cands, &mut caps_body);
        let mut caps = caps_body.clone();
        free_in(&c, &mut vec![st_lean.clone()], &cands, &mut caps);
        let ty_of = |me: &Self, lean: &str| -> R<String> {
            let t = me.locals.values().find(|v| v.0 == lean).map(|v| v.1.clone()).ok_or("internal: captured local")?;
            if t.has_unknown() {
                return Err(format!("type of the captured local `{lean}` is not determined"));
            }
            Ok(crate::emit::strip_parens(&me.w.lean_ty(&t)))
        };
        let mut b_body = String::new();
        for n in &caps_body {
            b_body.push_str(&format!(" ({n} : {})", ty_of(self, n)?));
        }
        let mut b_loop = String::new();
        for n in &caps {
            b_loop.push_str(&format!(" ({n} : {})", ty_of(self, n)?));
        }
        self.ext.n_loops += 1;
        let suffix = if self.ext.n_loops == 1 { String::new() } else { format!("_{}", self.ext.n_loops) };
        let f = self.ext.fn_name.clone();
        let st_t = crate::emit::strip_parens(&self.w.lean_ty(&st_ty));
        let body_name = format!("{f}.loop_body{suffix}");
        let loop_name = format!("{f}.loop{suffix}");
        let args_body: String = caps_body.iter().map(|n| format!(" {n}")).collect();
        let args_loop: String = caps.iter().map(|n| format!(" {n}")).collect();
        self.ext.aux.push(format!(
            "/-- one pass through the body of the `loop` of `{f}`, after its `break` test, as a function of `{state}` -/\ndef {body_name} {{α : Type}} [Num α]{NUMX_MARK}{b_body} ({st_lean} : {st_t}) : {st_t} :=\n  {}\n\n",
            body.render(2, true)
        ));
        self.ext.aux.push(format!(
            "/-- the `loop {{ if c {{ break; }} … }}` of `{f}` under an iteration bound: `none` = the `break` was not reached within `fuel` iterations -/\ndef {loop_name} {{α : Type}} [Num α]{NUMX_MARK}{b_loop} : Nat → {st_t} → Option ({st_t})\n  | fuel, {st_lean} =>\n    if {} then some {st_lean}\n    else match fuel with\n      | 0 => none\n      | fuel + 1 => {loop_name}{args_loop} fuel ({body_name}{args_body} {st_lean})\n\n",
            c.render(7, true)
        ));
        let ns = self.ext.ns.clone();
        let call = L::App(format!("{ns}.{loop_name}"), caps.iter().map(|n| L::A(n.clone())).chain([L::a("fuel"), L::A(st_lean.clone())]).collect());
        let k = self.cont(conts)?;
        if k.render(0, true) == format!("(some {st_lean})") {
            return Ok(call);
        }
        Ok(L::app("Option.bind", vec![call, L::Fun(vec![st_lean], Box::new(k))]))
    }

    /// `match s { v if g1 => A, w if g2 => B, _ => C }` (every pattern an identifier or `_`): `let v := s; if g1 then A else …`
    pub(crate) fn ext_guard_chain(&mut self, m: &syn::ExprMatch, expect: &Ty, conts: &Option<(&[Frame], bool)>) -> R<Option<(L, Ty)>> {
        if !self.ext.enabled || m.arms.is_empty() {
            return Ok(None);
        }
        let irrefutable = |p: &Pat| match p {
            Pat::Wild(_) => true,
            Pat::Ident(i) => i.subpat.is_none() && i.by_ref.is_none() && self.variant_lookup(None, &i.ident.to_string()).is_none() && i.ident != "None",
            _ => false,
        };
        if !m.arms.iter().all(|a| irrefutable(&a.pat)) {
            return Ok(None);
        }
        let last = m.arms.last().unwrap();
        if last.guard.is_some() || m.arms[..m.arms.len() - 1].iter().any(|a| a.guard.is_none()) {
            return Err("`match` over irrefutable patterns: every arm but the last must be guarded, the last must not".into());
        }
        let (s, st) = self.expr(&m.expr, &Ty::Unknown)?;
        let mut result_ty = expect.clone();
        let mut out: Option<L> = None;
        for arm in m.arms.iter().rev() {
            let saved = self.locals.clone();
            let bind = match &arm.pat {
                Pat::Ident(i) => Some(self.declare(&i.ident.to_string(), st.clone(), true)),
                _ => None,
            };
            let guard = match &arm.guard {
                Some((_, g)) => {
                    let (gl, gt) = self.expr(g, &Ty::Bool)?;
                    if gt != Ty::Bool {
                        return Err("guard is not a bool".into());
                    }
                    Some(gl)
                }
                None => None,
            };
            let body = match conts {
                None => {
                    let (b, bt) = self.expr(&arm.body, &result_ty)?;
                    if !result_ty.compatible(&bt) {
                        return Err(format!("match arms have different types {:?} / {:?}", result_ty, bt));
                    }
                    result_ty = result_ty.join(&bt);
                    b
                }
                Some((frames, value_tail)) => {
                    if *value_tail {
                        self.tail_value(&arm.body)?
                    } else {
                        self.stmt_expr(&arm.body, frames)?
                    }
                }
            };
            self.locals = saved;
            let t = match (guard, out.take()) {
                (Some(g), Some(rest)) => L::If(Box::new(g), Box::new(body), Box::new(rest)),
                (None, None) => body,
                _ => return Err("internal: guard chain".into()),
            };
            out = Some(match bind {
                Some(n) => L::Let(n, Box::new(s.clone()), Box::new(t)),
                None => t,
            });
        }
        Ok(Some((out.unwrap(), result_ty)))
    }
}
