//! src/compute/flexbox.rs, the pure line / cross-axis functions  →  Generated/Flex.lean
//!
//! `align_flex_items_along_cross_axis`, `calculate_cross_size`, `handle_align_content_stretch`, `resolve_cross_axis_auto_margins`,
//! `determine_container_cross_size`, `align_flex_lines_per_align_content`, `collect_flex_lines`, translated against the records of
//! Model/Flex.lean (registered and compared with the `struct`s of the source by flexline.rs, which runs first).
//! Statement fragment: loops.rs, plus the rules of flexwhile.rs (this task):
//!   * `PLACE[0].f = e;` / `PLACE[0]` as a value: the function returns `Option` (`none` = index out of bounds, Rust panics);
//!   * `PLACE.iter_mut().for_each(|x| body)` = `for x in PLACE.iter_mut() { body }`;
//!   * a `&T` argument of a translated pure function may be the `&mut` loop variable (a shared reborrow for the call);
//!   * a `&mut` parameter in any position, returned beside the function's value;
//!   * `while c { body }` over the outer locals the body assigns, under fuel; `split_at_mut`; `Vec::push`; `enumerate().find(..)` whose
//!     closure updates one captured local.
//! `Props/TieFlex.lean` proves the generated definitions equal to those of Model/Flex.lean.
use crate::emit::{free_fns, strip_parens, Out};
use crate::expr::{Ctx, RetMode};
use crate::lean::{ident, Ty, World};
use crate::util::{parse_file, CfgEnv};
use std::collections::HashMap;
use syn::visit::Visit;
use syn::Item;

pub const REQUIRED: &[&str] = &[
    "align_flex_items_along_cross_axis",
    "collect_flex_lines",
    "calculate_cross_size",
    "handle_align_content_stretch",
    "resolve_cross_axis_auto_margins",
    "determine_container_cross_size",
    "align_flex_lines_per_align_content",
    "determine_available_space",
    "determine_used_cross_size",
    "compute_constants",
    "generate_anonymous_flex_items",
    "compute_flexbox_layout.styled_based_known_dimensions",
];
const NS: &str = "Gen.Flex";

/// parameter types: `&[T]` / `&mut [T]` / `Vec<T>` are lists
fn param_ty(cx: &Ctx, t: &syn::Type) -> Result<Ty, String> {
    match t {
        syn::Type::Reference(r) => param_ty(cx, &r.elem),
        syn::Type::Paren(p) => param_ty(cx, &p.elem),
        syn::Type::Slice(s) => Ok(Ty::List(Box::new(param_ty(cx, &s.elem)?))),
        syn::Type::Path(p) if p.qself.is_none() && p.path.segments.len() == 1 && p.path.segments[0].ident == "Vec" => match &p.path.segments[0].arguments {
            syn::PathArguments::AngleBracketed(ab) if ab.args.len() == 1 => match &ab.args[0] {
                syn::GenericArgument::Type(t) => Ok(Ty::List(Box::new(param_ty(cx, t)?))),
                _ => Err("Vec argument".into()),
            },
            _ => Err("Vec argument".into()),
        },
        // `FlexLine<'a>`: lifetime arguments are dropped
        syn::Type::Path(p) if p.qself.is_none() && p.path.segments.len() == 1 && matches!(&p.path.segments[0].arguments, syn::PathArguments::AngleBracketed(ab) if ab.args.iter().all(|a| matches!(a, syn::GenericArgument::Lifetime(_)))) => {
            let id = &p.path.segments[0].ident;
            let t2: syn::Type = syn::parse_quote!(#id);
            cx.rust_ty(&t2)
        }
        t => cx.rust_ty(t),
    }
}

#[derive(Default)]
struct Shape {
    has_loop: bool,
    has_index: bool,
    has_split: bool,
}
impl<'ast> Visit<'ast> for Shape {
    fn visit_expr_loop(&mut self, l: &'ast syn::ExprLoop) {
        self.has_loop = true;
        syn::visit::visit_expr_loop(self, l);
    }
    fn visit_expr_while(&mut self, l: &'ast syn::ExprWhile) {
        self.has_loop = true;
        syn::visit::visit_expr_while(self, l);
    }
    fn visit_expr_index(&mut self, i: &'ast syn::ExprIndex) {
        if !matches!(&*i.index, syn::Expr::Range(_)) {
            self.has_index = true;
        }
        syn::visit::visit_expr_index(self, i);
    }
    fn visit_expr_method_call(&mut self, m: &'ast syn::ExprMethodCall) {
        if m.method == "split_at_mut" {
            self.has_split = true;
        }
        syn::visit::visit_expr_method_call(self, m);
    }
}

/// a function with at most one `&mut` parameter (in any position): `def f [fuel] params… : R`, where `R` is the updated `&mut` parameter
/// (function returning `()`), the pair (updated parameter, value), or the value (no `&mut` parameter); `Option R` when the body can panic
/// on an index / `split_at_mut` or contains a loop (run under `fuel`)
fn line_fn(out: &mut Out, w: &World, f: &syn::ItemFn, super_core: bool) {
    let name = f.sig.ident.to_string();
    let r = (|| -> Result<String, String> {
        let mut cx = Ctx::new(w, None, HashMap::new());
        cx.ext.enabled = true;
        cx.ext.fn_name = ident(&name);
        cx.ext.ns = NS.to_string();
        cx.ext.shared_call_args = true;
        cx.ext.opt_index = true;
        cx.ext.whiles = true;
        cx.ext.view_super_core = super_core;
        if !f.sig.generics.params.iter().all(|g| matches!(g, syn::GenericParam::Lifetime(_))) {
            return Err("generic parameter".into());
        }
        let ret = match &f.sig.output {
            syn::ReturnType::Default => Ty::Unit,
            syn::ReturnType::Type(_, t) => param_ty(&cx, t)?,
        };
        if ret.has_unknown() {
            return Err("return type not fully determined".into());
        }
        let mut binders = String::new();
        let mut state: Option<(String, Ty)> = None;
        let mut tree_doc = false;
        for a in f.sig.inputs.iter() {
            let t = match a {
                syn::FnArg::Typed(t) => t,
                _ => return Err("receiver".into()),
            };
            let n = match &*t.pat {
                syn::Pat::Ident(i) => i.ident.to_string(),
                _ => return Err("parameter pattern".into()),
            };
            // the tree: used only as the calc resolver and to read child styles
            if let Some(trs) = crate::emit::impl_traits(&t.ty) {
                if trs.iter().any(|x| x == "LayoutFlexboxContainer") {
                    cx.ext.calc_tree = Some(n.clone());
                    // the style lookup is a parameter only where the body reads child styles
                    struct Reads(bool);
                    impl<'ast> Visit<'ast> for Reads {
                        fn visit_expr_method_call(&mut self, m: &'ast syn::ExprMethodCall) {
                            if m.method == "get_flexbox_child_style" {
                                self.0 = true;
                            }
                            syn::visit::visit_expr_method_call(self, m);
                        }
                    }
                    let mut rd = Reads(false);
                    rd.visit_block(&f.block);
                    if rd.0 {
                        binders.push_str(" (styleOf : Nat → Style α)");
                    }
                    tree_doc = true;
                    continue;
                }
            }
            // `style: impl FlexboxContainerStyle`: a `Style` seen through that trait's getters (and those of its supertrait `CoreStyle`)
            if let Some(trs) = crate::emit::impl_traits(&t.ty) {
                if trs.len() == 1 && crate::emit::STYLE_TRAITS.contains(&trs[0].as_str()) {
                    cx.views.insert(n.clone(), trs[0].clone());
                    let ty = Ty::adt("Style", vec![]);
                    cx.locals.insert(n.clone(), (ident(&n), ty.clone()));
                    binders.push_str(&format!(" ({} : {})", ident(&n), strip_parens(&w.lean_ty(&ty))));
                    continue;
                }
                return Err(format!("parameter `{n}` of `impl Trait` type"));
            }
            let ty = param_ty(&cx, &t.ty)?;
            if ty.has_unknown() {
                return Err(format!("parameter `{n}`: type not fully determined"));
            }
            let is_mut = matches!(&*t.ty, syn::Type::Reference(r) if r.mutability.is_some());
            if is_mut {
                if state.is_some() {
                    return Err(format!("parameter `{n}`: a second `&mut` parameter"));
                }
                state = Some((n.clone(), ty.clone()));
            }
            cx.locals.insert(n.clone(), (ident(&n), ty.clone()));
            binders.push_str(&format!(" ({} : {})", ident(&n), strip_parens(&w.lean_ty(&ty))));
        }
        // a `&mut` parameter whose referent the result borrows from (`-> Vec<FlexLine<'a>>` of `&'a mut Vec<FlexItem>`): the function
        // hands out disjoint sub-slices and writes nothing; it is then an ordinary input
        let borrows = matches!(&ret, Ty::List(_)) && state.is_some();
        if borrows {
            state = None;
        }
        if let Some((st, _)) = &state {
            // the `&mut` parameter may only be read / written through its fields (a whole-value use could alias it)
            let mut sc = crate::loops::Scan::default();
            for s in &f.block.stmts {
                sc.visit_stmt(s);
            }
            if sc.whole_uses.contains(st) {
                return Err(format!("the `&mut` parameter `{st}` is used as a whole value (it could be aliased)"));
            }
        }
        let mut sh = Shape::default();
        sh.visit_block(&f.block);
        let partial = sh.has_loop || sh.has_index || sh.has_split;
        cx.ext.fueled = partial;
        cx.ext.has_fuel = sh.has_loop;
        cx.mut_param = state.as_ref().map(|s| s.0.clone());
        cx.ret_ty = ret.clone();
        cx.ret = match (&state, &ret) {
            (None, _) => RetMode::Plain,
            (Some(_), Ty::Unit) => RetMode::MutSelfUnit,
            (Some(_), _) => RetMode::MutSelfVal,
        };
        let value_tail = ret != Ty::Unit;
        let body = cx.seq(&f.block.stmts, value_tail, &[])?;
        let mut text = String::new();
        for a in &cx.ext.aux {
            text.push_str(&a.replace(crate::loops::NUMX_MARK, ""));
        }
        let res_ty = match (&state, &ret) {
            (None, r) => r.clone(),
            (Some((_, st)), Ty::Unit) => st.clone(),
            (Some((_, st)), r) => Ty::Tuple(vec![st.clone(), r.clone()]),
        };
        let res_t = if partial { format!("Option {}", w.lean_ty(&res_ty)) } else { strip_parens(&w.lean_ty(&res_ty)) };
        let mut doc = format!("`{name}`");
        match (&state, &ret) {
            (Some((s, _)), Ty::Unit) => doc.push_str(&format!(": the `&mut` parameter `{s}` is returned updated")),
            (Some((s, _)), _) => doc.push_str(&format!(": returns (the `&mut` parameter `{s}` updated, the function's value)")),
            _ => {}
        }
        if tree_doc {
            doc.push_str(" — the tree is used only to read child styles (`get_flexbox_child_style(n)` ↦ `styleOf n`, `n` the child's index) and as the calc resolver (dropped)");
        }
        if borrows {
            doc.push_str(": the result borrows disjoint sub-slices of the `&mut` parameter (lists here); nothing is written through it");
        }
        if partial {
            doc.push_str(" — `none` = a panic (index out of bounds / `split_at_mut` beyond the length)");
            if sh.has_loop {
                doc.push_str(" or a `while` that did not finish within `fuel` iterations");
            }
        }
        let fuel_b = if sh.has_loop { " (fuel : Nat)" } else { "" };
        text.push_str(&format!("/-- {doc} -/\ndef {} {{α : Type}} [Num α]{fuel_b}{binders} : {res_t} :=\n  {}\n\n", ident(&name), body.render(2, true)));
        Ok(text)
    })();
    match r {
        Ok(t) => {
            out.text.push_str(&t);
            out.translated.push(ident(&name));
        }
        Err(e) => out.errors.push(format!("required function `{name}` is outside the translated fragment: {e}")),
    }
}

const PRELUDE: &str = "/-- `Iterator::sum::<f32>()`: the left fold of `+` from `-0.0` (the definition of Generated/FlexLine.lean) -/
abbrev sum_f32 {α : Type} [Num α] (l : List α) : α := Gen.FlexLine.sum_f32 l

/-- `Iterator::enumerate` on a finite iterator: (position, element) -/
def enumerate {β : Type} (l : List β) : List (Nat × β) := l.zipIdx.map (fun p => (p.2, p.1))

/-- `<[T]>::split_at_mut(mid)`: `none` = `mid > len` (Rust panics) -/
def split_at_mut {β : Type} (l : List β) (mid : Nat) : Option (List β × List β) :=
  if mid ≤ l.length then some (l.take mid, l.drop mid) else none

/-- `it.enumerate().find(|&(idx, x)| body)` where `body` updates one captured local `acc` and answers a `bool`: the elements are visited in
    order with the local threaded through (`(f acc idx x).1`), the search stops at the first `true` (`(f acc idx x).2`); the result is the
    found `(idx, x)` and the final value of the local -/
def enumerate_find_state {β γ : Type} (f : γ → Nat → β → γ × Bool) : γ → Nat → List β → Option (Nat × β) × γ
  | acc, _, [] => (none, acc)
  | acc, i, x :: xs =>
    let r := f acc i x
    if r.2 then (some (i, x), r.1) else enumerate_find_state f r.1 (i + 1) xs

";

pub fn extract(repo: &str, w: &mut World) -> Result<String, String> {
    let env = CfgEnv::default_build();
    let file = parse_file(&format!("{repo}/src/compute/flexbox.rs"))?;
    if w.adt("FlexItem").is_none() || w.adt("FlexLine").is_none() || w.adt("AlgoConstants").is_none() {
        return Err("the records of Model/Flex.lean are not registered (flexline.rs must run first)".into());
    }
    // `pub trait FlexboxItemStyle: CoreStyle` / `pub trait FlexboxContainerStyle: CoreStyle` (src/style/flex.rs): the getters of
    // `CoreStyle` are reachable through a child / container style
    let flex_rs = parse_file(&format!("{repo}/src/style/flex.rs"))?;
    let super_core = ["FlexboxItemStyle", "FlexboxContainerStyle"].iter().all(|tn| {
        flex_rs.items.iter().any(|it| match it {
            Item::Trait(t) if t.ident == tn => t.supertraits.iter().any(|b| matches!(b, syn::TypeParamBound::Trait(tb) if tb.path.is_ident("CoreStyle"))),
            _ => false,
        })
    });
    if !super_core {
        return Err("`FlexboxItemStyle` / `FlexboxContainerStyle` no longer have `CoreStyle` as a supertrait".into());
    }
    let mut out = Out::new(
        NS,
        "src/compute/flexbox.rs (the pure line / cross-axis functions)",
        &["TaffyVerif.Generated.Prelude", "TaffyVerif.Generated.Geometry", "TaffyVerif.Generated.AvailableSpace", "TaffyVerif.Generated.Sys", "TaffyVerif.Generated.MaybeMath", "TaffyVerif.Generated.Resolve", "TaffyVerif.Generated.Alignment", "TaffyVerif.Generated.Axes", "TaffyVerif.Generated.Style", "TaffyVerif.Generated.FlexLine", "TaffyVerif.Model.Flex"],
    );
    out.comment("Records: `FlexModel.FlexItem` / `FlexLineS` / `AlgoConstants` (compared with the `struct`s of the source by the FlexLine module).");
    out.comment("Translation scheme: extract/src/loops.rs (see Generated/FlexLine.lean) and, new here: `PLACE[0]` read / written ↦ a `match` on the");
    out.comment("list (`[]` ↦ `none`: Rust panics); `PLACE.iter_mut().for_each(|x| body)` ↦ `List.map`; `while c { body }` ↦ `<f>.while` under `fuel` over");
    out.comment("the tuple of the outer locals the body assigns; `v.push(x)` ↦ `v ++ [x]`; `new_vec_with_capacity(n)` ↦ `[]`; `split_at_mut`;");
    out.comment("`enumerate().find(closure)` with a closure that updates a captured local ↦ `enumerate_find_state`.");
    out.text.push('\n');
    out.text.push_str(PRELUDE);
    // geometry.rs: `Rect::map`, `Rect::zip_size` (generic `impl<T> Rect<T>`, kept polymorphic as geometry.rs keeps `Size::map`)
    {
        use syn::ImplItem;
        let geo = parse_file(&format!("{repo}/src/geometry.rs"))?;
        let mut gv = vec![];
        crate::emit::impls(&geo.items, &env, &[], &mut gv)?;
        let beta = Ty::Var("β".into());
        let gb: HashMap<String, Ty> = [("T".to_string(), beta.clone())].into_iter().collect();
        for info in &gv {
            if info.trait_.is_some() || info.generics.len() != 1 || info.self_ty != "Rect<T>" {
                continue;
            }
            for ii in info.items {
                if let ImplItem::Fn(ff) = ii {
                    let name = ff.sig.ident.to_string();
                    if ["map", "zip_size"].contains(&name.as_str()) && env.enabled(&ff.attrs)? {
                        out.function(w, crate::emit::Plan { head: "Rect".to_string(), rust_name: name.clone(), lean_rel: format!("Rect.{name}"), self_ty: Some(Ty::adt("Rect", vec![beta.clone()])), generics: gb.clone(), sig: &ff.sig, block: &ff.block, required: true, trunc_sub: false, ext: crate::emit::PlanExt { type_vars: true, ..Default::default() } });
                    }
                }
            }
        }
    }
    // style_helpers.rs: `TaffyZero` at `Option<f32>` and at `Size<Option<f32>>`, and `Size::<Option<f32>>::zero()` (`compute_constants`:
    // `node_inner_size.or(Size::zero())`) — the instantiations geometry.rs makes at f32, made at `Option<f32>`
    {
        use syn::ImplItem;
        let sh = parse_file(&format!("{repo}/src/style_helpers.rs"))?;
        let mut v2 = vec![];
        crate::emit::impls(&sh.items, &env, &[], &mut v2)?;
        let of = Ty::opt(Ty::F32);
        let gen = |t: &Ty| -> HashMap<String, Ty> { [("T".to_string(), t.clone())].into_iter().collect() };
        for pass in 0..3 {
            for info in &v2 {
                let is_zero_trait = info.trait_.as_deref() == Some("TaffyZero");
                match (pass, info.self_ty.as_str()) {
                    (0, "Option<T>") if is_zero_trait => {
                        for ii in info.items {
                            if let ImplItem::Const(c) = ii {
                                if c.ident == "ZERO" {
                                    out.constant(w, "Option", "<TaffyZero>::ZERO", "TaffyZero::ZERO", "Option.TaffyZero_ZERO", Some(of.clone()), gen(&Ty::F32), &c.ty, &c.expr, true);
                                }
                            }
                        }
                    }
                    (1, "Size<T>") if is_zero_trait => {
                        for ii in info.items {
                            if let ImplItem::Const(c) = ii {
                                if c.ident == "ZERO" {
                                    out.constant(w, "Size", "<TaffyZero>::ZERO", "TaffyZero::ZERO", "Size_Option.TaffyZero_ZERO", Some(Ty::adt("Size", vec![of.clone()])), gen(&of), &c.ty, &c.expr, true);
                                }
                            }
                        }
                    }
                    (2, "Size<T>") if info.trait_.is_none() => {
                        for ii in info.items {
                            if let ImplItem::Fn(ff) = ii {
                                if ff.sig.ident == "zero" {
                                    out.function(w, crate::emit::Plan { head: "Size".to_string(), rust_name: "zero".into(), lean_rel: "Size_Option.zero".to_string(), self_ty: Some(Ty::adt("Size", vec![of.clone()])), generics: gen(&of), sig: &ff.sig, block: &ff.block, required: true, trunc_sub: false, ext: Default::default() });
                                }
                            }
                        }
                    }
                    _ => {}
                }
            }
        }
    }
    // `Dimension::is_auto` / `LengthPercentageAuto::is_auto`: `self.0.is_auto()`, and `CompactLength::is_auto` tests the tag the abstract
    // constructor `.auto` stands for (the constructor side has been compared by the Style module)
    {
        let dim = parse_file(&format!("{repo}/src/style/dimension.rs"))?;
        let cl = parse_file(&format!("{repo}/src/style/compact_length.rs"))?;
        let mut dv = vec![];
        crate::emit::impls(&dim.items, &env, &[], &mut dv)?;
        let mut clv = vec![];
        crate::emit::impls(&cl.items, &env, &[], &mut clv)?;
        crate::style::expect_member(&dv, "Dimension", None, "is_auto", &env, "{self.0.is_auto()}")?;
        crate::style::expect_member(&dv, "LengthPercentageAuto", None, "is_auto", &env, "{self.0.is_auto()}")?;
        crate::style::expect_member(&clv, "CompactLength", None, "is_auto", &env, "{self.tag()==Self::AUTO_TAG}")?;
        out.text.push_str("/-- `Dimension::is_auto` / `LengthPercentageAuto::is_auto` (`self.0.is_auto()`; `CompactLength::is_auto` is `self.tag() == Self::AUTO_TAG`, the tag of the\n    abstract constructor `.auto`) -/\ndef Dimension.is_auto {α : Type} [Num α] (self_ : LPA α) : Bool :=\n  match self_ with\n  | .auto => true\n  | _ => false\n\n");
        for head in ["Dimension", "LengthPercentageAuto"] {
            let st = w.adt(head).map(|_| Ty::adt(head, vec![])).ok_or(format!("{head} is not a registered type"))?;
            w.add_fn(head, "is_auto", crate::lean::FnSig { lean: format!("{NS}.Dimension.is_auto"), self_ty: Some(st), params: vec![], ret: Ty::Bool, alpha: true, mut_self: false, dropped: 0, mut_first: false, prog: false });
        }
    }
    free_fns(&mut out, w, &file.items, &env, &["align_flex_items_along_cross_axis", "determine_available_space"], &["align_flex_items_along_cross_axis", "determine_available_space"], &[])?;
    for name in REQUIRED.iter().filter(|n| **n != "align_flex_items_along_cross_axis" && **n != "determine_available_space" && **n != "generate_anonymous_flex_items" && !n.contains('.')) {
        match file.items.iter().find_map(|it| match it {
            Item::Fn(f) if f.sig.ident == name => Some(f),
            _ => None,
        }) {
            Some(f) if env.enabled(&f.attrs)? => line_fn(&mut out, w, f, super_core),
            _ => out.errors.push(format!("required function `{name}` is missing from the source")),
        }
    }
    match file.items.iter().find_map(|it| match it {
        Item::Fn(f) if f.sig.ident == "generate_anonymous_flex_items" => Some(f),
        _ => None,
    }) {
        Some(f) if env.enabled(&f.attrs)? => match gen_items(w, f) {
            Ok(t) => {
                out.text.push_str(&t);
                out.translated.push("generate_anonymous_flex_items".into());
            }
            Err(e) => out.errors.push(format!("required function `generate_anonymous_flex_items` is outside the translated fragment: {e}")),
        },
        _ => out.errors.push("required function `generate_anonymous_flex_items` is missing from the source".into()),
    }
    match file.items.iter().find_map(|it| match it {
        Item::Fn(f) if f.sig.ident == "compute_flexbox_layout" => Some(f),
        _ => None,
    }) {
        Some(f) if env.enabled(&f.attrs)? => match entry_prelude(w, f) {
            Ok(t) => {
                out.text.push_str(&t);
                out.translated.push("compute_flexbox_layout.styled_based_known_dimensions".into());
            }
            Err(e) => out.errors.push(format!("required function `compute_flexbox_layout.styled_based_known_dimensions` is outside the translated fragment: {e}")),
        },
        _ => out.errors.push("required function `compute_flexbox_layout.styled_based_known_dimensions` is missing from the source".into()),
    }
    out.finish(REQUIRED)
}

/// `compute_flexbox_layout`: the statements between reading the container style and the short-circuit test, as a function of
/// (style, inputs) whose value is `styled_based_known_dimensions`; the statements around them (the style read, the `ComputeSize`
/// short-circuit, the call of `compute_preliminary`) are compared token by token with the scheme `FlexModel.computeFlexboxLayout` mirrors
fn entry_prelude(w: &World, f: &syn::ItemFn) -> Result<String, String> {
    use syn::Stmt;
    let norm = |t: &dyn quote::ToTokens| quote::quote!(#t).to_string().replace(' ', "");
    let sig = norm(&f.sig.inputs).trim_end_matches(',').to_string();
    if sig != "tree:&mutimplLayoutFlexboxContainer,node:NodeId,inputs:LayoutInput" || norm(&f.sig.output) != "->LayoutOutput" {
        return Err(format!("signature changed: `{}`", norm(&f.sig)));
    }
    let env = CfgEnv::default_build();
    let mut stmts: Vec<&Stmt> = vec![];
    for s in &f.block.stmts {
        let attrs: &[syn::Attribute] = match s {
            Stmt::Local(l) => &l.attrs,
            Stmt::Expr(e, _) => crate::expr::expr_attrs_pub(e),
            _ => &[],
        };
        if env.enabled(attrs)? {
            stmts.push(s);
        }
    }
    if stmts.len() < 4 {
        return Err("too few statements".into());
    }
    if norm(stmts[0]) != "letLayoutInput{known_dimensions,parent_size,run_mode,..}=inputs;" {
        return Err(format!("the first statement is `{}`", norm(stmts[0])));
    }
    if norm(stmts[1]) != "letstyle=tree.get_flexbox_container_style(node);" {
        return Err(format!("the second statement is `{}`", norm(stmts[1])));
    }
    let j = stmts.iter().position(|s| matches!(s, Stmt::Local(l) if matches!(&l.pat, syn::Pat::Ident(i) if i.ident == "styled_based_known_dimensions"))).ok_or("`let styled_based_known_dimensions = …;` not found")?;
    // the statements after it: the short-circuit and the call of compute_preliminary (the scheme of FlexModel.computeFlexboxLayout)
    let tail: Vec<String> = stmts[j + 1..].iter().map(|s| norm(*s)).filter(|t| !t.starts_with("debug_log!")).collect();
    let want = [
        "ifrun_mode==RunMode::ComputeSize{ifletSize{width:Some(width),height:Some(height)}=styled_based_known_dimensions{returnLayoutOutput::from_outer_size(Size{width,height});}}",
        "drop(style);",
        "compute_preliminary(tree,node,LayoutInput{known_dimensions:styled_based_known_dimensions,..inputs})",
    ];
    if tail != want {
        return Err(format!("the statements after `styled_based_known_dimensions` changed: {:?}", tail));
    }
    let mut cx = Ctx::new(w, None, HashMap::new());
    cx.ext.enabled = true;
    cx.ext.ns = NS.to_string();
    cx.ext.view_super_core = true;
    cx.ext.calc_tree = Some("tree".into());
    let style_ty = Ty::adt("Style", vec![]);
    let in_ty = Ty::adt("LayoutInput", vec![]);
    cx.locals.insert("style".into(), ("style".into(), style_ty));
    cx.views.insert("style".into(), "FlexboxContainerStyle".into());
    cx.locals.insert("inputs".into(), ("inputs".into(), in_ty.clone()));
    let ret = Ty::adt("Size", vec![Ty::opt(Ty::F32)]);
    cx.ret = RetMode::Plain;
    cx.ret_ty = ret.clone();
    let mut body: Vec<Stmt> = vec![stmts[0].clone()];
    body.extend(stmts[2..=j].iter().map(|s| (*s).clone()));
    body.push(Stmt::Expr(syn::parse_quote!(styled_based_known_dimensions), None));
    let b = cx.seq(&body, true, &[])?;
    Ok(format!(
        "/-- `compute_flexbox_layout`: the statements from the style read to `styled_based_known_dimensions`, as a function of the container style\n    (`tree.get_flexbox_container_style(node)`) and the inputs. The statements after them have been compared token by token: `if run_mode ==\n    RunMode::ComputeSize {{ if let Size {{ width: Some(width), height: Some(height) }} = styled_based_known_dimensions {{ return\n    LayoutOutput::from_outer_size(Size {{ width, height }}); }} }}`, `drop(style);`, `compute_preliminary(tree, node, LayoutInput {{\n    known_dimensions: styled_based_known_dimensions, ..inputs }})` -/\ndef compute_flexbox_layout.styled_based_known_dimensions {{α : Type}} [Num α] (style : Style α) (inputs : {}) : {} :=\n  {}\n\n",
        strip_parens(&w.lean_ty(&in_ty)),
        strip_parens(&w.lean_ty(&ret)),
        b.render(2, true)
    ))
}

/// `generate_anonymous_flex_items`: the body must be the single chain
/// `tree.child_ids(node).enumerate().map(|(index, child)| (index, child, tree.get_flexbox_child_style(child))).filter(P1).filter(P2).map(F).collect()`;
/// `P1`, `P2` (predicates on the child style) and `F` (one `FlexItem` from index, child and child style) are translated, the chain is
/// emitted over the list of child ids `0 .. child_count` (a child is addressed by its index, as in `FlexItem::node`)
fn gen_items(w: &World, f: &syn::ItemFn) -> Result<String, String> {
    use crate::lean::L;
    use syn::{Expr, Pat, Stmt};
    let norm = |t: &dyn quote::ToTokens| quote::quote!(#t).to_string().replace(' ', "");
    let sig = norm(&f.sig.inputs);
    let sig = sig.trim_end_matches(',').to_string();
    if sig != "tree:&implLayoutFlexboxContainer,node:NodeId,constants:&AlgoConstants" || norm(&f.sig.output) != "->Vec<FlexItem>" {
        return Err(format!("signature changed: `{}`", norm(&f.sig)));
    }
    let body = match f.block.stmts.as_slice() {
        [Stmt::Expr(e, None)] => e,
        _ => return Err("the body is not a single iterator chain".into()),
    };
    let mut ms: Vec<(String, Vec<&Expr>)> = vec![];
    let mut cur = body;
    while let Expr::MethodCall(m) = cur {
        ms.push((m.method.to_string(), m.args.iter().collect()));
        cur = &m.receiver;
    }
    ms.reverse();
    let names: Vec<&str> = ms.iter().map(|m| m.0.as_str()).collect();
    if norm(cur) != "tree" || names != ["child_ids", "enumerate", "map", "filter", "filter", "map", "collect"] {
        return Err(format!("the chain is `{}.{}`", norm(cur), names.join(".")));
    }
    if ms[0].1.len() != 1 || norm(ms[0].1[0]) != "node" || !ms[1].1.is_empty() || !ms[6].1.is_empty() {
        return Err("the chain's arguments changed".into());
    }
    if ms[2].1.len() != 1 || norm(ms[2].1[0]) != "|(index,child)|(index,child,tree.get_flexbox_child_style(child))" {
        return Err(format!("the first `map` is `{}`", norm(ms[2].1[0])));
    }
    let style_ty = Ty::adt("Style", vec![]);
    let mut text = String::new();
    // the two filters: `|(_, _, style)| pred`
    for (k, idx) in [(1usize, 3usize), (2, 4)] {
        let c = match ms[idx].1.as_slice() {
            [Expr::Closure(c)] => c,
            _ => return Err("`filter` without a closure literal".into()),
        };
        let sname = match c.inputs.first() {
            Some(Pat::Tuple(t)) if c.inputs.len() == 1 && t.elems.len() == 3 && matches!(t.elems[0], Pat::Wild(_)) && matches!(t.elems[1], Pat::Wild(_)) => match &t.elems[2] {
                Pat::Ident(i) => i.ident.to_string(),
                _ => return Err("`filter` closure pattern".into()),
            },
            _ => return Err("`filter` closure pattern".into()),
        };
        let mut cx = Ctx::new(w, None, HashMap::new());
        cx.ext.enabled = true;
        cx.ext.ns = NS.to_string();
        cx.ext.view_super_core = true;
        cx.locals.insert(sname.clone(), (ident(&sname), style_ty.clone()));
        cx.views.insert(sname.clone(), "FlexboxItemStyle".into());
        let (b, bt) = cx.expr(&c.body, &Ty::Bool)?;
        if bt != Ty::Bool {
            return Err("`filter` closure does not return bool".into());
        }
        text.push_str(&format!(
            "/-- the {k}. `filter` of `generate_anonymous_flex_items`, as a predicate on the child style -/
def generate_anonymous_flex_items.filter_{k} {{α : Type}} [Num α] ({} : Style α) : Bool :=
  {}

",
            ident(&sname),
            b.render(2, true)
        ));
    }
    // the item: `|(index, child, child_style)| { … FlexItem { … } }`
    let c = match ms[5].1.as_slice() {
        [Expr::Closure(c)] => c,
        _ => return Err("the last `map` has no closure literal".into()),
    };
    let (iname, cname, sname) = match c.inputs.first() {
        Some(Pat::Tuple(t)) if c.inputs.len() == 1 && t.elems.len() == 3 => match (&t.elems[0], &t.elems[1], &t.elems[2]) {
            (Pat::Ident(a), Pat::Ident(b), Pat::Ident(c)) => (a.ident.to_string(), b.ident.to_string(), c.ident.to_string()),
            _ => return Err("item closure pattern".into()),
        },
        _ => return Err("item closure pattern".into()),
    };
    let stmts: Vec<Stmt> = match &*c.body {
        Expr::Block(b) => b.block.stmts.clone(),
        e => vec![Stmt::Expr(e.clone(), None)],
    };
    let mut cx = Ctx::new(w, None, HashMap::new());
    cx.ext.enabled = true;
    cx.ext.ns = NS.to_string();
    cx.ext.view_super_core = true;
    cx.ext.calc_tree = Some("tree".into());
    cx.ext.index_as_u32 = true;
    let kt = Ty::adt("AlgoConstants", vec![]);
    let it = Ty::adt("FlexItem", vec![]);
    cx.locals.insert("constants".into(), ("constants".into(), kt.clone()));
    cx.locals.insert(iname.clone(), (ident(&iname), Ty::Nat));
    cx.locals.insert(cname.clone(), (ident(&cname), Ty::Nat));
    cx.locals.insert(sname.clone(), (ident(&sname), style_ty.clone()));
    cx.views.insert(sname.clone(), "FlexboxItemStyle".into());
    cx.ret = RetMode::Plain;
    cx.ret_ty = it.clone();
    let b = cx.seq(&stmts, true, &[])?;
    text.push_str(&format!(
        "/-- the last `map` of `generate_anonymous_flex_items`: one `FlexItem` from the child's index, the child (= its index) and its style (`index as u32` ↦ `index`: equal below 2³²) -/
def generate_anonymous_flex_items.item {{α : Type}} [Num α] (constants : {}) ({} : Nat) ({} : Nat) ({} : Style α) : {} :=
  {}

",
        strip_parens(&w.lean_ty(&kt)),
        ident(&iname),
        ident(&cname),
        ident(&sname),
        strip_parens(&w.lean_ty(&it)),
        b.render(2, true)
    ));
    let _ = L::a("x");
    text.push_str(
        "/-- `generate_anonymous_flex_items`: `tree.child_ids(node)` is `0 .. child_count` (a child is addressed by its index), `enumerate()` pairs
    each with its position, the first `map` attaches the child's style (`styleOf`), then the two filters and the item constructor -/
def generate_anonymous_flex_items {α : Type} [Num α] (styleOf : Nat → Style α) (child_count : Nat) (constants : FlexModel.AlgoConstants α) : List (FlexModel.FlexItem α) :=
  List.map (fun (t : Nat × Nat × Style α) => Gen.Flex.generate_anonymous_flex_items.item constants t.1 t.2.1 t.2.2)
    (List.filter (fun (t : Nat × Nat × Style α) => Gen.Flex.generate_anonymous_flex_items.filter_2 t.2.2)
      (List.filter (fun (t : Nat × Nat × Style α) => Gen.Flex.generate_anonymous_flex_items.filter_1 t.2.2)
        (List.map (fun (p : Nat × Nat) => (p.1, p.2, styleOf p.2)) (Gen.Flex.enumerate (List.range child_count)))))

",
    );
    Ok(text)
}
