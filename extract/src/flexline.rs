//! src/compute/flexbox.rs, the pure per-line functions  →  Generated/FlexLine.lean
//!
//! `sum_axis_gaps`, `FlexItem::is_scroll_container`, `resolve_flexible_lengths` (in full: the freeze loop under fuel) and
//! `distribute_remaining_free_space`, translated against the model's record types `FlexModel.FlexItem`, `FlexModel.FlexLineS`,
//! `FlexModel.AlgoConstants` (Model/Flex.lean). The three `struct` definitions of flexbox.rs are compared with those records field by
//! field (names in order, types; `node: NodeId` is the child's index `nodeIdx : Nat`, `items: &mut [FlexItem]` is `List (FlexItem α)`).
//! The statement fragment is the one of loops.rs (slices as lists, `for` over `&mut [T]`, filtered mutable views, `loop` under fuel).
//! `Props/TieFlexLine.lean` proves the generated definitions equal to `Model/FlexLine.lean` through the main-axis projection
//! (`FlexModel.toM` / `zipBack`).
use crate::emit::{free_fns, impl_items, impls, norm, strip_parens, Out};
use crate::expr::{Ctx, RetMode};
use crate::lean::{ident, Adt, AdtKind, Field, Ty, World};
use crate::loops::NUMX_MARK;
use crate::util::{parse_file, CfgEnv};
use std::collections::HashMap;
use syn::visit::Visit;
use syn::Item;

pub const REQUIRED: &[&str] = &["sum_axis_gaps", "FlexItem.is_scroll_container", "resolve_flexible_lengths", "distribute_remaining_free_space"];
const NS: &str = "Gen.FlexLine";

fn camel(s: &str) -> String {
    let mut out = String::new();
    let mut up = false;
    for c in s.chars() {
        if c == '_' {
            up = true;
        } else if up {
            out.extend(c.to_uppercase());
            up = false;
        } else {
            out.push(c);
        }
    }
    out
}

/// register a record of Model/Flex.lean; `lean_names` overrides the camel-cased field name
pub(crate) fn register(w: &mut World, rust: &str, lean: &str, fields: Vec<(&str, Ty)>, lean_names: &[(&str, &str)]) {
    let fs = fields
        .into_iter()
        .map(|(n, t)| Field { rust: n.into(), lean: lean_names.iter().find(|x| x.0 == n).map(|x| x.1.to_string()).unwrap_or_else(|| camel(n)), ty: t })
        .collect();
    w.adts.retain(|a| a.rust != rust);
    w.adts.push(Adt { rust: rust.into(), lean: lean.into(), alpha: true, nparams: 0, kind: AdtKind::Struct(fs) });
}

/// compare `struct <name>` of the source with the registered record: field names in order, field types (a field listed in `as_text` is
/// compared by the text of its type instead: its Rust type has no counterpart in the fragment and the registered type is a convention)
pub(crate) fn check_struct(w: &World, items: &[Item], env: &CfgEnv, name: &str, as_text: &[(&str, &str)]) -> Result<(), String> {
    let adt = w.adt(name).ok_or(format!("no registry entry for {name}"))?;
    let fields = match &adt.kind {
        AdtKind::Struct(f) => f,
        _ => return Err(format!("{name} is not registered as a struct")),
    };
    for it in items {
        if let Item::Struct(s) = it {
            if s.ident != name {
                continue;
            }
            let cx = Ctx::new(w, None, HashMap::new());
            let mut got: Vec<(String, Result<Ty, String>, String)> = vec![];
            for f in &s.fields {
                if env.enabled(&f.attrs)? {
                    let n = f.ident.as_ref().ok_or("tuple struct")?.to_string();
                    got.push((n, cx.rust_ty(&f.ty), norm(&f.ty)));
                }
            }
            if got.len() != fields.len() {
                return Err(format!("struct {name} changed: the source has {} fields ({}), the Lean record has {}", got.len(), got.iter().map(|g| g.0.clone()).collect::<Vec<_>>().join(", "), fields.len()));
            }
            for ((n, t, text), f) in got.iter().zip(fields) {
                if *n != f.rust {
                    return Err(format!("struct {name} changed: field `{n}` where the Lean record has `{}`", f.rust));
                }
                if let Some((_, want)) = as_text.iter().find(|x| x.0 == n) {
                    if text != want {
                        return Err(format!("struct {name} changed: field `{n}` has type `{text}`, the translation convention is for `{want}`"));
                    }
                    continue;
                }
                match t {
                    Ok(t) if t.compatible(&f.ty) => {}
                    Ok(t) => return Err(format!("struct {name} changed: field `{n}` has type {:?}, the Lean record has {:?}", t, f.ty)),
                    Err(e) => return Err(format!("struct {name}: field `{n}`: {e}")),
                }
            }
            return Ok(());
        }
    }
    Err(format!("definition of {name} not found"))
}

/// parameter types of the line functions: `&[T]` / `&mut [T]` / `Vec<T>` are lists
fn param_ty(cx: &Ctx, t: &syn::Type) -> Result<Ty, String> {
    match t {
        syn::Type::Reference(r) => param_ty(cx, &r.elem),
        syn::Type::Paren(p) => param_ty(cx, &p.elem),
        syn::Type::Slice(s) => Ok(Ty::List(Box::new(param_ty(cx, &s.elem)?))),
        t => cx.rust_ty(t),
    }
}

struct HasLoop(bool);
impl<'ast> Visit<'ast> for HasLoop {
    fn visit_expr_loop(&mut self, _: &'ast syn::ExprLoop) {
        self.0 = true;
    }
}

/// a function `fn f(state: &mut S, args…)` returning `()`: `def f [fuel] state args… : S` (`Option S` under fuel)
fn line_fn(out: &mut Out, w: &World, f: &syn::ItemFn, doc_extra: &str) {
    let name = f.sig.ident.to_string();
    let r = (|| -> Result<String, String> {
        let mut cx = Ctx::new(w, None, HashMap::new());
        cx.ext.enabled = true;
        cx.ext.fn_name = ident(&name);
        cx.ext.ns = NS.to_string();
        if !f.sig.generics.params.iter().all(|g| matches!(g, syn::GenericParam::Lifetime(_))) {
            return Err("generic parameter".into());
        }
        if !matches!(f.sig.output, syn::ReturnType::Default) {
            return Err("a line function returns `()`".into());
        }
        let mut binders = String::new();
        let mut first: Option<(String, Ty)> = None;
        for (k, a) in f.sig.inputs.iter().enumerate() {
            let t = match a {
                syn::FnArg::Typed(t) => t,
                _ => return Err("receiver".into()),
            };
            let n = match &*t.pat {
                syn::Pat::Ident(i) => i.ident.to_string(),
                _ => return Err("parameter pattern".into()),
            };
            let ty = param_ty(&cx, &t.ty)?;
            if ty.has_unknown() {
                return Err(format!("parameter `{n}`: type not fully determined"));
            }
            let is_mut = matches!(&*t.ty, syn::Type::Reference(r) if r.mutability.is_some());
            if (k == 0) != is_mut {
                return Err(format!("parameter `{n}`: exactly the first parameter must be `&mut`"));
            }
            if k == 0 {
                first = Some((n.clone(), ty.clone()));
            }
            cx.locals.insert(n.clone(), (ident(&n), ty.clone()));
            binders.push_str(&format!(" ({} : {})", ident(&n), strip_parens(&w.lean_ty(&ty))));
        }
        let (state, st_ty) = first.ok_or("no parameters")?;
        // the `&mut` parameter may only be read / written through its fields (a whole-value use could alias it)
        {
            let mut sc = crate::loops::Scan::default();
            for st in &f.block.stmts {
                sc.visit_stmt(st);
            }
            if sc.whole_uses.contains(&state) {
                return Err(format!("the `&mut` parameter `{state}` is used as a whole value (it could be aliased)"));
            }
        }
        let mut hl = HasLoop(false);
        hl.visit_block(&f.block);
        cx.ext.fueled = hl.0;
        cx.mut_param = Some(state);
        cx.ret = RetMode::MutSelfUnit;
        cx.ret_ty = Ty::Unit;
        // the function returns `()`: every statement, the last included, is in statement position
        let body = cx.seq(&f.block.stmts, false, &[])?;
        let numx = if cx.ext.uses_numx { " [FlexLine.NumX α]" } else { "" };
        let mut text = String::new();
        for a in &cx.ext.aux {
            text.push_str(&a.replace(NUMX_MARK, numx));
        }
        let st_t = strip_parens(&w.lean_ty(&st_ty));
        let (fuel_b, ret_t, fuel_doc) = if hl.0 {
            (" (fuel : Nat)", format!("Option {}", w.lean_ty(&st_ty)), " — its `loop` runs under the iteration bound `fuel` (`none` = not finished within `fuel` iterations; see the auxiliary definitions)")
        } else {
            ("", st_t, "")
        };
        text.push_str(&format!(
            "/-- `{name}`: the `&mut` first parameter is returned updated{fuel_doc}{doc_extra} -/\ndef {} {{α : Type}} [Num α]{numx}{fuel_b}{binders} : {ret_t} :=\n  {}\n\n",
            ident(&name),
            body.render(2, true)
        ));
        Ok(text)
    })();
    match r {
        Ok(t) => {
            out.text.push_str(&t);
            out.translated.push(ident(&name));
        }
        Err(e) => out.errors.push(format!("required function `{name}` is outside the translated fragment: {e}")),
    }
}

pub fn extract(repo: &str, w: &mut World) -> Result<String, String> {
    let env = CfgEnv::default_build();
    let file = parse_file(&format!("{repo}/src/compute/flexbox.rs"))?;
    let f = Ty::F32;
    let of = Ty::opt(Ty::F32);
    let size = |t: &Ty| Ty::adt("Size", vec![t.clone()]);
    let rect = |t: &Ty| Ty::adt("Rect", vec![t.clone()]);
    let point = |t: &Ty| Ty::adt("Point", vec![t.clone()]);
    // Model/Flex.lean `FlexModel.FlexItem`
    register(
        w,
        "FlexItem",
        "FlexModel.FlexItem",
        vec![
            ("node", Ty::Nat),
            ("order", Ty::Nat),
            ("size", size(&of)),
            ("min_size", size(&of)),
            ("max_size", size(&of)),
            ("align_self", Ty::adt("AlignItems", vec![])),
            ("overflow", point(&Ty::adt("Overflow", vec![]))),
            ("scrollbar_width", f.clone()),
            ("flex_shrink", f.clone()),
            ("flex_grow", f.clone()),
            ("resolved_minimum_main_size", f.clone()),
            ("inset", rect(&of)),
            ("margin", rect(&f)),
            ("margin_is_auto", rect(&Ty::Bool)),
            ("padding", rect(&f)),
            ("border", rect(&f)),
            ("flex_basis", f.clone()),
            ("inner_flex_basis", f.clone()),
            ("violation", f.clone()),
            ("frozen", Ty::Bool),
            ("content_flex_fraction", f.clone()),
            ("hypothetical_inner_size", size(&f)),
            ("hypothetical_outer_size", size(&f)),
            ("target_size", size(&f)),
            ("outer_target_size", size(&f)),
            ("baseline", f.clone()),
            ("offset_main", f.clone()),
            ("offset_cross", f.clone()),
        ],
        &[("node", "nodeIdx")],
    );
    // `FlexModel.FlexLineS`
    register(w, "FlexLine", "FlexModel.FlexLineS", vec![("items", Ty::List(Box::new(Ty::adt("FlexItem", vec![])))), ("cross_size", f.clone()), ("offset_cross", f.clone())], &[]);
    // `FlexModel.AlgoConstants`
    register(
        w,
        "AlgoConstants",
        "FlexModel.AlgoConstants",
        vec![
            ("dir", Ty::adt("FlexDirection", vec![])),
            ("is_row", Ty::Bool),
            ("is_column", Ty::Bool),
            ("is_wrap", Ty::Bool),
            ("is_wrap_reverse", Ty::Bool),
            ("min_size", size(&of)),
            ("max_size", size(&of)),
            ("margin", rect(&f)),
            ("border", rect(&f)),
            ("content_box_inset", rect(&f)),
            ("scrollbar_gutter", point(&f)),
            ("gap", size(&f)),
            ("align_items", Ty::adt("AlignItems", vec![])),
            ("align_content", Ty::adt("AlignContent", vec![])),
            ("justify_content", Ty::opt(Ty::adt("AlignContent", vec![]))),
            ("node_outer_size", size(&of)),
            ("node_inner_size", size(&of)),
            ("container_size", size(&f)),
            ("inner_container_size", size(&f)),
        ],
        &[],
    );
    check_struct(w, &file.items, &env, "FlexItem", &[("node", "NodeId")])?;
    check_struct(w, &file.items, &env, "FlexLine", &[("items", "&'amut[FlexItem]")])?;
    check_struct(w, &file.items, &env, "AlgoConstants", &[])?;

    let mut out = Out::new(
        NS,
        "src/compute/flexbox.rs (the per-line functions)",
        &["TaffyVerif.Generated.Prelude", "TaffyVerif.Generated.MaybeMath", "TaffyVerif.Generated.Alignment", "TaffyVerif.Generated.Axes", "TaffyVerif.Generated.Style", "TaffyVerif.Model.Flex"],
    );
    out.comment("`struct FlexItem` / `FlexLine` / `AlgoConstants` of flexbox.rs have been compared with the records `FlexModel.FlexItem` / `FlexLineS` /");
    out.comment("`AlgoConstants` of Model/Flex.lean field by field (`node: NodeId` ↦ `nodeIdx : Nat`, `items: &mut [FlexItem]` ↦ a list).");
    out.comment("Translation scheme (extract/src/loops.rs): a slice is a `List`; `for x in xs.iter_mut() { … }` is `List.map` (the body updates `x`) or");
    out.comment("`List.foldl` (the body updates one outer local); a filtered mutable view `xs.iter_mut().filter(p).collect()` is (xs, p): a loop over it");
    out.comment("updates the elements satisfying `p` and leaves the others; an `if` statement that writes one local is that local's new value;");
    out.comment("`loop { if c { break; } … }` runs under an iteration bound `fuel` (`none` = not finished).");
    out.text.push('\n');
    out.text.push_str(
        "/-- `Iterator::sum::<f32>()` (`impl Sum for f32`): the left fold of `+` from `-0.0` -/\n\
def sum_f32 {α : Type} [Num α] (l : List α) : α := l.foldl (· + ·) (-(0 : α))\n\n\
/-- `v.iter_mut().fold(init, f)` for the view `v = xs.iter_mut().filter(p).collect()`: the elements of `xs` satisfying `p` are visited in\n    order, each is updated in place (`(f acc x).1`) with the accumulator threaded through (`(f acc x).2`); the other elements stay -/\n\
def fold_mut_where {β γ : Type} (p : β → Bool) (f : γ → β → β × γ) : γ → List β → List β × γ\n  | acc, [] => ([], acc)\n  | acc, x :: xs =>\n    if p x then\n      let r := f acc x\n      let rest := fold_mut_where p f r.2 xs\n      (r.1 :: rest.1, rest.2)\n    else\n      let rest := fold_mut_where p f acc xs\n      (x :: rest.1, rest.2)\n\n",
    );
    // `sum_axis_gaps`: `(num_items - 1) as f32` is evaluated only where `num_items > 1`; translated as truncated subtraction
    free_fns(&mut out, w, &file.items, &env, &["sum_axis_gaps"], &["sum_axis_gaps"], &["sum_axis_gaps"])?;
    let mut v = vec![];
    impls(&file.items, &env, &[], &mut v)?;
    for info in &v {
        if info.trait_.is_none() && info.self_ty == "FlexItem" {
            impl_items(&mut out, w, info, &env, "FlexItem", Some(Ty::adt("FlexItem", vec![])), &HashMap::new(), "FlexItem.", REQUIRED, &[])?;
        }
    }
    for name in ["resolve_flexible_lengths", "distribute_remaining_free_space"] {
        match file.items.iter().find_map(|it| match it {
            Item::Fn(f) if f.sig.ident == name => Some(f),
            _ => None,
        }) {
            Some(f) if env.enabled(&f.attrs)? => line_fn(&mut out, w, f, ""),
            _ => out.errors.push(format!("required function `{name}` is missing from the source")),
        }
    }
    // `collect_flex_lines`: re-slices `&mut [FlexItem]` with `split_at_mut` inside `while` loops and searches with a `find` whose closure
    // updates a captured accumulator — outside the fragment (the model is FlexModel.collectFlexLines; tier C compares it)
    out.comment("not translated: collect_flex_lines (`while` over re-borrowed `split_at_mut` slices; a `find` closure that updates a captured local)");
    out.text.push('\n');
    out.finish(REQUIRED)
}
