//! src/compute/grid/types/grid_item.rs  →  Generated/GridItem.lean (namespace `Gen.GridItem`), translated with `slices.rs`;
//! Props/TieGridItem.lean proves the definitions equal to Model/GridItem.lean.
//!
//! `struct GridItem` is compared with the record `GridModel.GItem` field by field: the source's fields (names, order, types) must be the
//! table `FIELDS` below, and the generated `Gen.GridItem.GridItem.ofFields` builds the model record from exactly these fields with these
//! types (a structure instance: Lean rejects a missing, an extra or an ill-typed field).
//! `node: NodeId` ↦ `node : Nat` (the child's index in the container's child list, as for `FlexItem` / `BlockItem`);
//! `OriginZeroLine` ↦ `Int` (as in Generated/GridCoords.lean); `AlignSelf` is the alias of `AlignItems` (checked by alignment.rs).
//! `tree` is used by the pure methods only as the calc resolver (`|val, basis| tree.calc(val, basis)`): not translated.
//! The methods that call the tree are translated in interaction form (`FnOpts::{prog_mode, prog_name, tree_calls, prog_fns}`): programs of
//! `Slice.TreeProg Gen.TrackFns.AbsoluteAxis α` (Model/SliceOps4.lean), one node per `tree.measure_child_size(…)`; Props/TieGridItem2.lean.
use crate::emit::norm;
use crate::gridinit::{impls, Acc};
use crate::lean::{ident, World};
use crate::slices::tracks2::FnOpts;
use crate::slices::{translate_fn, Cx, FnPlan, Reg, SFn, SStruct, T};
use crate::util::{parse_file, CfgEnv};
use std::collections::HashMap;
use syn::{ImplItem, Item};

/// (Rust field, Lean field of `GridModel.GItem`, Rust type)
pub const FIELDS: &[(&str, &str, &str)] = &[
    ("node", "node", "NodeId"),
    ("source_order", "sourceOrder", "u16"),
    ("row", "row", "Line<OriginZeroLine>"),
    ("column", "column", "Line<OriginZeroLine>"),
    ("is_compressible_replaced", "isCompressibleReplaced", "bool"),
    ("overflow", "overflow", "Point<Overflow>"),
    ("box_sizing", "boxSizing", "BoxSizing"),
    ("size", "size", "Size<Dimension>"),
    ("min_size", "minSize", "Size<Dimension>"),
    ("max_size", "maxSize", "Size<Dimension>"),
    ("aspect_ratio", "aspectRatio", "Option<f32>"),
    ("padding", "padding", "Rect<LengthPercentage>"),
    ("border", "border", "Rect<LengthPercentage>"),
    ("margin", "margin", "Rect<LengthPercentageAuto>"),
    ("align_self", "alignSelf", "AlignSelf"),
    ("justify_self", "justifySelf", "AlignSelf"),
    ("baseline", "baseline", "Option<f32>"),
    ("baseline_shim", "baselineShim", "f32"),
    ("row_indexes", "rowIndexes", "Line<u16>"),
    ("column_indexes", "columnIndexes", "Line<u16>"),
    ("crosses_flexible_row", "crossesFlexibleRow", "bool"),
    ("crosses_flexible_column", "crossesFlexibleColumn", "bool"),
    ("crosses_intrinsic_row", "crossesIntrinsicRow", "bool"),
    ("crosses_intrinsic_column", "crossesIntrinsicColumn", "bool"),
    ("available_space_cache", "availableSpaceCache", "Option<Size<Option<f32>>>"),
    ("min_content_contribution_cache", "minContentContributionCache", "Size<Option<f32>>"),
    ("minimum_contribution_cache", "minimumContributionCache", "Size<Option<f32>>"),
    ("max_content_contribution_cache", "maxContentContributionCache", "Size<Option<f32>>"),
    ("y_position", "yPosition", "f32"),
    ("height", "height", "f32"),
];

/// the pure methods, in dependency order (`margins_axis_sums_with_baseline_shims` before its caller `known_dimensions`)
pub const REQUIRED: &[&str] = &[
    "GridItem.ofFields",
    "GridItem.placement",
    "GridItem.placement_indexes",
    "GridItem.track_range_excluding_lines",
    "GridItem.span",
    "GridItem.crosses_flexible_track",
    "GridItem.crosses_intrinsic_track",
    "GridItem.spanned_track_limit",
    "GridItem.spanned_fixed_track_limit",
    "GridItem.margins_axis_sums_with_baseline_shims",
    "GridItem.known_dimensions",
    "GridItem.available_space",
    "GridItem.available_space_cached",
];

/// the methods that call the tree (interaction form)
pub const REQUIRED_PROG: &[&str] = &["GridItem.min_content_contribution", "GridItem.max_content_contribution", "GridItem.min_content_contribution_cached", "GridItem.max_content_contribution_cached", "GridItem.minimum_contribution", "GridItem.minimum_contribution_cached"];

/// attempted; what leaves the fragment is reported in a comment of the generated file
pub const OPTIONAL_PROG: &[&str] = &[];

/// the pure item-level loops of src/compute/grid/track_sizing.rs (translated and tied: Props/TieGridItem3.lean)
pub const ITEM_LOOPS: &[&str] = &["determine_if_item_crosses_flexible_or_intrinsic_tracks"];
/// attempted; what leaves the fragment is reported in a comment of the generated file
pub const ITEM_LOOPS_OPTIONAL: &[&str] = &[];

pub fn extract(repo: &str, w: &World, reg: &mut Reg) -> Result<String, String> {
    let env = CfgEnv::default_build();
    let file = parse_file(&format!("{repo}/src/compute/grid/types/grid_item.rs"))?;
    let mut acc = Acc::new(
        "Gen.GridItem",
        "src/compute/grid/types/grid_item.rs",
        &["TaffyVerif.Generated.TrackSizing3", "TaffyVerif.Generated.GridCoords", "TaffyVerif.Generated.GridAxes", "TaffyVerif.Generated.Resolve", "TaffyVerif.Generated.MaybeMath", "TaffyVerif.Generated.Geometry", "TaffyVerif.Generated.Style", "TaffyVerif.Generated.Flex", "TaffyVerif.Model.SliceOps4"],
        &[
            "`struct GridItem` is `GridModel.GItem` (Model/GridItem.lean): the source's fields are compared with the extractor's table (names, order,",
            "types) and `GridItem.ofFields` builds the model record from exactly these fields (`node: NodeId` ↦ `Nat`, the child's index; `OriginZeroLine`",
            "↦ `Int`; `u16` / `usize` ↦ `Nat`). The pure methods are translated statement by statement (extract/src/slices.rs): `&axis_tracks[range]` is",
            "`Slice.indexRange` (panics out of range: an outcome of `Except GErr`), `a..b` as a value is the pair `(a, b)`, `iter().all(p)` is `List.all`,",
            "`.map(f).sum::<f32>()` is `Slice.sumF32[M]`, `.map(f).sum::<Option<f32>>()` is `Slice.sumOptF32`; `Line<OriginZeroLine>::span` is the translation",
            "in Generated/GridCoords.lean (checked i16 / u16 arithmetic), its outcome carried over into `Except GErr` by `Gen.GridItem.line_span`.",
            "In the pure methods `tree` is used only as the calc resolver and is not translated. The methods that call the tree (`min_content_contribution`,",
            "`max_content_contribution`, their `_cached` forms, `minimum_contribution[_cached]`) are programs of `Slice.TreeProg AbsoluteAxis α`",
            "(Model/SliceOps4.lean): one node per `tree.measure_child_size(…)` call with exactly the source's arguments, in the Rust order; a `&mut self`",
            "method answers `(self, value)`; `o.unwrap_or_else(|| { …; v })` is `match o with | some v => v | none => (…; v)` (the closure's assignments to",
            "`self` — the cache fields — happen in the `none` arm only); `o.or_else(|| e)` is `if o.isSome then o else e`.",
            "`determine_if_item_crosses_flexible_or_intrinsic_tracks` (track_sizing.rs): `for item in items` is `List.mapM` over the items,",
            "`range.any(|i| columns[i].p())` is `Slice.rangeAnyM` (front to back, stops at the first `true`; `columns[i]` is `Slice.index`, panics out of range).",
        ],
    );
    // ---- the struct
    reg.aliases.insert("NodeId".into(), "usize".into());
    // `pub type AlignSelf = AlignItems;` (compared with the source by alignment.rs)
    match w.aliases.get("AlignSelf") {
        Some(t) if t == "AlignItems" => {
            reg.aliases.insert("AlignSelf".into(), "AlignItems".into());
        }
        _ => return Err("the alias `AlignSelf = AlignItems` is not registered".into()),
    }
    reg.structs.push(SStruct { rust: "OriginZeroLine".into(), lean: "Int".into(), alpha: false, fields: vec![] });
    let s = file.items.iter().find_map(|i| match i {
        Item::Struct(s) if s.ident == "GridItem" => Some(s),
        _ => None,
    });
    let s = match s {
        Some(s) => s,
        None => return Err("definition of struct GridItem not found".into()),
    };
    let mut got: Vec<(String, String)> = vec![];
    for f in &s.fields {
        if env.enabled(&f.attrs)? {
            got.push((f.ident.as_ref().map(|i| i.to_string()).unwrap_or_default(), norm(&f.ty)));
        }
    }
    let want: Vec<(String, String)> = FIELDS.iter().map(|(r, _, t)| (r.to_string(), t.to_string())).collect();
    if got != want {
        let diff: Vec<String> = got.iter().filter(|g| !want.contains(g)).map(|g| format!("{}: {}", g.0, g.1)).chain(want.iter().filter(|g| !got.contains(g)).map(|g| format!("(model) {}: {}", g.0, g.1))).collect();
        return Err(format!("struct GridItem changed: the source's fields differ from the record GridModel.GItem (names, order or types): {}", diff.join("; ")));
    }
    let fields: Vec<(String, String, T)> = {
        let cx = Cx::new(w, reg, None, HashMap::new());
        let mut v = vec![];
        for (f, (r, l, _)) in s.fields.iter().filter(|f| env.enabled(&f.attrs).unwrap_or(false)).zip(FIELDS) {
            v.push((r.to_string(), l.to_string(), cx.rust_ty(&f.ty).map_err(|e| format!("field {r} of GridItem: {e}"))?));
        }
        v
    };
    reg.structs.push(SStruct { rust: "GridItem".into(), lean: "GridModel.GItem".into(), alpha: true, fields: fields.clone() });
    {
        let cx = Cx::new(w, reg, None, HashMap::new());
        let mut t = String::from("/-- `struct GridItem { … }`: the record of Model/GridItem.lean built from the source's fields (in the source's order) -/\ndef Gen.GridItem.GridItem.ofFields {α : Type} [Num α]");
        for (r, _, ty) in &fields {
            t.push_str(&format!(" ({} : {})", ident(r), crate::emit::strip_parens(&cx.env.lean_ty(ty))));
        }
        t.push_str(" : GridModel.GItem α :=\n  { ");
        t.push_str(&fields.iter().map(|(r, l, _)| format!("{l} := {}", ident(r))).collect::<Vec<_>>().join(", "));
        t.push_str(" }\n\n");
        acc.text.push_str(&t);
        acc.translated.push("GridItem.ofFields".into());
    }
    // ---- `Line<OriginZeroLine>::span`: Generated/GridCoords.lean
    acc.text.push_str("/-- `Line<OriginZeroLine>::span` as translated in Generated/GridCoords.lean (checked `i16` subtraction, `max(…, 0) as u16`); every\noutcome but `ok` is a panic of the implementation -/\ndef Gen.GridItem.line_span (l : Line Int) : Except GridTracks.GErr Nat :=\n  match Gen.Grid.Line_OriginZeroLine.span l with\n  | .ok v => .ok v.toNat\n  | _ => .error .overflow\n\n");
    let ozl = T::Adt("Line".into(), vec![T::adt("OriginZeroLine")]);
    reg.add_fn("Line", "span", SFn { lean: "Gen.GridItem.line_span".into(), self_ty: Some(ozl), params: vec![], ret: T::U16, eff: true, muts: vec![], dropped: 0, dropped_pos: vec![], alpha: false, numcast: false });
    // `Size::ZERO` / `Size::NONE` as translated in Generated/Geometry.lean; `Size::set(&mut self, axis, value)` as translated in
    // Generated/GridAxes.lean (it answers the updated size)
    reg.consts.insert(("Size".to_string(), "ZERO".to_string()), ("Gen.Geometry.Size.ZERO".to_string(), T::Adt("Size".into(), vec![T::F32])));
    reg.consts.insert(("Size".to_string(), "NONE".to_string()), ("Gen.Geometry.Size.NONE".to_string(), T::Adt("Size".into(), vec![T::opt(T::F32)])));
    reg.consts.insert(("Line".to_string(), "FALSE".to_string()), ("Gen.Geometry.Line.FALSE".to_string(), T::Adt("Line".into(), vec![T::Bool])));
    let tv = T::Var("T".into());
    reg.add_fn("Size", "set", SFn { lean: "Gen.GridAxes.Size.set".into(), self_ty: Some(T::Adt("Size".into(), vec![tv.clone()])), params: vec![T::adt("AbstractAxis"), tv], ret: T::Unit, eff: false, muts: vec![0], dropped: 0, dropped_pos: vec![], alpha: false, numcast: false });
    // `LengthPercentageAuto::is_auto`: generated (and compared with the source) by flexmod.rs in Generated/Flex.lean
    reg.add_fn("LengthPercentageAuto", "is_auto", SFn { lean: "Gen.Flex.Dimension.is_auto".into(), self_ty: Some(T::adt("LengthPercentageAuto")), params: vec![], ret: T::Bool, eff: false, muts: vec![], dropped: 0, dropped_pos: vec![], alpha: true, numcast: false });
    // ---- the methods
    let no = HashMap::new();
    let mut found: HashMap<String, &syn::ImplItemFn> = HashMap::new();
    for (st, tr, its) in impls(&file.items, &env)? {
        if st != "GridItem" || tr.is_some() {
            continue;
        }
        for ii in its {
            if let ImplItem::Fn(f) = ii {
                if env.enabled(&f.attrs)? {
                    found.insert(f.sig.ident.to_string(), f);
                }
            }
        }
    }
    for rel in REQUIRED.iter().skip(1) {
        let name = rel.trim_start_matches("GridItem.");
        match found.get(name) {
            Some(f) => acc.function(w, reg, "GridItem", rel, Some(T::adt("GridItem")), &no, &f.sig, &f.block, true),
            None => acc.errors.push(format!("required function `{rel}` is missing from the source")),
        }
    }
    // ---- `AbstractAxis::as_abs_naive` (src/geometry.rs; `AbsoluteAxis` is generated in Generated/TrackFns.lean)
    let geo = parse_file(&format!("{repo}/src/geometry.rs"))?;
    let mut seen = false;
    for (st, tr, its) in impls(&geo.items, &env)? {
        if st != "AbstractAxis" || tr.is_some() {
            continue;
        }
        for ii in its {
            if let ImplItem::Fn(f) = ii {
                if f.sig.ident == "as_abs_naive" && env.enabled(&f.attrs)? {
                    acc.function(w, reg, "AbstractAxis", "AbstractAxis.as_abs_naive", Some(T::adt("AbstractAxis")), &no, &f.sig, &f.block, true);
                    seen = true;
                }
            }
        }
    }
    if !seen {
        acc.errors.push("required function `AbstractAxis.as_abs_naive` is missing from the source".into());
    }
    // ---- the methods that call the tree, in interaction form: programs of `Slice.TreeProg Gen.TrackFns.AbsoluteAxis α` (Model/SliceOps4.lean), one node
    // per `tree.measure_child_size(…)` call with exactly the arguments the source passes
    for rel in REQUIRED_PROG.iter().chain(OPTIONAL_PROG.iter()) {
        let required = REQUIRED_PROG.contains(rel);
        let name = rel.trim_start_matches("GridItem.");
        let f = match found.get(name) {
            Some(f) => f,
            None => {
                acc.errors.push(format!("required function `{rel}` is missing from the source"));
                continue;
            }
        };
        let opts = FnOpts {
            prog_mode: true,
            prog_name: Some(("Slice.TreeProg Gen.TrackFns.AbsoluteAxis".to_string(), "Slice.TreeProg".to_string())),
            tree_calls: vec![("measure_child_size".to_string(), "Slice.TreeProg.measure_child_size".to_string())],
            prog_fns: ["min_content_contribution", "max_content_contribution", "min_content_contribution_cached", "max_content_contribution_cached", "minimum_contribution"].iter().map(|n| format!("Gen.GridItem.GridItem.{n}")).collect(),
            ..Default::default()
        };
        let plan = FnPlan { head: "GridItem".into(), rust_name: name.to_string(), lean_name: format!("{}.{rel}", acc.ns), self_ty: Some(T::adt("GridItem")), generics: no.clone(), sig: &f.sig, block: &f.block, doc: None, ext_ret: false, loop_fuel: None, opts };
        match translate_fn(w, reg, &plan) {
            Ok((text, sfn)) => {
                acc.text.push_str(&text);
                acc.translated.push(rel.to_string());
                reg.add_fn("GridItem", name, sfn);
            }
            Err(e) => acc.fail(rel, required, e),
        }
    }
    // ---- track_sizing.rs: the pure item-level loops
    let ts = parse_file(&format!("{repo}/src/compute/grid/track_sizing.rs"))?;
    for name in ITEM_LOOPS_OPTIONAL.iter().chain(ITEM_LOOPS.iter()) {
        let req = ITEM_LOOPS.contains(name);
        let f = ts.items.iter().find_map(|it| match it {
            Item::Fn(f) if f.sig.ident == name && env.enabled(&f.attrs).unwrap_or(false) => Some(f),
            _ => None,
        });
        match f {
            Some(f) => acc.function(w, reg, "", &ident(name), None, &no, &f.sig, &f.block, req),
            None => acc.fail(name, req, "not found in the source".into()),
        }
    }
    let all: Vec<&str> = REQUIRED.iter().chain(REQUIRED_PROG.iter()).chain(["AbstractAxis.as_abs_naive"].iter()).chain(ITEM_LOOPS.iter()).cloned().collect();
    acc.finish(&all)
}
