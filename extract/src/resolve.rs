//! src/util/resolve.rs  →  Generated/Resolve.lean
//! `LengthPercentage` / `LengthPercentageAuto` / `Dimension` are translated against the abstract inductives `LP` / `LPA`
//! (C18 proves that the packed representation round-trips to them): the shape
//! `match self.0.tag() { CompactLength::LENGTH_TAG => …, PERCENT_TAG => …, AUTO_TAG => …, _ if self.0.is_calc() => …, _ => unreachable!() }`
//! becomes a `match` on the constructor, `self.0.value()` the payload; the calc arm is dropped (calc() is not modelled).
use crate::emit::{impl_items, impls, Out};
use crate::lean::{Ty, World};
use crate::util::{parse_file, CfgEnv};
use std::collections::HashMap;

const LENS: &[&str] = &["LengthPercentage", "LengthPercentageAuto", "Dimension"];

pub fn required() -> Vec<String> {
    let mut v = vec![];
    for l in LENS {
        v.push(format!("{l}.maybe_resolve"));
        v.push(format!("{l}.resolve_or_zero"));
    }
    v
}

pub fn extract(repo: &str, w: &mut World) -> Result<String, String> {
    let file = parse_file(&format!("{repo}/src/util/resolve.rs"))?;
    let env = CfgEnv::default_build();
    let req = required();
    let req_refs: Vec<&str> = req.iter().map(|s| s.as_str()).collect();
    let mut out = Out::new("Gen.Resolve", "src/util/resolve.rs", &["TaffyVerif.Model.Style", "TaffyVerif.Generated.Prelude"]);
    out.comment("TaffyVerif.Model.Style is imported for the TYPES `LP` (LengthPercentage) and `LPA` (LengthPercentageAuto, Dimension) only.");
    out.comment("Tags ↦ constructors: LENGTH_TAG ↦ .length v, PERCENT_TAG ↦ .percent v, AUTO_TAG ↦ .auto; `self.0.value()` ↦ v (justified by C18).");
    out.comment("The `calc` argument and the `_ if self.0.is_calc()` arm are not translated: calc() is not modelled.");
    out.text.push('\n');
    let f = Ty::F32;
    let o = Ty::opt(Ty::F32);
    let mut v = vec![];
    impls(&file.items, &env, &[], &mut v)?;
    let no = HashMap::new();
    // 1. the three concrete `MaybeResolve<Option<f32>, Option<f32>>` impls
    for info in &v {
        if info.trait_.as_deref() == Some("MaybeResolve<Option<f32>,Option<f32>>") && LENS.contains(&info.self_ty.as_str()) {
            let n = info.self_ty.as_str();
            impl_items(&mut out, w, info, &env, n, Some(Ty::adt(n, vec![])), &no, &format!("{n}."), &req_refs, &[])?;
        }
    }
    // 2. the blanket impl for an `f32` context, instantiated at the three
    for info in &v {
        if info.trait_.as_deref() == Some("MaybeResolve<f32,Option<f32>>") && info.self_ty == "T" {
            for n in LENS {
                let g: HashMap<String, Ty> = [("T".to_string(), Ty::adt(n, vec![]))].into_iter().collect();
                impl_items(&mut out, w, info, &env, n, Some(Ty::adt(n, vec![])), &g, &format!("{n}.f32_"), &[], &[])?;
            }
        }
    }
    // 3. `ResolveOrZero<Option<f32>, f32>`
    for info in &v {
        if info.trait_.as_deref() == Some("ResolveOrZero<Option<f32>,f32>") && LENS.contains(&info.self_ty.as_str()) {
            let n = info.self_ty.as_str();
            impl_items(&mut out, w, info, &env, n, Some(Ty::adt(n, vec![])), &no, &format!("{n}."), &req_refs, &[])?;
        }
    }
    // 4. the generic container impls, instantiated at the three lengths with an `Option<f32>` context per axis
    out.comment("generic `Size<T>` / `Rect<T>` impls, instantiated at T = each length type, In = Option<f32>");
    out.text.push('\n');
    for info in &v {
        let tr = info.trait_.as_deref().unwrap_or("");
        for n in LENS {
            let t = Ty::adt(n, vec![]);
            let mut g: HashMap<String, Ty> = [("T".to_string(), t.clone()), ("In".to_string(), o.clone())].into_iter().collect();
            match (info.self_ty.as_str(), tr) {
                ("Size<T>", "MaybeResolve<Size<In>,Size<Out>>") => {
                    g.insert("Out".into(), o.clone());
                    impl_items(&mut out, w, info, &env, "Size", Some(Ty::adt("Size", vec![t.clone()])), &g, &format!("Size_{n}."), &[], &[])?;
                }
                ("Size<T>", "ResolveOrZero<Size<In>,Size<Out>>") => {
                    g.insert("Out".into(), f.clone());
                    impl_items(&mut out, w, info, &env, "Size", Some(Ty::adt("Size", vec![t.clone()])), &g, &format!("Size_{n}."), &[], &[])?;
                }
                ("Rect<T>", "ResolveOrZero<Size<In>,Rect<Out>>") => {
                    g.insert("Out".into(), f.clone());
                    impl_items(&mut out, w, info, &env, "Rect", Some(Ty::adt("Rect", vec![t.clone()])), &g, &format!("Rect_{n}.size_"), &[], &[])?;
                }
                ("Rect<T>", "ResolveOrZero<Option<f32>,Rect<Out>>") => {
                    g.insert("Out".into(), f.clone());
                    impl_items(&mut out, w, info, &env, "Rect", Some(Ty::adt("Rect", vec![t.clone()])), &g, &format!("Rect_{n}.opt_"), &[], &[])?;
                }
                _ => {}
            }
        }
    }
    out.finish(&req_refs)
}
