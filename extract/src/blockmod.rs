//! src/compute/block.rs  →  Generated/Block.lean
//!
//! The functions of block.rs reach the tree through trait methods and loop over the item list; they are translated into
//! interaction programs over `Gen.Tree.Prog α Nat` (Generated/Tree.lean; `NodeId` is the child's index in the container's child
//! list, as in `Model/Block.lean`). `struct BlockItem` is compared with the record `BlockModel.BlockItem` field by field.
//!
//! Statement fragment added here (opt-in through `Ctx::ext.block`; the output of every other module is unchanged):
//!
//! * `for x in PLACE.iter_mut() { body }` / `for x in PLACE.iter()[.filter(|x| p)] { body }` whose body performs interactions:
//!   the body is a program-valued step function of (the tuple of the outer locals the body assigns, the element),
//!   `fun acc x => let a := acc.1 …; body; ret (x, (a, …))` (`ret (a, …)` when the element is not written); the loop is
//!   `Gen.Block.for_mut step (a, …) PLACE` (answers the updated list and the final tuple) resp. `Gen.Block.for_fold step (a, …) PLACE`,
//!   both defined in the generated file by recursion over the list: the step on the head, then the loop on the tail.
//!   `.filter(|x| p)`: the step is `if p then body else ret acc`. `continue;` is the step's final `ret`.
//! * an `if` / `match` STATEMENT without interactions and exits that assigns the outer locals `a, b, …` is the value of that tuple:
//!   `let r := if c then (A; (a, b)) else (B; (a, b)); let a := r.1; let b := r.2` followed once by the rest
//!   (stmt.rs alone would copy the rest of the block into every branch).
//! * a function whose `items: &mut [BlockItem]` parameter is updated answers `(items, result)`.
//! * `for i in 0..n` is the same loop over `List.range n`.
//! * the pure reads of the tree (`get_block_child_style`, `get_block_container_style`, `child_count`, `child_ids`, `get_child_id`) are
//!   leading function parameters of the generated definition (Model/Block.lean takes the container's style and the list of child styles).
//! * `let PAT = f(tree, args…)` / `let x = … f(tree, args…) …` / a tail call, with `f` a function of this file already translated:
//!   `bind (f args) (fun r => …)` (the call is bound first: its other operands are pure; a `&mut items` argument is reassigned from the
//!   answer); `let x = opt.unwrap_or_else(|| { …tree… })` binds `match opt with | some v => ret v | none => <closure body>`.
//! * iterator chains over lists (`map filter enumerate all fold collect`, closures with tuple patterns), `x.is_none() || … x.unwrap() …`
//!   as a `match` on `x`, `T { f: v, ..base }`, `<position> as u32` (the identity, stated: `Gen.Block.as_u32`),
//!   `if let (p, q) = (a, b) { A } else { B }` as the multi-discriminant `match a, b with | p, q => A | _, _ => B`.
use crate::emit::{norm, strip_parens, Out, ProgPlan};
use crate::expr::{Ctx, Frame, RetMode, R};
use crate::lean::{ident, FnSig, Ty, World, L};
use crate::loops::Scan;
use crate::util::{parse_file, CfgEnv};
use std::collections::HashMap;
use syn::visit::Visit;
use syn::{Expr, Item, Pat, Stmt};

pub const NS: &str = "Gen.Block";

fn strip(e: &Expr) -> &Expr {
    match e {
        Expr::Paren(p) => strip(&p.expr),
        Expr::Group(g) => strip(&g.expr),
        Expr::Reference(r) => strip(&r.expr),
        _ => e,
    }
}

fn lets(binds: Vec<(String, L)>, mut body: L) -> L {
    for (p, v) in binds.into_iter().rev() {
        body = L::Let(p, Box::new(v), Box::new(body));
    }
    body
}

/// `k`-th component of a right-nested `n`-tuple bound to `r`
fn proj(r: &str, k: usize, n: usize) -> L {
    if n == 1 {
        return L::A(r.to_string());
    }
    let mut s = String::new();
    for _ in 0..k {
        s.push_str("2.");
    }
    if k + 1 < n {
        s.push('1');
    } else {
        s.pop();
    }
    L::Field(Box::new(L::A(r.to_string())), s)
}

/// does `e` perform an interaction (a method call on the tree other than the calc resolver, or a call of a function translated
/// in interaction form, recognised by the tree being its first argument)?
struct Interacts<'x> {
    tree: &'x str,
    found: bool,
}
impl<'ast, 'x> Visit<'ast> for Interacts<'x> {
    fn visit_expr_method_call(&mut self, m: &'ast syn::ExprMethodCall) {
        if let Expr::Path(p) = strip(&m.receiver) {
            if p.path.is_ident(self.tree) && m.method != "calc" && !is_pure_read(&m.method.to_string()) {
                self.found = true;
            }
        }
        syn::visit::visit_expr_method_call(self, m);
    }
    fn visit_expr_call(&mut self, c: &'ast syn::ExprCall) {
        if let Some(Expr::Path(p)) = c.args.first().map(strip) {
            if p.path.is_ident(self.tree) {
                self.found = true;
            }
        }
        syn::visit::visit_expr_call(self, c);
    }
}

/// the iterable of a `for`: (place, mutable, filter closure)
fn iterable(e: &Expr) -> R<(&Expr, bool, Option<&syn::ExprClosure>)> {
    match e {
        Expr::Paren(p) => iterable(&p.expr),
        // flexprog.rs: `.rev()` is peeled off by `iterable_rev`

        Expr::MethodCall(m) if m.method == "iter_mut" && m.args.is_empty() => Ok((&m.receiver, true, None)),
        Expr::MethodCall(m) if m.method == "iter" && m.args.is_empty() => Ok((&m.receiver, false, None)),
        Expr::MethodCall(m) if m.method == "filter" && m.args.len() == 1 => {
            let (p, mutable, f) = iterable(&m.receiver)?;
            if f.is_some() || mutable {
                return Err("`for` over a doubly filtered / mutable filtered iterator".into());
            }
            match &m.args[0] {
                Expr::Closure(c) if c.inputs.len() == 1 => Ok((p, false, Some(c))),
                _ => Err("`filter` argument is not a one-parameter closure literal".into()),
            }
        }
        _ => Err(format!("`for` over `{}` (only `P.iter_mut()`, `P.iter()`, `P.iter().filter(|x| p)` are in the fragment)", quote::quote!(#e))),
    }
}

/// `P.iter_mut().rev()` / `P.iter().rev()`: the same loop over the reversed list (the updated list is reversed back)
fn iterable_rev(e: &Expr) -> (&Expr, bool) {
    match e {
        Expr::Paren(p) => iterable_rev(&p.expr),
        Expr::MethodCall(m) if m.method == "rev" && m.args.is_empty() => (&m.receiver, true),
        _ => (e, false),
    }
}

fn closure_param(c: &syn::ExprClosure) -> R<String> {
    let mut p = &c.inputs[0];
    loop {
        match p {
            Pat::Type(pt) => p = &pt.pat,
            Pat::Reference(r) => p = &r.pat,
            Pat::Paren(x) => p = &x.pat,
            _ => break,
        }
    }
    match p {
        Pat::Ident(i) if i.subpat.is_none() => Ok(i.ident.to_string()),
        _ => Err("closure parameter pattern".into()),
    }
}

/// the methods of `LayoutBlockContainer` / `TraversePartialTree` that only read the tree: (name, parameter types, result type)
fn pure_reads() -> Vec<(&'static str, Vec<Ty>, Ty)> {
    let style = Ty::adt("Style", vec![]);
    vec![
        ("get_block_child_style", vec![Ty::Nat], style.clone()),
        ("get_block_container_style", vec![Ty::Nat], style),
        ("child_count", vec![Ty::Nat], Ty::Nat),
        ("child_ids", vec![Ty::Nat], Ty::List(Box::new(Ty::Nat))),
        ("get_child_id", vec![Ty::Nat, Ty::Nat], Ty::Nat),
        // flexprog.rs: the pure reads of `LayoutFlexboxContainer`
        ("get_flexbox_child_style", vec![Ty::Nat], Ty::adt("Style", vec![])),
        ("get_flexbox_container_style", vec![Ty::Nat], Ty::adt("Style", vec![])),
    ]
}
pub fn is_pure_read(name: &str) -> bool {
    pure_reads().iter().any(|r| r.0 == name)
}

/// `if let (p, q) = (a, b) { A } [else { B }]`  ⇒  `match (a, b) { (p, q) => A, _ => B }`
fn if_let_as_match(e: &Expr) -> R<Option<Expr>> {
    if let Expr::If(i) = e {
        if let Expr::Let(l) = &*i.cond {
            if matches!(&*l.pat, Pat::Tuple(_)) && matches!(&*l.expr, Expr::Tuple(_)) {
                let (pat, scrut, then) = (&l.pat, &l.expr, &i.then_branch);
                let els = match &i.else_branch {
                    Some((_, eb)) => quote::quote!(#eb),
                    None => quote::quote!({}),
                };
                return syn::parse2(quote::quote!(match #scrut { #pat => #then, _ => #els })).map(Some).map_err(|e| e.to_string());
            }
        }
    }
    Ok(None)
}

impl<'a> Ctx<'a> {
    /// `tree.get_block_child_style(id)` … : the read is a function parameter of the generated definition
    pub(crate) fn block_tree_read(&mut self, m: &syn::ExprMethodCall) -> R<Option<(L, Ty)>> {
        if !self.ext.block {
            return Ok(None);
        }
        let name = m.method.to_string();
        let (_, ptys, ret) = match pure_reads().into_iter().find(|r| r.0 == name) {
            Some(r) => r,
            None => return Ok(None),
        };
        if ptys.len() != m.args.len() {
            return Err(format!("arity mismatch calling the tree's `{name}`"));
        }
        let mut ls = vec![];
        for (a, pt) in m.args.iter().zip(&ptys) {
            let (l, t) = self.expr(a, pt)?;
            if !pt.compatible(&t) {
                return Err(format!("argument of type {:?} where the tree's `{name}` expects {:?}", t, pt));
            }
            ls.push(l);
        }
        if !self.ext.reads_used.contains(&name) {
            self.ext.reads_used.push(name.clone());
        }
        Ok(Some((L::App(ident(&name), ls), ret)))
    }

    /// iterator chains over lists: an iterator is the list of its items; `map` / `filter` / `all` take closure literals whose parameters may
    /// be tuple patterns, `enumerate` pairs every item with its position (`Gen.Block.enumerate`), `iter` / `collect` are the identity
    pub(crate) fn block_method(&mut self, m: &syn::ExprMethodCall, _expect: &Ty) -> R<Option<(L, Ty)>> {
        if !self.ext.block {
            return Ok(None);
        }
        let name = m.method.to_string();
        // flexprog.rs: `x.into()` for `x: f32` at an expected `Option<f32>` (`impl From<T> for Option<T>`: `some`) or `AvailableSpace`
        // (`impl From<f32> for AvailableSpace`, translated in Generated/AvailableSpace.lean)
        if name == "into" && m.args.is_empty() {
            let want_opt = matches!(_expect, Ty::Opt(t) if **t == Ty::F32);
            let want_av = matches!(_expect, Ty::Adt(n, _) if n == "AvailableSpace");
            if want_opt || want_av {
                let (recv, rt) = self.expr(&m.receiver, &Ty::F32)?;
                if rt == Ty::F32 {
                    if want_opt {
                        return Ok(Some((L::app("some", vec![recv]), Ty::opt(Ty::F32))));
                    }
                    if let Some(sig) = self.w.fns.get(&("AvailableSpace".to_string(), "from".to_string())).and_then(|v| v.iter().find(|s| s.params.len() == 1 && s.params[0].1 == Ty::F32)).cloned() {
                        return Ok(Some((L::App(sig.lean.clone(), vec![recv]), Ty::adt("AvailableSpace", vec![]))));
                    }
                }
            }
            return Ok(None);
        }
        if !["map", "filter", "all", "enumerate", "collect", "iter", "fold", "len", "skip_while", "count"].contains(&name.as_str()) {
            return Ok(None);
        }
        let (recv, rt) = self.expr(&m.receiver, &Ty::Unknown)?;
        let t = match &rt {
            Ty::List(t) => (**t).clone(),
            _ => return Ok(None),
        };
        let args: Vec<&Expr> = m.args.iter().collect();
        match (name.as_str(), args.len()) {
            ("iter", 0) | ("collect", 0) => Ok(Some((recv, rt.clone()))),
            ("len", 0) | ("count", 0) => Ok(Some((L::app("List.length", vec![recv]), Ty::Nat))),
            ("skip_while", 1) => {
                let (f, ft) = self.closure_pat(args[0], &[t], &Ty::Bool)?;
                if ft != Ty::Bool {
                    return Err("`skip_while` closure does not return bool".into());
                }
                Ok(Some((L::app("List.dropWhile", vec![f, recv]), rt.clone())))
            }
            ("enumerate", 0) => Ok(Some((L::app(&format!("{NS}.enumerate"), vec![recv]), Ty::List(Box::new(Ty::Tuple(vec![Ty::Nat, t])))))),
            ("map", 1) => {
                let (f, ft) = self.closure_pat(args[0], &[t], &Ty::Unknown)?;
                if ft.has_unknown() {
                    return Err("`map`: the type of the closure's result is not determined".into());
                }
                Ok(Some((L::app("List.map", vec![f, recv]), Ty::List(Box::new(ft)))))
            }
            ("filter", 1) => {
                let (f, ft) = self.closure_pat(args[0], &[t], &Ty::Bool)?;
                if ft != Ty::Bool {
                    return Err("`filter` closure does not return bool".into());
                }
                Ok(Some((L::app("List.filter", vec![f, recv]), rt.clone())))
            }
            // `.fold(init, f)`: `f` a closure literal or the name of a translated free function
            ("fold", 2) => {
                let (init, it) = self.expr(args[0], &Ty::Unknown)?;
                if it.has_unknown() {
                    return Err("`fold`: the type of the initial value is not determined".into());
                }
                let named = match strip(args[1]) {
                    Expr::Path(p) => p.path.get_ident().and_then(|i| self.w.fns.get(&(String::new(), i.to_string()))).and_then(|v| {
                        v.iter().find(|s| !s.prog && s.self_ty.is_none() && s.dropped == 0 && s.params.len() == 2 && s.params[0].1.compatible(&it) && s.params[1].1.compatible(&t) && s.ret.compatible(&it)).cloned()
                    }),
                    _ => None,
                };
                let f = match named {
                    Some(sig) => L::A(sig.lean),
                    None => {
                        let (f, ft) = self.closure_pat(args[1], &[it.clone(), t], &it)?;
                        if !it.compatible(&ft) {
                            return Err(format!("`fold` closure returns {:?}, the accumulator has type {:?}", ft, it));
                        }
                        f
                    }
                };
                Ok(Some((L::app("List.foldl", vec![f, init, recv]), it)))
            }
            ("all", 1) => {
                let (f, ft) = self.closure_pat(args[0], &[t], &Ty::Bool)?;
                if ft != Ty::Bool {
                    return Err("`all` closure does not return bool".into());
                }
                Ok(Some((L::app("List.all", vec![recv, f]), Ty::Bool)))
            }
            _ => Ok(None),
        }
    }

    /// `R.is_none() || … R.unwrap() …`  ⇒  `match R with | none => true | some v => … v …` (the short-circuit guards the `unwrap`)
    pub(crate) fn block_guarded_unwrap(&mut self, b: &syn::ExprBinary) -> R<Option<(L, Ty)>> {
        if !self.ext.block || !matches!(b.op, syn::BinOp::Or(_)) {
            return Ok(None);
        }
        let recv = match strip(&b.left) {
            Expr::MethodCall(m) if m.method == "is_none" && m.args.is_empty() => &*m.receiver,
            _ => return Ok(None),
        };
        // every `R.unwrap()` of the right operand (R compared by tokens) becomes the variable bound by the `some` arm
        let rt = &b.right;
        let right_src = quote::quote!(#rt).to_string();
        let needle = format!("{} . unwrap ()", quote::quote!(#recv));
        if !right_src.contains(&needle) {
            return Ok(None);
        }
        let right: Expr = syn::parse_str(&right_src.replace(&needle, "__uw")).map_err(|e| e.to_string())?;
        let (o, ot) = self.expr(recv, &Ty::Unknown)?;
        let t = match ot {
            Ty::Opt(t) => *t,
            _ => return Ok(None),
        };
        let saved = self.locals.clone();
        let v = self.fresh_name("uw");
        self.locals.insert("__uw".into(), (v.clone(), t));
        let r = self.expr(&right, &Ty::Bool);
        self.locals = saved;
        let (r, rt) = r?;
        if rt != Ty::Bool {
            return Err("`||` on a non-bool".into());
        }
        Ok(Some((L::Match(vec![o], vec![(vec!["none".into()], L::a("true")), (vec![format!("some {v}")], r)]), Ty::Bool)))
    }

    fn interacts(&self, e: &Expr) -> bool {
        let tree = match self.prog.as_ref().and_then(|p| p.tree_param.clone()) {
            Some(t) => t,
            None => return false,
        };
        let mut v = Interacts { tree: &tree, found: false };
        v.visit_expr(e);
        v.found
    }

    /// the statement forms of this fragment; `None`: not one of them (stmt.rs continues)
    pub(crate) fn block_stmt(&mut self, e: &Expr, conts: &[Frame]) -> R<Option<L>> {
        if !self.ext.block {
            return Ok(None);
        }
        match e {
            Expr::ForLoop(f) => self.prog_for(f, conts).map(Some),
            Expr::Continue(c) if c.label.is_none() => {
                let tail = self.ext.loop_tail.clone().ok_or("`continue` outside a translated `for`")?;
                let st = [Stmt::Expr(tail, None)];
                let saved = self.locals.clone();
                let r = self.seq(&st, true, &[]);
                self.locals = saved;
                r.map(Some)
            }
            // flexprog.rs: `local.m(args);` for a translated `&mut self` method returning `()` (the statement form of loops.rs)
            Expr::MethodCall(m) if !self.is_tree_expr(&m.receiver) && !self.interacts(e) => match self.method_stmt(m, conts) {
                Ok(l) => Ok(Some(l)),
                Err(_) => Ok(None),
            },
            Expr::If(_) | Expr::Match(_) => {
                if let Some(l) = self.join_stmt(e, conts)? {
                    return Ok(Some(l));
                }
                // not joined (it has an exit or talks to the tree): `if let (p, q) = (a, b) { A } [else { B }]` is still translated as the
                // multi-discriminant `match a, b with | p, q => A | _, _ => B`
                if let Some(m) = if_let_as_match(e)? {
                    self.ext.no_join = true;
                    let r = self.stmt_expr(&m, conts);
                    self.ext.no_join = false;
                    return r.map(Some);
                }
                Ok(None)
            }
            _ => Ok(None),
        }
    }

    /// `f(tree, args…)` with `f` a function of this file already translated in interaction form
    pub(crate) fn block_prog_call<'e>(&self, e: &'e Expr) -> Option<(&'e syn::ExprCall, FnSig)> {
        if !self.ext.block || self.prog.is_none() {
            return None;
        }
        let c = match strip(e) {
            Expr::Call(c) => c,
            _ => return None,
        };
        let name = match &*c.func {
            Expr::Path(p) => p.path.get_ident()?.to_string(),
            _ => return None,
        };
        if !c.args.first().map(|a| self.is_tree_expr(a)).unwrap_or(false) {
            return None;
        }
        let sig = self.w.fns.get(&(String::new(), name))?.iter().find(|s| s.prog)?.clone();
        Some((c, sig))
    }

    /// the call as a program: (term, result type, the `&mut` place that the call updates)
    fn prog_call_term<'e>(&mut self, c: &'e syn::ExprCall, sig: &FnSig) -> R<(L, Ty, Option<&'e Expr>)> {
        let mut ls = vec![];
        let mut args = c.args.iter().skip(1);
        let mut mut_place = None;
        for (pn, pt) in &sig.params {
            if is_pure_read(pn) && matches!(pt, Ty::Fn(..)) {
                if !self.ext.reads_used.contains(pn) {
                    self.ext.reads_used.push(pn.clone());
                }
                ls.push(L::A(ident(pn)));
                continue;
            }
            let a = args.next().ok_or(format!("arity mismatch calling `{}`", sig.lean))?;
            if let Expr::Reference(r) = a {
                if r.mutability.is_some() {
                    mut_place = Some(&*r.expr);
                }
            }
            let (l, t) = self.expr(a, pt)?;
            if !pt.compatible(&t) {
                return Err(format!("argument of type {:?} where `{}` expects {:?}", t, sig.lean, pt));
            }
            ls.push(l);
        }
        if args.next().is_some() {
            return Err(format!("arity mismatch calling `{}`", sig.lean));
        }
        Ok((L::App(sig.lean.clone(), ls), sig.ret.clone(), mut_place))
    }

    /// a tail call `f(tree, args…)`: its answer is the function's result
    pub(crate) fn block_tail_call(&mut self, e: &Expr) -> R<L> {
        let (c, sig) = self.block_prog_call(e).ok_or("internal: tail call")?;
        let (term, ret, mp) = self.prog_call_term(c, &sig)?;
        if mp.is_some() {
            return Err("tail call of a function with a `&mut` parameter".into());
        }
        if !self.ret_ty.compatible(&ret) {
            return Err(format!("returned value has type {:?}, declared {:?}", ret, self.ret_ty));
        }
        if self.ret != RetMode::Plain {
            return Err("tail call in a function that returns its `&mut` parameter".into());
        }
        Ok(term)
    }

    /// `T { f: v, ..base }`  ⇒  `{ base with f := v }`
    pub(crate) fn block_struct_update(&mut self, s: &syn::ExprStruct, expect: &Ty) -> R<Option<(L, Ty)>> {
        if !self.ext.block {
            return Ok(None);
        }
        let base = match &s.rest {
            Some(b) => b,
            None => return Ok(None),
        };
        let (mut l, bt) = self.expr(base, expect)?;
        let an = match &bt {
            Ty::Adt(n, _) => n.clone(),
            _ => return Err("struct update of a non-struct".into()),
        };
        if s.path.segments.last().map(|x| x.ident.to_string()) != Some(an.clone()) {
            return Err("struct update: the base has another type".into());
        }
        let fields = match &self.w.adt(&an).ok_or("unknown adt")?.kind {
            crate::lean::AdtKind::Struct(f) => f.clone(),
            _ => return Err(format!("{an} is not a struct")),
        };
        for fv in &s.fields {
            if !self.env.enabled(&fv.attrs)? {
                continue;
            }
            let name = match &fv.member {
                syn::Member::Named(n) => n.to_string(),
                _ => return Err("positional struct literal".into()),
            };
            let fd = fields.iter().find(|f| f.rust == name).ok_or(format!("struct {an} has no known field `{name}`"))?;
            let (v, vt) = self.expr(&fv.expr, &fd.ty)?;
            if !fd.ty.compatible(&vt) {
                return Err(format!("field `{name}` of {an}: value of type {:?}", vt));
            }
            l = L::With(Box::new(l), fd.lean.clone(), Box::new(v));
        }
        Ok(Some((l, bt)))
    }

    /// `let PAT = f(tree, args…);` / `let x = … f(tree, args…) …;` (one call, the other operands pure): the call is bound first
    fn local_prog_call(&mut self, l: &syn::Local, rest: &[Stmt], value_tail: bool, conts: &[Frame]) -> R<Option<L>> {
        let init = match &l.init {
            Some(i) if i.diverge.is_none() => &*i.expr,
            _ => return Ok(None),
        };
        // the calls of translated interaction-form functions inside the initialiser
        struct Calls<'c, 'a> {
            cx: &'c Ctx<'a>,
            found: Vec<Expr>,
        }
        impl<'ast, 'c, 'a> Visit<'ast> for Calls<'c, 'a> {
            fn visit_expr(&mut self, e: &'ast Expr) {
                if self.cx.block_prog_call(e).is_some() && matches!(e, Expr::Call(_)) {
                    self.found.push(e.clone());
                    return;
                }
                // a closure body is evaluated when the closure is called, not here
                if matches!(e, Expr::Closure(_)) {
                    return;
                }
                syn::visit::visit_expr(self, e);
            }
        }
        let mut v = Calls { cx: self, found: vec![] };
        v.visit_expr(init);
        let found = v.found;
        if found.is_empty() {
            return Ok(None);
        }
        if found.len() > 1 {
            return Err("two calls of interaction-form functions in one `let`".into());
        }
        let ns = self.prog.as_ref().unwrap().ns_lean.clone();
        let call_e = &found[0];
        let (c, sig) = self.block_prog_call(call_e).ok_or("internal: prog call")?;
        let (term, ret, mp) = self.prog_call_term(c, &sig)?;
        let nested = !conts.is_empty();
        let r = self.fresh_name("r");
        let mut binds: Vec<(String, L)> = vec![];
        // the `&mut` argument is updated first
        let (val_l, val_t) = match mp {
            Some(place) => {
                let (pn, pv) = self.assign_into(place, L::Field(Box::new(L::A(r.clone())), "1".into()))?;
                binds.push((pn, pv));
                let vt = match &ret {
                    Ty::Tuple(ts) if ts.len() == 2 => ts[1].clone(),
                    _ => return Err("internal: result of a function with a `&mut` parameter".into()),
                };
                let s = self.fresh_name("s");
                binds.push((s.clone(), L::Field(Box::new(L::A(r.clone())), "2".into())));
                (s, vt)
            }
            None => (r.clone(), ret.clone()),
        };
        let direct = {
            let a = quote::quote!(#init).to_string();
            let b = quote::quote!(#call_e).to_string();
            a == b
        };
        if direct {
            let pat = match &l.pat {
                Pat::Type(pt) => &*pt.pat,
                p => p,
            };
            match pat {
                Pat::Ident(i) if i.subpat.is_none() => {
                    let n = self.declare(&i.ident.to_string(), val_t.clone(), nested);
                    binds.push((n, L::A(val_l.clone())));
                }
                Pat::Tuple(tp) => {
                    let ts = match &val_t {
                        Ty::Tuple(ts) if ts.len() == tp.elems.len() => ts.clone(),
                        _ => return Err("tuple pattern against a result that is not a tuple of that length".into()),
                    };
                    for (k, (p, t)) in tp.elems.iter().zip(ts).enumerate() {
                        match p {
                            Pat::Ident(i) if i.subpat.is_none() => {
                                let n = self.declare(&i.ident.to_string(), t, nested);
                                binds.push((n, proj(&val_l, k, tp.elems.len())));
                            }
                            Pat::Wild(_) => {}
                            _ => return Err("nested pattern binding the result of a call".into()),
                        }
                    }
                }
                _ => return Err("pattern binding the result of a call".into()),
            }
        } else {
            // hoist: the call's value is the variable `__pc` inside the initialiser
            let src = quote::quote!(#init).to_string();
            let needle = quote::quote!(#call_e).to_string();
            if src.matches(&needle).count() != 1 {
                return Err("internal: hoisting a call".into());
            }
            let e2: Expr = syn::parse_str(&src.replace(&needle, "__pc")).map_err(|e| e.to_string())?;
            let mut l2 = l.clone();
            l2.init.as_mut().unwrap().expr = Box::new(e2);
            self.locals.insert("__pc".into(), (val_l.clone(), val_t.clone()));
            let lets_ = self.local(&l2, nested);
            self.locals.remove("__pc");
            binds.extend(lets_?);
        }
        let b = self.seq(rest, value_tail, conts)?;
        let k = L::Fun(vec![format!("({r} : {})", strip_parens(&self.w.lean_ty(&ret)))], Box::new(lets(binds, b)));
        Ok(Some(L::App(format!("{ns}.bind"), vec![term, k])))
    }

    /// `let x = OPT.unwrap_or_else(|| { …interactions… });`  ⇒  `bind (match OPT with | some v => ret v | none => <the closure body as a program>) (fun x => rest)`
    pub(crate) fn block_local(&mut self, l: &syn::Local, rest: &[Stmt], value_tail: bool, conts: &[Frame]) -> R<Option<L>> {
        if !self.ext.block || self.prog.is_none() {
            return Ok(None);
        }
        if let Some(r) = self.local_prog_call(l, rest, value_tail, conts)? {
            return Ok(Some(r));
        }
        // flexprog.rs: `let child_style = tree.get_flexbox_child_style(n);` is a style seen through `FlexboxItemStyle` (: CoreStyle)
        if let (Some(i), Pat::Ident(pi)) = (&l.init, &l.pat) {
            if let Expr::MethodCall(m) = strip(&i.expr) {
                if m.method == "get_flexbox_child_style" && self.is_tree_expr(&m.receiver) {
                    self.views.insert(pi.ident.to_string(), "FlexboxItemStyle".into());
                    self.ext.view_super_core = true;
                }
            }
        }
        let init = match &l.init {
            Some(i) if i.diverge.is_none() => &*i.expr,
            _ => return Ok(None),
        };
        // `let mut x = 0.0;`: the literal is ascribed its type (an accumulator of a loop: nothing else would fix it before the loop)
        if let (Expr::Lit(syn::ExprLit { lit: syn::Lit::Float(_), .. }), Pat::Ident(i)) = (strip(init), &l.pat) {
            let (v, vt) = self.expr(init, &Ty::F32)?;
            let n = self.declare(&i.ident.to_string(), vt, !conts.is_empty());
            let b = self.seq(rest, value_tail, conts)?;
            return Ok(Some(L::Let(n, Box::new(L::A(format!("({} : α)", v.render(0, false)))), Box::new(b))));
        }
        let m = match strip(init) {
            Expr::MethodCall(m) if m.method == "unwrap_or_else" && m.args.len() == 1 => m,
            _ => return Ok(None),
        };
        let c = match &m.args[0] {
            Expr::Closure(c) if c.inputs.is_empty() => c,
            _ => return Ok(None),
        };
        if !self.interacts(&c.body) {
            return Ok(None);
        }
        let ns = self.prog.as_ref().unwrap().ns_lean.clone();
        let (o, ot) = self.expr(&m.receiver, &Ty::Unknown)?;
        let t = match ot {
            Ty::Opt(t) => *t,
            t => return Err(format!("`unwrap_or_else` on a value of type {:?}", t)),
        };
        let saved = (self.locals.clone(), self.ret, self.ret_ty.clone(), self.mut_param.clone(), self.ext.loop_tail.take());
        self.ret = RetMode::Plain;
        self.ret_ty = t.clone();
        self.mut_param = None;
        let sub = self.tail_value(&c.body);
        self.locals = saved.0;
        self.ret = saved.1;
        self.ret_ty = saved.2;
        self.mut_param = saved.3;
        self.ext.loop_tail = saved.4;
        let sub = sub?;
        let v = self.fresh_name("v");
        let term = L::Match(vec![o], vec![(vec![format!("some {v}")], L::app(&format!("{ns}.ret"), vec![L::A(v.clone())])), (vec!["none".into()], sub)]);
        let pat = match &l.pat {
            Pat::Type(pt) => &*pt.pat,
            p => p,
        };
        let nested = !conts.is_empty();
        let binder = match pat {
            Pat::Ident(i) if i.subpat.is_none() => self.declare(&i.ident.to_string(), t.clone(), nested),
            _ => return Err("pattern binding the value of `unwrap_or_else`".into()),
        };
        let b = self.seq(rest, value_tail, conts)?;
        let k = L::Fun(vec![format!("({binder} : {})", strip_parens(&self.w.lean_ty(&t)))], Box::new(b));
        Ok(Some(L::App(format!("{ns}.bind"), vec![term, k])))
    }

    /// an `if` / `match` statement as the value of the tuple of outer locals it assigns
    fn join_stmt(&mut self, e: &Expr, conts: &[Frame]) -> R<Option<L>> {
        if self.ext.no_join {
            self.ext.no_join = false;
            return Ok(None);
        }
        if self.interacts(e) {
            return Ok(None);
        }
        let mut sc = Scan::default();
        sc.visit_stmt(&Stmt::Expr(e.clone(), Some(Default::default())));
        if sc.exits || sc.loops || sc.mut_borrow {
            return Ok(None);
        }
        let vars: Vec<String> = sc.outer_assigned().into_iter().filter(|v| self.locals.contains_key(v)).collect();
        if vars.is_empty() || vars.iter().any(|v| sc.declared.contains(v)) {
            return Ok(None);
        }
        let tys: Vec<Ty> = vars.iter().map(|v| self.locals[v].1.clone()).collect();
        if tys.iter().any(|t| t.has_unknown()) {
            return Err(format!("type of a local assigned in an `if` statement is not determined ({:?})", vars));
        }
        let tail: Expr = syn::parse_str(&format!("({})", vars.join(", "))).map_err(|e| e.to_string())?;
        // `if let (p, q) = (a, b) { A } [else { B }]` is `match (a, b) { (p, q) => A, _ => B }`: a multi-discriminant `match`, the shape
        // one writes by hand (two `match`es compiled in different declarations share their matcher only when their shapes agree)
        let e2: Expr = if_let_as_match(e)?.unwrap_or_else(|| e.clone());
        let stmts = [Stmt::Expr(e2, Some(Default::default())), Stmt::Expr(tail, None)];
        let saved = (self.ret, self.ret_ty.clone(), self.mut_param.clone(), self.prog.take(), self.locals.clone());
        self.ret = RetMode::Plain;
        self.ret_ty = if tys.len() == 1 { tys[0].clone() } else { Ty::Tuple(tys.clone()) };
        self.mut_param = None;
        self.ext.no_join = true;
        let r = self.seq(&stmts, true, &[]);
        self.ext.no_join = false;
        self.ret = saved.0;
        self.ret_ty = saved.1;
        self.mut_param = saved.2;
        self.prog = saved.3;
        self.locals = saved.4;
        let v = r?;
        let names: Vec<String> = vars.iter().map(|v| self.locals[v].0.clone()).collect();
        let b = self.cont(conts)?;
        if names.len() == 1 {
            return Ok(Some(L::Let(names[0].clone(), Box::new(v), Box::new(b))));
        }
        let r = self.fresh_name("j");
        let mut binds = vec![(r.clone(), v)];
        for (k, n) in names.iter().enumerate() {
            binds.push((n.clone(), proj(&r, k, names.len())));
        }
        Ok(Some(lets(binds, b)))
    }

    /// `for x in PLACE.iter_mut() { body }` with interactions in the body
    fn prog_for(&mut self, f: &syn::ExprForLoop, conts: &[Frame]) -> R<L> {
        let ns = self.prog.as_ref().map(|p| p.ns_lean.clone()).ok_or("`for` outside interaction form")?;
        let var = match &*f.pat {
            Pat::Ident(i) if i.subpat.is_none() => i.ident.to_string(),
            _ => return Err("`for` pattern".into()),
        };
        if f.label.is_some() {
            return Err("labelled `for`".into());
        }
        // `for i in 0..n`: the list `List.range n`
        let range_end: Option<&Expr> = match strip(&f.expr) {
            Expr::Range(r) if matches!(r.limits, syn::RangeLimits::HalfOpen(_)) && matches!(r.start.as_deref(), Some(Expr::Lit(syn::ExprLit { lit: syn::Lit::Int(i), .. })) if i.base10_digits() == "0") => r.end.as_deref(),
            _ => None,
        };
        let dummy: Expr = syn::parse_str("()").unwrap();
        let mut is_rev = false;
        let (place, mutable, filter, pl, elem) = match range_end {
            Some(end) => {
                let (n, nt) = self.expr(end, &Ty::Nat)?;
                if nt != Ty::Nat {
                    return Err("range bound is not an integer".into());
                }
                (&dummy, false, None, L::app("List.range", vec![n]), Ty::Nat)
            }
            None => {
                let (it_e, rev) = iterable_rev(&f.expr);
                is_rev = rev;
                let (place, mutable, filter) = iterable(it_e)?;
                if rev && filter.is_some() {
                    return Err("`for` over a reversed filtered iterator".into());
                }
                let (pl, plt) = self.expr(place, &Ty::Unknown)?;
                let pl = if rev { L::app("List.reverse", vec![pl]) } else { pl };
                let elem = match plt {
                    Ty::List(t) => *t,
                    t => return Err(format!("`for` over a value of type {:?}", t)),
                };
                (place, mutable, filter, pl, elem)
            }
        };
        let mut sc = Scan::default();
        for s in &f.body.stmts {
            sc.visit_stmt(s);
        }
        if sc.loops {
            return Err("nested loop in a `for` body".into());
        }
        let writes_var = sc.assigned.contains(&var);
        if writes_var && !mutable {
            return Err("`for` over `.iter()` whose body writes the loop variable".into());
        }
        let tree = self.prog.as_ref().and_then(|p| p.tree_param.clone());
        let accs: Vec<String> = sc.outer_assigned().into_iter().filter(|o| *o != var && Some(o) != tree.as_ref()).collect();
        for a in &accs {
            if !self.locals.contains_key(a) {
                return Err(format!("`for` body assigns to the non-local `{a}`"));
            }
            if sc.declared.contains(a) {
                return Err(format!("`for` body assigns to `{a}` and also declares a local of that name"));
            }
        }
        let acc_tys: Vec<Ty> = accs.iter().map(|a| self.locals[a].1.clone()).collect();
        if acc_tys.iter().any(|t| t.has_unknown()) {
            return Err(format!("type of an accumulator of a `for` is not determined ({:?})", accs));
        }
        let acc_names: Vec<String> = accs.iter().map(|a| self.locals[a].0.clone()).collect();
        let st_ty = match acc_tys.len() {
            0 => Ty::Unit,
            1 => acc_tys[0].clone(),
            _ => Ty::Tuple(acc_tys.clone()),
        };
        let accs_src = match accs.len() {
            0 => "()".to_string(),
            1 => accs[0].clone(),
            _ => format!("({})", accs.join(", ")),
        };
        let tail_src = if writes_var { format!("({var}, {accs_src})") } else { accs_src };
        let tail: Expr = syn::parse_str(&tail_src).map_err(|e| e.to_string())?;
        let step_ret = if writes_var { Ty::Tuple(vec![elem.clone(), st_ty.clone()]) } else { st_ty.clone() };
        // the step function
        let saved = (self.locals.clone(), self.ret, self.ret_ty.clone(), self.mut_param.clone(), self.ext.loop_tail.clone());
        let xl = self.declare(&var, elem.clone(), false);
        self.ret = RetMode::Plain;
        self.ret_ty = step_ret;
        self.mut_param = None;
        self.ext.loop_tail = Some(tail.clone());
        let r = (|| -> R<L> {
            let mut stmts: Vec<Stmt> = f.body.stmts.clone();
            stmts.push(Stmt::Expr(tail.clone(), None));
            let body = self.seq(&stmts, true, &[])?;
            match filter {
                None => Ok(body),
                Some(c) => {
                    let p = closure_param(c)?;
                    let inner = self.locals.clone();
                    let pn = self.declare(&p, elem.clone(), false);
                    let g = self.expr(&c.body, &Ty::Bool);
                    self.locals = inner;
                    let (g, gt) = g?;
                    if gt != Ty::Bool {
                        return Err("`filter` predicate is not a bool".into());
                    }
                    let g = if pn == xl { g } else { L::Let(pn, Box::new(L::A(xl.clone())), Box::new(g)) };
                    let skip = self.seq(&[Stmt::Expr(tail.clone(), None)], true, &[])?;
                    Ok(L::If(Box::new(g), Box::new(body), Box::new(skip)))
                }
            }
        })();
        self.locals = saved.0;
        self.ret = saved.1;
        self.ret_ty = saved.2;
        self.mut_param = saved.3;
        self.ext.loop_tail = saved.4;
        let body = r?;
        let acc = self.fresh_name("acc");
        let n = acc_names.len();
        let binds: Vec<(String, L)> = if n == 1 { vec![(acc_names[0].clone(), L::A(acc.clone()))] } else { acc_names.iter().enumerate().map(|(k, a)| (a.clone(), proj(&acc, k, n))).collect() };
        let step = L::Fun(vec![format!("({acc} : {})", strip_parens(&self.w.lean_ty(&st_ty))), format!("({xl} : {})", strip_parens(&self.w.lean_ty(&elem)))], Box::new(lets(binds, body)));
        let init = match n {
            0 => L::a("()"),
            1 => L::A(acc_names[0].clone()),
            _ => L::Tuple(acc_names.iter().map(|a| L::A(a.clone())).collect()),
        };
        let comb = if writes_var { format!("{NS}.for_mut") } else { format!("{NS}.for_fold") };
        let loop_term = L::App(comb, vec![step, init, pl]);
        // the continuation
        let r = self.fresh_name("r");
        let mut binds: Vec<(String, L)> = vec![];
        let res_ty = if writes_var { Ty::Tuple(vec![Ty::List(Box::new(elem.clone())), st_ty.clone()]) } else { st_ty.clone() };
        let st_l = if writes_var {
            let upd = L::Field(Box::new(L::A(r.clone())), "1".into());
            let upd = if is_rev { L::app("List.reverse", vec![upd]) } else { upd };
            let (pn, pv) = self.assign_into(place, upd)?;
            binds.push((pn, pv));
            let s = self.fresh_name("s");
            binds.push((s.clone(), L::Field(Box::new(L::A(r.clone())), "2".into())));
            s
        } else {
            r.clone()
        };
        if n == 1 {
            binds.push((acc_names[0].clone(), L::A(st_l.clone())));
        } else {
            for (k, a) in acc_names.iter().enumerate() {
                binds.push((a.clone(), proj(&st_l, k, n)));
            }
        }
        let b = self.cont(conts)?;
        let k = L::Fun(vec![format!("({r} : {})", strip_parens(&self.w.lean_ty(&res_ty)))], Box::new(lets(binds, b)));
        Ok(L::App(format!("{ns}.bind"), vec![loop_term, k]))
    }
}

// ------------------------------------------------------------------------------------------------------------ functions
/// parameter types: `&[T]` / `&mut [T]` / `Vec<T>` are lists
fn param_ty(cx: &Ctx, t: &syn::Type) -> R<Ty> {
    match t {
        syn::Type::Reference(r) => param_ty(cx, &r.elem),
        syn::Type::Paren(p) => param_ty(cx, &p.elem),
        syn::Type::Slice(s) => Ok(Ty::List(Box::new(param_ty(cx, &s.elem)?))),
        syn::Type::Path(p) if p.qself.is_none() && p.path.segments.last().map(|s| s.ident == "Vec").unwrap_or(false) => {
            match &p.path.segments.last().unwrap().arguments {
                syn::PathArguments::AngleBracketed(a) if a.args.len() == 1 => match &a.args[0] {
                    syn::GenericArgument::Type(t) => Ok(Ty::List(Box::new(param_ty(cx, t)?))),
                    _ => Err("`Vec` argument".into()),
                },
                _ => Err("`Vec` without its element type".into()),
            }
        }
        t => cx.rust_ty(t),
    }
}

pub(crate) fn generics() -> HashMap<String, Ty> {
    [("NodeId".to_string(), Ty::Nat)].into_iter().collect()
}

/// one function of block.rs in interaction form
pub(crate) fn prog_fn(out: &mut Out, w: &mut World, f: &syn::ItemFn, base: &ProgPlan, doc_extra: &str, ns: &str) {
    let name = f.sig.ident.to_string();
    let r = (|| -> R<(String, FnSig)> {
        let mut pp = base.clone();
        let mut cx = Ctx::new(w, None, generics());
        cx.ext.block = true;
        cx.ext.fn_name = ident(&name);
        cx.ext.ns = ns.to_string();
        if !f.sig.generics.params.iter().all(|g| matches!(g, syn::GenericParam::Lifetime(_))) {
            return Err("generic parameter".into());
        }
        let mut binders = String::new();
        let mut params: Vec<(String, Ty)> = vec![];
        let mut mut_param: Option<(String, Ty)> = None;
        for a in &f.sig.inputs {
            let t = match a {
                syn::FnArg::Typed(t) => t,
                _ => return Err("receiver".into()),
            };
            let n = match &*t.pat {
                Pat::Ident(i) => i.ident.to_string(),
                _ => return Err("parameter pattern".into()),
            };
            if let Some(trs) = crate::emit::impl_traits(&t.ty) {
                if trs.iter().any(|x| x == "LayoutPartialTree" || x == "LayoutBlockContainer" || x == "LayoutFlexboxContainer") {
                    if pp.tree_param.is_some() {
                        return Err("two tree parameters".into());
                    }
                    pp.tree_param = Some(n);
                    continue;
                }
                return Err(format!("parameter `{n}` of `impl Trait` type"));
            }
            let ty = param_ty(&cx, &t.ty)?;
            if ty.has_unknown() {
                return Err(format!("parameter `{n}`: type not fully determined"));
            }
            if matches!(&*t.ty, syn::Type::Reference(r) if r.mutability.is_some()) {
                if mut_param.is_some() {
                    return Err("two `&mut` parameters".into());
                }
                mut_param = Some((n.clone(), ty.clone()));
            }
            cx.locals.insert(n.clone(), (ident(&n), ty.clone()));
            binders.push_str(&format!(" ({} : {})", ident(&n), strip_parens(&w.lean_ty(&ty))));
            params.push((n, ty));
        }
        if pp.tree_param.is_none() {
            return Err("no tree parameter".into());
        }
        cx.prog = Some(pp);
        let ret = match &f.sig.output {
            syn::ReturnType::Default => Ty::Unit,
            syn::ReturnType::Type(_, t) => param_ty(&cx, t)?,
        };
        if ret.has_unknown() {
            return Err("return type not fully determined".into());
        }
        cx.ret_ty = ret.clone();
        let lean_ret = match &mut_param {
            None => {
                cx.ret = RetMode::Plain;
                ret.clone()
            }
            Some((n, t)) => {
                cx.mut_param = Some(n.clone());
                if ret == Ty::Unit {
                    // flexprog.rs: the function answers the updated `&mut` parameter
                    cx.ret = RetMode::MutSelfUnit;
                    t.clone()
                } else {
                    cx.ret = RetMode::MutSelfVal;
                    Ty::Tuple(vec![t.clone(), ret.clone()])
                }
            }
        };
        let body = cx.body(&f.block)?;
        // the pure reads of the tree the body performs: leading function parameters
        let mut reads = String::new();
        let mut read_params: Vec<(String, Ty)> = vec![];
        for (n, ptys, ret) in pure_reads() {
            if cx.ext.reads_used.iter().any(|u| u == n) {
                let mut ts: Vec<String> = ptys.iter().map(|t| w.lean_ty(t)).collect();
                ts.push(w.lean_ty(&ret));
                reads.push_str(&format!(" ({} : {})", ident(n), ts.join(" → ")));
                read_params.push((n.to_string(), Ty::Fn(ptys.clone(), Box::new(ret.clone()))));
            }
        }
        let binders = format!("{reads}{binders}");
        let doc_reads = if read_params.is_empty() { String::new() } else { format!("; the pure reads of the tree ({}) are the leading parameters", read_params.iter().map(|r| format!("`{}`", r.0)).collect::<Vec<_>>().join(", ")) };
        let doc_extra = format!("{doc_reads}{doc_extra}");
        read_params.extend(params);
        let params = read_params;
        let upd = match &mut_param {
            Some((n, _)) if ret == Ty::Unit => format!(": the `&mut` parameter `{n}` is returned updated"),
            Some((n, _)) => format!(": the `&mut` parameter `{n}` is returned updated, paired with the result"),
            None => String::new(),
        };
        let text = format!(
            "/-- `{name}` — interaction form over `Gen.Tree.Prog α Nat`{upd}{doc_extra} -/\ndef {} {{α : Type}} [Num α]{binders} : Gen.Tree.Prog α Nat {} :=\n  {}\n\n",
            ident(&name),
            w.lean_ty(&lean_ret),
            body.render(2, true)
        );
        let sig = FnSig { lean: format!("{ns}.{}", ident(&name)), self_ty: None, params, ret: lean_ret, alpha: true, mut_self: false, dropped: 0, mut_first: false, prog: true };
        Ok((text, sig))
    })();
    match r {
        Ok((t, sig)) => {
            out.text.push_str(&t);
            out.translated.push(ident(&name));
            w.add_fn("", &name, sig);
        }
        Err(e) => out.errors.push(format!("required function `{name}` is outside the translated fragment: {e}")),
    }
}

pub const REQUIRED: &[&str] = &["generate_item_list", "determine_content_based_container_width", "perform_final_layout_on_in_flow_children", "perform_absolute_layout_on_absolute_children", "compute_inner", "compute_block_layout"];

const COMBINATORS: &str = "/-- `for x in xs.iter_mut() { body }`: `f s x` is one pass through the body for the element `x` with the outer locals `s`; it answers\n    the updated element and locals. The loop answers the updated list and the final locals. -/\n\
def for_mut {α σ β : Type} (f : σ → β → Gen.Tree.Prog α Nat (β × σ)) : σ → List β → Gen.Tree.Prog α Nat (List β × σ)\n  | s, [] => Gen.Tree.Prog.ret ([], s)\n  | s, x :: xs =>\n    Gen.Tree.Prog.bind (f s x) (fun r =>\n      Gen.Tree.Prog.bind (for_mut f r.2 xs) (fun rest => Gen.Tree.Prog.ret (r.1 :: rest.1, rest.2)))\n\n\
/-- `n as u32` for a position `n : usize` in the child list: translated as the identity — equal to the Rust value whenever the node has
    fewer than 2^32 children (Rust truncates beyond; the models keep `order : Nat`) -/\n\
def as_u32 (n : Nat) : Nat := n\n\n\
/-- `Iterator::enumerate`: every item paired with its position, counting from 0 -/\n\
def enumerate_from {β : Type} : Nat → List β → List (Nat × β)\n  | _, [] => []\n  | k, x :: xs => (k, x) :: enumerate_from (k + 1) xs\n\n\
def enumerate {β : Type} (l : List β) : List (Nat × β) := enumerate_from 0 l\n\n\
/-- `for x in xs.iter() { body }`: `f s x` is one pass through the body; it answers the updated outer locals -/\n\
def for_fold {α σ β : Type} (f : σ → β → Gen.Tree.Prog α Nat σ) : σ → List β → Gen.Tree.Prog α Nat σ\n  | s, [] => Gen.Tree.Prog.ret s\n  | s, x :: xs => Gen.Tree.Prog.bind (f s x) (fun s' => for_fold f s' xs)\n\n";

/// the generic helpers of geometry.rs that block.rs uses and Generated/Geometry.lean does not have: `Rect::map`, `Rect::zip_size`,
/// `Size::map_width`, `Size::map_height` (polymorphic; the closure is a Lean function) and `impl Sub<Size<U>> for Size<T>` at f32
fn geometry_helpers(repo: &str, env: &CfgEnv, out: &mut Out, w: &mut World) -> R<()> {
    use crate::emit::{impls, Plan, PlanExt};
    let file = parse_file(&format!("{repo}/src/geometry.rs"))?;
    let mut v = vec![];
    impls(&file.items, env, &[], &mut v)?;
    out.comment("src/geometry.rs: `Rect::map`, `Rect::zip_size`, `Size::map_width`, `Size::map_height` (generic `impl<T>`, polymorphic; the closure is a");
    out.comment("Lean function) and `impl Sub<Size<U>> for Size<T>` instantiated at T = U = f32 (`a - b` on sizes)");
    out.text.push('\n');
    let beta = Ty::Var("β".into());
    let gb: HashMap<String, Ty> = [("T".to_string(), beta.clone())].into_iter().collect();
    for info in &v {
        if info.trait_.is_some() || info.generics.len() != 1 {
            continue;
        }
        let (cont, names): (&str, &[&str]) = match info.self_ty.as_str() {
            "Rect<T>" => ("Rect", &["map", "zip_size"]),
            "Size<T>" => ("Size", &["map_width", "map_height"]),
            _ => continue,
        };
        for ii in info.items {
            if let syn::ImplItem::Fn(ff) = ii {
                let name = ff.sig.ident.to_string();
                if names.contains(&name.as_str()) && env.enabled(&ff.attrs)? {
                    let lean_rel = format!("{cont}.{name}");
                    out.function(w, Plan { head: cont.to_string(), rust_name: name, lean_rel, self_ty: Some(Ty::adt(cont, vec![beta.clone()])), generics: gb.clone(), sig: &ff.sig, block: &ff.block, required: true, trunc_sub: false, ext: PlanExt { type_vars: true, ..Default::default() } });
                }
            }
        }
    }
    // `LengthPercentageAuto::resolve_to_option` (style/dimension.rs): the tag-match shape of Generated/Resolve.lean
    let dim = parse_file(&format!("{repo}/src/style/dimension.rs"))?;
    let mut vd = vec![];
    impls(&dim.items, env, &[], &mut vd)?;
    out.comment("src/style/dimension.rs: `LengthPercentageAuto::resolve_to_option` (tags ↦ constructors as in Generated/Resolve.lean; the calc arm dropped)");
    out.text.push('\n');
    for info in &vd {
        if info.trait_.is_none() && info.self_ty == "LengthPercentageAuto" {
            for ii in info.items {
                if let syn::ImplItem::Fn(ff) = ii {
                    if ff.sig.ident == "resolve_to_option" && env.enabled(&ff.attrs)? {
                        out.function(w, Plan { head: "LengthPercentageAuto".into(), rust_name: "resolve_to_option".into(), lean_rel: "LengthPercentageAuto.resolve_to_option".into(), self_ty: Some(Ty::adt("LengthPercentageAuto", vec![])), generics: HashMap::new(), sig: &ff.sig, block: &ff.block, required: true, trunc_sub: false, ext: PlanExt { dropped_params: vec!["calc_resolver".into()], ..Default::default() } });
                    }
                }
            }
        }
    }
    // `impl MaybeResolve<Size<In>, Size<Out>> for Size<T>` (util/resolve.rs) at T = Dimension, In = f32 (Generated/Resolve.lean has In = Option<f32>)
    let res = parse_file(&format!("{repo}/src/util/resolve.rs"))?;
    let mut vr = vec![];
    impls(&res.items, env, &[], &mut vr)?;
    out.comment("src/util/resolve.rs: the generic `Size<T>` impl of `MaybeResolve`, instantiated at T = Dimension with an `f32` context per axis");
    out.text.push('\n');
    for info in &vr {
        if (info.self_ty.as_str(), info.trait_.as_deref()) == ("Size<T>", Some("MaybeResolve<Size<In>,Size<Out>>")) {
            let t = Ty::adt("Dimension", vec![]);
            let gr: HashMap<String, Ty> = [("T".to_string(), t.clone()), ("In".to_string(), Ty::F32), ("Out".to_string(), Ty::opt(Ty::F32))].into_iter().collect();
            crate::emit::impl_items(out, w, info, env, "Size", Some(Ty::adt("Size", vec![t])), &gr, "Size_Dimension.f32_", &["Size_Dimension.f32_maybe_resolve"], &[])?;
        }
    }
    let f = Ty::F32;
    let g: HashMap<String, Ty> = ["T", "U"].iter().map(|n| (n.to_string(), Ty::F32)).collect();
    for info in &v {
        if (info.self_ty.as_str(), info.trait_.as_deref()) != ("Size<T>", Some("Sub<Size<U>>")) {
            continue;
        }
        let st = Ty::adt("Size", vec![f.clone()]);
        for ii in info.items {
            match ii {
                syn::ImplItem::Type(t) => {
                    let got = norm(&t.ty);
                    if t.ident != "Output" || got != "Size<<TasSub<U>>::Output>" {
                        return Err(format!("`impl Sub for Size`: associated type `{}` is `{got}`", t.ident));
                    }
                }
                syn::ImplItem::Fn(ff) if ff.sig.ident == "sub" => {
                    let want = "fnsub(self,rhs:Size<U>)->Self::Output";
                    if norm(&ff.sig) != want {
                        return Err(format!("`impl Sub for Size`: signature is `{}`, expected `{want}`", norm(&ff.sig)));
                    }
                    let sig: syn::Signature = syn::parse_str("fn sub(self, rhs: Size<f32>) -> Size<f32>").map_err(|e| e.to_string())?;
                    out.function(w, Plan { head: "Size".into(), rust_name: "sub".into(), lean_rel: "Size.sub".into(), self_ty: Some(st.clone()), generics: g.clone(), sig: &sig, block: &ff.block, required: true, trunc_sub: false, ext: Default::default() });
                }
                _ => {}
            }
        }
    }
    Ok(())
}

pub const TREE_HEAD_NAT: &str = "<tree:Nat>";

/// the tree plan with `NodeId := Nat` (the child's index)
pub(crate) fn plan_at_nat(w: &mut World, base: &ProgPlan) -> ProgPlan {
    let sub: HashMap<String, Ty> = [("NodeId".to_string(), Ty::Nat)].into_iter().collect();
    let mut pp = base.clone();
    pp.ty_lean = "Gen.Tree.Prog α Nat".into();
    pp.type_vars = vec![];
    for eff in pp.tree_methods.values_mut() {
        eff.params = eff.params.iter().map(|t| t.subst_vars(&sub)).collect();
        eff.ret = eff.ret.subst_vars(&sub);
    }
    // provided methods of the tree traits (`perform_child_layout`), re-registered at `NodeId := Nat`
    let provided: Vec<(String, Vec<FnSig>)> = w.fns.iter().filter(|((h, _), _)| *h == base.tree_head).map(|((_, n), v)| (n.clone(), v.clone())).collect();
    for (n, sigs) in provided {
        for mut sig in sigs {
            sig.params = sig.params.iter().map(|(pn, t)| (pn.clone(), t.subst_vars(&sub))).collect();
            sig.ret = sig.ret.subst_vars(&sub);
            if !w.fns.get(&(TREE_HEAD_NAT.to_string(), n.clone())).map(|v| v.iter().any(|s| s.lean == sig.lean)).unwrap_or(false) {
                w.add_fn(TREE_HEAD_NAT, &n, sig);
            }
        }
    }
    pp.tree_head = TREE_HEAD_NAT.into();
    pp
}

pub fn extract(repo: &str, w: &mut World) -> Result<String, String> {
    let env = CfgEnv::default_build();
    crate::stmt::check_debug_macros(repo)?;
    let file = parse_file(&format!("{repo}/src/compute/block.rs"))?;
    let base = w.tree_plan.clone().ok_or("the tree traits have not been translated (Generated/Tree.lean)")?;
    let base = plan_at_nat(w, &base);
    let f = Ty::F32;
    let of = Ty::opt(Ty::F32);
    let size = |t: &Ty| Ty::adt("Size", vec![t.clone()]);
    let rect = |t: &Ty| Ty::adt("Rect", vec![t.clone()]);
    let point = |t: &Ty| Ty::adt("Point", vec![t.clone()]);
    // Model/Block.lean `BlockModel.BlockItem`
    crate::flexline::register(
        w,
        "BlockItem",
        "BlockModel.BlockItem",
        vec![
            ("node_id", Ty::Nat),
            ("order", Ty::Nat),
            ("is_table", Ty::Bool),
            ("size", size(&of)),
            ("min_size", size(&of)),
            ("max_size", size(&of)),
            ("overflow", point(&Ty::adt("Overflow", vec![]))),
            ("scrollbar_width", f.clone()),
            ("position", Ty::adt("Position", vec![])),
            ("inset", rect(&Ty::adt("LengthPercentageAuto", vec![]))),
            ("margin", rect(&Ty::adt("LengthPercentageAuto", vec![]))),
            ("padding", rect(&f)),
            ("border", rect(&f)),
            ("padding_border_sum", size(&f)),
            ("computed_size", size(&f)),
            ("static_position", point(&f)),
            ("can_be_collapsed_through", Ty::Bool),
        ],
        &[("node_id", "nodeIdx")],
    );
    crate::flexline::check_struct(w, &file.items, &env, "BlockItem", &[("node_id", "NodeId")])?;
    let mut out = Out::new(
        NS,
        "src/compute/block.rs",
        &["TaffyVerif.Generated.Tree", "TaffyVerif.Generated.Geometry", "TaffyVerif.Generated.AvailableSpace", "TaffyVerif.Generated.LayoutTypes", "TaffyVerif.Generated.MaybeMath", "TaffyVerif.Generated.Resolve", "TaffyVerif.Generated.ContentSize", "TaffyVerif.Generated.Axes", "TaffyVerif.Generated.Style", "TaffyVerif.Model.Block"],
    );
    out.comment("`struct BlockItem` of block.rs has been compared with the record `BlockModel.BlockItem` of Model/Block.lean field by field");
    out.comment("(`node_id: NodeId` ↦ `nodeIdx : Nat`, the child's index in the container's child list; `&[BlockItem]` / `&mut [BlockItem]` ↦ a list).");
    out.comment("Interaction form over `Gen.Tree.Prog α Nat` (Generated/Tree.lean): `tree.m(args)` is `Prog.m args (fun answer => …)`, a provided method");
    out.comment("is `Prog.bind`, in the order the Rust performs the calls; `|val, basis| tree.calc(val, basis)` is the calc resolver: dropped.");
    out.comment("A `for` whose body talks to the tree is `for_mut` / `for_fold` below applied to the body as a step function of (the tuple of outer");
    out.comment("locals the body assigns, the element); `.filter(p)` on the iterator guards the step; `continue` ends the step. An `if` / `match`");
    out.comment("statement without interactions is the value of the tuple of locals it assigns (extract/src/blockmod.rs).");
    out.text.push('\n');
    out.text.push_str(COMBINATORS);
    geometry_helpers(repo, &env, &mut out, w)?;
    for name in REQUIRED {
        match file.items.iter().find_map(|it| match it {
            Item::Fn(f) if f.sig.ident == name => Some(f),
            _ => None,
        }) {
            Some(f) if env.enabled(&f.attrs)? => prog_fn(&mut out, w, f, &base, "", NS),
            _ => out.errors.push(format!("required function `{name}` is missing from the source")),
        }
    }
    out.finish(REQUIRED)
}
