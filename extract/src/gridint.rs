//! Integer code of the grid coordinate systems  →  Generated/GridCoords.lean
//!   src/compute/grid/types/coordinates.rs, src/compute/grid/types/grid_track_counts.rs, src/style/grid.rs (placements)
//!
//! Machine integers become `Int`; every i16/u16/usize arithmetic operation and every `as` cast becomes a *checked*
//! operation in the `GridPlacement.Outcome` monad (`i16`/`u16`/`usize` of Model/GridPlacement.lean), `panic!`/`assert!`
//! become `.panic msg` — the same conventions as the hand-written model (see the header of Model/GridPlacement.lean).
//! A function in which no checked operation, panic or call of an effectful function occurs is emitted as a pure function.
use crate::emit::norm;
use crate::util::{parse_file, CfgEnv};
use std::collections::HashMap;
use syn::{BinOp, Expr, ImplItem, Item, Lit, Pat, Stmt, UnOp};

pub(crate) type R<T> = Result<T, String>;

#[derive(Clone, PartialEq, Debug)]
pub(crate) enum T {
    I16,
    U16,
    Usize,
    IntLit,
    Bool,
    Prop,
    Oz,
    Gl,
    /// GenericGridPlacement<coordinate>
    Placement(Box<T>),
    Line(Box<T>),
    /// `Option<integer>` (result of `try_into_track_vec_index`)
    Option(Box<T>),
    Counts,
    // --- added for extract/src/placement.rs (grid placement; not used by GridCoords) ---
    Axis,
    Flow,
    Cell,
    Matrix,
    Grid,
    /// `InBothAbsAxis<Line<OriginZeroGridPlacement>>`
    InBoth,
    /// a child's style seen through `GridItemStyle` (`grid_row`, `grid_column`)
    Child,
    /// `(usize, NodeId, S)` / `(usize, NodeId, InBothAbsAxis<…>, S)`: the element types of `place_grid_items`' iterator chain
    IdxChild,
    OzChild,
    /// `&mut Vec<GridItem>` of placement.rs
    Items,
    Tuple(Vec<T>),
    List(Box<T>),
    Unit,
}
impl T {
    pub(crate) fn lean(&self) -> String {
        match self {
            T::I16 | T::U16 | T::Usize | T::IntLit | T::Oz | T::Gl => "Int".into(),
            T::Bool | T::Prop => "Bool".into(),
            T::Placement(_) => "Placement".into(),
            T::Line(t) => format!("(Line {})", t.lean()),
            T::Option(t) => format!("(Option {})", t.lean()),
            T::Counts => "TrackCounts".into(),
            t => crate::placement::lean_ty(t),
        }
    }
    pub(crate) fn is_int(&self) -> bool {
        matches!(self, T::I16 | T::U16 | T::Usize | T::IntLit)
    }
    pub(crate) fn checker(&self) -> Option<&'static str> {
        match self {
            T::I16 => Some("i16"),
            T::U16 => Some("u16"),
            T::Usize => Some("usize"),
            _ => None,
        }
    }
    pub(crate) fn key(&self) -> String {
        match self {
            T::Oz => "OriginZeroLine".into(),
            T::Gl => "GridLine".into(),
            T::Counts => "TrackCounts".into(),
            T::Placement(c) if **c == T::Gl => "GridPlacement".into(),
            T::Placement(_) => "OriginZeroGridPlacement".into(),
            T::Line(t) => format!("Line<{}>", t.key()),
            T::Option(t) => format!("Option<{}>", t.key()),
            t => format!("{:?}", t),
        }
    }
}

/// statement tree of one function body
#[derive(Clone, Debug)]
enum S {
    Let(String, String, Box<S>),
    Bind(String, String, Box<S>),
    BindBlock(String, Box<S>, Box<S>),
    If(String, Box<S>, Box<S>),
    Match(Vec<String>, Vec<(Vec<String>, S)>),
    Ret(String),
    Panic(String),
}
impl S {
    fn effectful(&self) -> bool {
        match self {
            S::Let(_, _, r) => r.effectful(),
            S::Bind(..) | S::Panic(_) => true,
            S::BindBlock(_, b, r) => b.effectful() || r.effectful(),
            S::If(_, a, b) => a.effectful() || b.effectful(),
            S::Match(_, arms) => arms.iter().any(|(_, s)| s.effectful()),
            S::Ret(_) => false,
        }
    }
    fn simple(&self) -> bool {
        matches!(self, S::Ret(_) | S::Panic(_)) || matches!(self, S::Bind(x, _, r) if matches!(&**r, S::Ret(y) if x == y))
    }
    fn render(&self, ind: usize, m: bool) -> String {
        let pad = " ".repeat(ind);
        let sub = |s: &S, ind: usize| -> String {
            if s.simple() {
                format!(" {}", s.render(ind, m))
            } else if m {
                format!(" do\n{}{}", " ".repeat(ind), s.render(ind, m))
            } else {
                format!("\n{}{}", " ".repeat(ind), s.render(ind, m))
            }
        };
        match self {
            S::Let(x, e, r) => format!("let {x} := {e}\n{pad}{}", r.render(ind, m)),
            S::Bind(x, e, r) => match &**r {
                S::Ret(y) if x == y => e.clone(),
                _ => format!("let {x} ← {e}\n{pad}{}", r.render(ind, m)),
            },
            S::BindBlock(x, b, r) => {
                if b.effectful() {
                    format!("let {x} ← (({} : Outcome _))\n{pad}{}", sub(b, ind + 4).trim_start(), r.render(ind, m))
                } else {
                    format!("let {x} := ({})\n{pad}{}", b.render(ind + 4, false), r.render(ind, m))
                }
            }
            S::If(c, a, b) => {
                let else_part = match &**b {
                    S::If(..) => format!("else {}", b.render(ind, m)),
                    _ => format!("else{}", sub(b, ind + 2)),
                };
                format!("if {c} then{}\n{pad}{else_part}", sub(a, ind + 2))
            }
            S::Match(sc, arms) => {
                let mut s = format!("match {} with", sc.join(", "));
                for (p, b) in arms {
                    s.push_str(&format!("\n{pad}| {} =>{}", p.join(", "), sub(b, ind + 4)));
                }
                s
            }
            S::Ret(x) => {
                if m {
                    format!("pure {x}")
                } else {
                    x.clone()
                }
            }
            S::Panic(msg) => format!(".panic {:?}", msg),
        }
    }
}

#[derive(Clone)]
#[allow(dead_code)]
pub(crate) struct Sig {
    pub(crate) lean: String,
    pub(crate) self_ty: Option<T>,
    pub(crate) params: Vec<T>,
    pub(crate) ret: T,
    pub(crate) monadic: bool,
}

#[allow(dead_code)]
pub(crate) enum Pre {
    Let(String, String),
    Bind(String, String),
}

pub(crate) struct Cx<'a> {
    pub(crate) fns: &'a HashMap<(String, String), Sig>,
    pub(crate) self_ty: Option<T>,
    /// coordinate type of a generic `GenericGridPlacement<T>` impl
    pub(crate) generic_coord: Option<T>,
    pub(crate) locals: HashMap<String, (String, T)>,
    pub(crate) aliases: HashMap<String, String>,
    pub(crate) n: usize,
    /// state of the extension in extract/src/placement.rs (unused by GridCoords)
    pub(crate) ext: crate::placement::Ext,
}

pub(crate) fn segs(p: &syn::Path) -> Vec<String> {
    p.segments.iter().map(|s| s.ident.to_string()).collect()
}
pub(crate) fn lname(n: &str) -> String {
    crate::lean::ident(n)
}
fn wrap(pre: Vec<Pre>, mut s: S) -> S {
    for p in pre.into_iter().rev() {
        s = match p {
            Pre::Let(x, e) => S::Let(x, e, Box::new(s)),
            Pre::Bind(x, e) => S::Bind(x, e, Box::new(s)),
        };
    }
    s
}

impl<'a> Cx<'a> {
    pub(crate) fn tmp(&mut self) -> String {
        self.n += 1;
        format!("t{}", self.n)
    }
    pub(crate) fn ty(&self, t: &syn::Type) -> R<T> {
        let s = norm(t);
        let s = s.trim_start_matches('&');
        Ok(match s {
            "i16" => T::I16,
            "u16" => T::U16,
            "usize" => T::Usize,
            "bool" => T::Bool,
            "OriginZeroLine" => T::Oz,
            "GridLine" => T::Gl,
            "TrackCounts" => T::Counts,
            "Option<usize>" => T::Option(Box::new(T::Usize)),
            "GridPlacement" => T::Placement(Box::new(T::Gl)),
            "OriginZeroGridPlacement" => T::Placement(Box::new(T::Oz)),
            "Line<OriginZeroLine>" => T::Line(Box::new(T::Oz)),
            "Line<GridPlacement>" => T::Line(Box::new(T::Placement(Box::new(T::Gl)))),
            "Line<OriginZeroGridPlacement>" => T::Line(Box::new(T::Placement(Box::new(T::Oz)))),
            "Self" | "Self::Output" => self.self_ty.clone().ok_or("Self outside impl")?,
            _ => return crate::placement::ty_ext(s),
        })
    }
    pub(crate) fn placement_variant(&self, path: &[String], expect: Option<&T>) -> Option<(String, T)> {
        if path.len() < 2 {
            return None;
        }
        let tn = self.aliases.get(&path[path.len() - 2]).cloned().unwrap_or(path[path.len() - 2].clone());
        let coord = match tn.as_str() {
            "GridPlacement" => Some(T::Gl),
            "OriginZeroGridPlacement" => Some(T::Oz),
            "GenericGridPlacement" => match expect {
                Some(T::Placement(c)) => Some((**c).clone()),
                _ => self.generic_coord.clone().or(Some(T::Oz)),
            },
            "Self" => match &self.self_ty {
                Some(T::Placement(c)) => Some((**c).clone()),
                _ => None,
            },
            _ => None,
        }?;
        let v = match path.last().unwrap().as_str() {
            "Auto" => "auto",
            "Line" => "line",
            "Span" => "span",
            _ => return None,
        };
        Some((format!("Placement.{v}"), T::Placement(Box::new(coord))))
    }

    pub(crate) fn bind_checked(&mut self, t: &T, e: String, pre: &mut Vec<Pre>) -> R<String> {
        let c = t.checker().ok_or(format!("arithmetic at type {:?}", t))?;
        let x = self.tmp();
        pre.push(Pre::Bind(x.clone(), format!("{c} ({e})")));
        Ok(x)
    }

    pub(crate) fn call_sig(&mut self, sig: &Sig, args: Vec<String>, pre: &mut Vec<Pre>) -> (String, T) {
        let app = if args.is_empty() { sig.lean.clone() } else { format!("{} {}", sig.lean, args.join(" ")) };
        if sig.monadic {
            let x = self.tmp();
            pre.push(Pre::Bind(x.clone(), app));
            (x, sig.ret.clone())
        } else {
            (format!("({app})"), sig.ret.clone())
        }
    }

    pub(crate) fn ex(&mut self, e: &Expr, expect: Option<&T>, pre: &mut Vec<Pre>) -> R<(String, T)> {
        match e {
            Expr::Paren(p) => self.ex(&p.expr, expect, pre),
            Expr::Group(p) => self.ex(&p.expr, expect, pre),
            Expr::Reference(r) => self.ex(&r.expr, expect, pre),
            Expr::Unary(u) if matches!(u.op, UnOp::Deref(_)) => self.ex(&u.expr, expect, pre),
            Expr::Lit(l) => match &l.lit {
                Lit::Int(i) => {
                    let t = match (i.suffix(), expect) {
                        ("", Some(t)) if t.is_int() => t.clone(),
                        ("", _) => T::IntLit,
                        ("i16", _) => T::I16,
                        ("u16", _) => T::U16,
                        ("usize", _) => T::Usize,
                        (s, _) => return Err(format!("literal suffix {s}")),
                    };
                    Ok((i.base10_digits().to_string(), t))
                }
                Lit::Bool(b) => Ok((b.value.to_string(), T::Bool)),
                _ => Err("unsupported literal".into()),
            },
            Expr::Path(p) => {
                let s = segs(&p.path);
                if s.len() == 1 {
                    if let Some((l, t)) = self.locals.get(&s[0]) {
                        return Ok((l.clone(), t.clone()));
                    }
                }
                if let Some((l, t)) = self.placement_variant(&s, expect) {
                    if l.ends_with("auto") {
                        return Ok((l, t));
                    }
                }
                if s.len() == 1 && s[0] == "None" {
                    if let Some(t @ T::Option(_)) = expect {
                        return Ok(("none".into(), t.clone()));
                    }
                }
                self.path_ext(&s, expect)
            }
            Expr::Field(f) => {
                let (b, bt) = self.ex(&f.base, None, pre)?;
                match (&f.member, &bt) {
                    (syn::Member::Unnamed(i), T::Oz | T::Gl) if i.index == 0 => Ok((b, T::I16)),
                    (syn::Member::Named(n), T::Line(t)) if n == "start" => Ok((format!("{b}.start"), (**t).clone())),
                    (syn::Member::Named(n), T::Line(t)) if n == "end" => Ok((format!("{b}.«end»"), (**t).clone())),
                    (syn::Member::Named(n), T::Counts) => match n.to_string().as_str() {
                        "negative_implicit" => Ok((format!("{b}.negativeImplicit"), T::U16)),
                        "explicit" => Ok((format!("{b}.explicit"), T::U16)),
                        "positive_implicit" => Ok((format!("{b}.positiveImplicit"), T::U16)),
                        o => Err(format!("TrackCounts has no field {o}")),
                    },
                    _ => self.field_ext(b, bt, &f.member),
                }
            }
            Expr::Unary(u) if matches!(u.op, UnOp::Neg(_)) => {
                let (a, at) = self.ex(&u.expr, expect, pre)?;
                if at == T::IntLit {
                    return Ok((format!("(-{a})"), T::IntLit));
                }
                let x = self.bind_checked(&at, format!("-{a}"), pre)?;
                Ok((x, at))
            }
            Expr::Cast(c) => {
                let to = self.ty(&c.ty)?;
                let (a, at) = self.ex(&c.expr, None, pre)?;
                if !at.is_int() || !to.is_int() {
                    return Err(format!("unsupported cast `{}`", quote::quote!(#c)));
                }
                if at == to || at == T::IntLit {
                    return Ok((a, to));
                }
                // `as` never panics in Rust; like the hand-written model the translation is stricter: a lossy cast is `.overflow`
                let x = self.bind_checked(&to, a, pre)?;
                Ok((x, to))
            }
            Expr::Binary(b) => {
                let (l, lt) = self.ex(&b.left, None, pre)?;
                let (r, rt) = self.ex(&b.right, Some(&lt), pre)?;
                let (l, lt) = if lt == T::IntLit && rt.is_int() { (l, rt.clone()) } else { (l, lt) };
                let cmp = |op: &str| -> R<(String, T)> {
                    if (lt.is_int() && rt.is_int()) || (lt == rt && matches!(lt, T::Oz | T::Gl)) {
                        Ok((format!("{l} {op} {r}"), T::Prop))
                    } else {
                        crate::placement::cmp_ext(&l, &lt, op, &r, &rt)
                    }
                };
                match &b.op {
                    BinOp::Lt(_) => cmp("<"),
                    BinOp::Gt(_) => cmp(">"),
                    BinOp::Le(_) => cmp("≤"),
                    BinOp::Ge(_) => cmp("≥"),
                    BinOp::Eq(_) => cmp("="),
                    BinOp::Ne(_) => cmp("≠"),
                    BinOp::Add(_) | BinOp::Sub(_) | BinOp::Mul(_) => {
                        let (op, name) = match &b.op {
                            BinOp::Add(_) => ("+", "add"),
                            BinOp::Sub(_) => ("-", "sub"),
                            _ => ("*", "mul"),
                        };
                        if lt.is_int() && (rt == lt || rt == T::IntLit) {
                            let x = self.bind_checked(&lt, format!("{l} {op} {r}"), pre)?;
                            return Ok((x, lt));
                        }
                        // operator impls: `OriginZeroLine + u16`, …
                        let suffix = match &rt {
                            T::U16 | T::IntLit => "u16",
                            T::Oz => "OriginZeroLine",
                            _ => return Err(format!("operator `{op}` at types {:?} / {:?}", lt, rt)),
                        };
                        let sig = self.fns.get(&(lt.key(), format!("{name}_{suffix}"))).cloned().ok_or(format!("no translated `impl {name}<{suffix}> for {}`", lt.key()))?;
                        Ok(self.call_sig(&sig, vec![l, r], pre))
                    }
                    _ => self.binop_ext(b, l, lt, r, rt),
                }
            }
            Expr::Call(c) => {
                let p = match &*c.func {
                    Expr::Path(p) => segs(&p.path),
                    _ => return Err("call of a non-path".into()),
                };
                let args: Vec<&Expr> = c.args.iter().collect();
                let name = p.last().unwrap().as_str();
                if p.len() == 1 && (name == "OriginZeroLine" || name == "GridLine") && args.len() == 1 {
                    let (a, at) = self.ex(args[0], Some(&T::I16), pre)?;
                    if at != T::I16 && at != T::IntLit {
                        return Err(format!("{name}(..) applied to {:?}", at));
                    }
                    return Ok((a, if name == "GridLine" { T::Gl } else { T::Oz }));
                }
                if p.len() == 1 && name == "Some" && args.len() == 1 {
                    let want = match expect {
                        Some(T::Option(t)) => Some((**t).clone()),
                        _ => None,
                    };
                    let (a, at) = self.ex(args[0], want.as_ref(), pre)?;
                    if !at.is_int() {
                        return Err(format!("Some(..) applied to {:?}", at));
                    }
                    return Ok((format!("(some {a})"), T::Option(Box::new(at))));
                }
                if p.len() == 1 && (name == "max" || name == "min") && args.len() == 2 {
                    let (a, at) = self.ex(args[0], None, pre)?;
                    let (b, bt) = self.ex(args[1], Some(&at), pre)?;
                    let t = if at == T::IntLit { bt.clone() } else { at.clone() };
                    if !(at == bt || at == T::IntLit || bt == T::IntLit) {
                        return Err(format!("{name} at types {:?} / {:?}", at, bt));
                    }
                    return Ok((format!("({name} {a} {b})"), t));
                }
                if let Some((ctor, t)) = self.placement_variant(&p, expect) {
                    if args.len() == 1 {
                        let want = match (&t, ctor.as_str()) {
                            (T::Placement(c), "Placement.line") => (**c).clone(),
                            _ => T::U16,
                        };
                        let (a, at) = self.ex(args[0], Some(&want), pre)?;
                        if at != want && at != T::IntLit {
                            return Err(format!("{ctor} applied to {:?}", at));
                        }
                        return Ok((format!("({ctor} {a})"), t));
                    }
                }
                self.call_ext(&p, &args, expect, pre)
            }
            Expr::MethodCall(m) => {
                let name = m.method.to_string();
                let (recv, rt) = self.ex(&m.receiver, None, pre)?;
                let args: Vec<&Expr> = m.args.iter().collect();
                let keys = [rt.key(), if matches!(rt, T::Line(ref t) if matches!(**t, T::Placement(_))) { "Line<GenericGridPlacement<T>>".into() } else { String::new() }];
                for k in keys.iter() {
                    if let Some(sig) = self.fns.get(&(k.clone(), name.clone())).cloned() {
                        if sig.params.len() != args.len() {
                            return Err(format!("arity of {name}"));
                        }
                        let mut ls = vec![recv];
                        for (a, pt) in args.iter().zip(&sig.params) {
                            let (l, at) = self.ex(a, Some(pt), pre)?;
                            if at != *pt && at != T::IntLit {
                                return Err(format!("argument of {name}: {:?} where {:?} is expected", at, pt));
                            }
                            ls.push(l);
                        }
                        let (x, mut t) = self.call_sig(&sig, ls, pre);
                        // `into_origin_zero_placement` etc. of a generic impl keep the receiver's coordinate type
                        if k.starts_with("Line<Generic") {
                            t = sig.ret.clone();
                        }
                        return Ok((x, t));
                    }
                }
                match (&rt, name.as_str(), args.len()) {
                    (T::I16, "unsigned_abs", 0) => Ok((format!("(if {recv} < 0 then -{recv} else {recv})"), T::U16)),
                    (t, "max" | "min", 1) if t.is_int() => {
                        let (a, _) = self.ex(args[0], Some(t), pre)?;
                        Ok((format!("({name} {recv} {a})"), t.clone()))
                    }
                    _ => self.method_ext(recv, rt, &name, &args, expect, pre),
                }
            }
            Expr::Struct(s) => {
                let n = segs(&s.path).last().unwrap().clone();
                if n != "Line" || s.fields.len() != 2 {
                    return self.ex_ext(e, expect, pre);
                }
                let mut start = None;
                let mut end = None;
                for f in &s.fields {
                    let fname = match &f.member {
                        syn::Member::Named(n) => n.to_string(),
                        _ => return Err("positional field".into()),
                    };
                    let want = match expect {
                        Some(T::Line(t)) => Some((**t).clone()),
                        _ => None,
                    };
                    let v = self.ex(&f.expr, want.as_ref(), pre)?;
                    match fname.as_str() {
                        "start" => start = Some(v),
                        "end" => end = Some(v),
                        o => return Err(format!("Line has no field {o}")),
                    }
                }
                let (s0, st) = start.ok_or("Line literal without start")?;
                let (e0, et) = end.ok_or("Line literal without end")?;
                if st != et {
                    return Err(format!("Line literal with components {:?} / {:?}", st, et));
                }
                Ok((format!("(Line.mk {s0} {e0})"), T::Line(Box::new(st))))
            }
            Expr::Macro(m) if m.mac.path.is_ident("matches") => {
                let (scrut, pat) = m
                    .mac
                    .parse_body_with(|input: syn::parse::ParseStream| {
                        let e: Expr = input.parse()?;
                        let _: syn::Token![,] = input.parse()?;
                        let p = Pat::parse_multi_with_leading_vert(input)?;
                        Ok((e, p))
                    })
                    .map_err(|e| e.to_string())?;
                let (sc, tys) = self.scrutinee(&scrut, pre)?;
                let saved = self.locals.clone();
                let alts = self.arm_pats(&pat, &tys)?;
                self.locals = saved;
                let mut s = format!("(match {} with", sc.join(", "));
                for a in alts {
                    s.push_str(&format!(" | {} => true", a.join(", ")));
                }
                s.push_str(&format!(" | {} => false)", vec!["_"; sc.len()].join(", ")));
                Ok((s, T::Bool))
            }
            _ => self.ex_ext(e, expect, pre),
        }
    }

    pub(crate) fn scrutinee(&mut self, e: &Expr, pre: &mut Vec<Pre>) -> R<(Vec<String>, Vec<T>)> {
        match e {
            Expr::Tuple(t) => {
                let mut ls = vec![];
                let mut ts = vec![];
                for x in &t.elems {
                    let (l, ty) = self.ex(x, None, pre)?;
                    ls.push(l);
                    ts.push(ty);
                }
                Ok((ls, ts))
            }
            Expr::Paren(p) => self.scrutinee(&p.expr, pre),
            _ => {
                let (l, t) = self.ex(e, None, pre)?;
                Ok((vec![l], vec![t]))
            }
        }
    }

    pub(crate) fn pat(&mut self, p: &Pat, t: &T) -> R<Vec<String>> {
        match p {
            Pat::Wild(_) => Ok(vec!["_".into()]),
            // a capitalised identifier is a unit variant / constant (`None`, a glob-imported `Auto`), not a binder: extension
            Pat::Ident(i) if i.ident.to_string().starts_with(|c: char| c.is_uppercase()) => self.pat_ext(p, t),
            Pat::Ident(i) => {
                let n = i.ident.to_string();
                self.locals.insert(n.clone(), (lname(&n), t.clone()));
                Ok(vec![lname(&n)])
            }
            Pat::Path(pp) => match self.placement_variant(&segs(&pp.path), Some(t)) {
                Some((l, _)) if l.ends_with("auto") => Ok(vec![format!(".{}", &l["Placement.".len()..])]),
                _ => self.pat_ext(p, t),
            },
            Pat::TupleStruct(ts) => {
                let (l, pt) = match self.placement_variant(&segs(&ts.path), Some(t)) {
                    Some(x) => x,
                    None => return self.pat_ext(p, t),
                };
                if ts.elems.len() != 1 {
                    return Err("constructor pattern arity".into());
                }
                let inner = match (&pt, l.as_str()) {
                    (T::Placement(c), "Placement.line") => (**c).clone(),
                    _ => T::U16,
                };
                let subs = self.pat(&ts.elems[0], &inner)?;
                Ok(subs.into_iter().map(|s| format!(".{} {s}", &l["Placement.".len()..])).collect())
            }
            Pat::Or(o) => {
                let mut v = vec![];
                for c in &o.cases {
                    v.extend(self.pat(c, t)?);
                }
                Ok(v)
            }
            _ => self.pat_ext(p, t),
        }
    }
    /// alternatives, one pattern per scrutinee
    pub(crate) fn arm_pats(&mut self, p: &Pat, tys: &[T]) -> R<Vec<Vec<String>>> {
        match p {
            Pat::Or(o) => {
                let mut v = vec![];
                for c in &o.cases {
                    v.extend(self.arm_pats(c, tys)?);
                }
                Ok(v)
            }
            Pat::Tuple(tp) if tys.len() > 1 => {
                if tp.elems.len() != tys.len() {
                    return Err("tuple pattern arity".into());
                }
                let mut alts: Vec<Vec<String>> = vec![vec![]];
                for (sp, st) in tp.elems.iter().zip(tys) {
                    let subs = self.pat(sp, st)?;
                    alts = alts.iter().flat_map(|a| subs.iter().map(move |s| { let mut x = a.clone(); x.push(s.clone()); x })).collect();
                }
                Ok(alts)
            }
            Pat::Wild(_) => Ok(vec![vec!["_".to_string(); tys.len()]]),
            p if tys.len() == 1 => Ok(self.pat(p, &tys[0])?.into_iter().map(|s| vec![s]).collect()),
            _ => Err("unsupported pattern over a tuple".into()),
        }
    }

    /// `e` in tail position of a block whose value is wanted (function result or the value of a `let`)
    fn tail(&mut self, e: &Expr, expect: Option<&T>, out_ty: &mut Option<T>) -> R<S> {
        match e {
            Expr::Paren(p) => self.tail(&p.expr, expect, out_ty),
            Expr::Block(b) => self.block(&b.block.stmts, expect, out_ty),
            Expr::If(i) => {
                let mut pre = vec![];
                let (c, ct) = self.ex(&i.cond, None, &mut pre)?;
                if !matches!(ct, T::Prop | T::Bool) {
                    return Err("`if` condition".into());
                }
                let a = self.block(&i.then_branch.stmts, expect, out_ty)?;
                let b = self.tail(&i.else_branch.as_ref().ok_or("`if` without else as a value")?.1, expect, out_ty)?;
                Ok(wrap(pre, S::If(c, Box::new(a), Box::new(b))))
            }
            Expr::Macro(m) if m.mac.path.is_ident("panic") => {
                let msg: syn::LitStr = m.mac.parse_body().map_err(|_| "panic! with a non-literal message".to_string())?;
                Ok(S::Panic(msg.value()))
            }
            Expr::Match(m) => self.match_(m, expect, out_ty),
            Expr::Return(r) => self.tail(r.expr.as_ref().ok_or("return without value")?, expect, out_ty),
            _ => {
                let mut pre = vec![];
                let (v, t) = self.ex(e, expect, &mut pre)?;
                let t = if t == T::IntLit { expect.cloned().unwrap_or(T::IntLit) } else { t };
                let (v, t) = if t == T::Prop { (format!("decide ({v})"), T::Bool) } else { (v, t) };
                match out_ty {
                    None => *out_ty = Some(t),
                    Some(o) if *o == t || t == T::IntLit => {}
                    Some(o) if *o == T::IntLit => *out_ty = Some(t),
                    Some(o) => return Err(format!("branches have different types {:?} / {:?}", o, t)),
                }
                Ok(wrap(pre, S::Ret(v)))
            }
        }
    }

    fn match_(&mut self, m: &syn::ExprMatch, expect: Option<&T>, out_ty: &mut Option<T>) -> R<S> {
        // `x.cmp(&y)` with the three `Ordering` arms: an if-chain in source order
        if let Expr::MethodCall(mc) = &*m.expr {
            if mc.method == "cmp" && mc.args.len() == 1 {
                let mut pre = vec![];
                let (a, at) = self.ex(&mc.receiver, None, &mut pre)?;
                let (b, _) = self.ex(&mc.args[0], Some(&at), &mut pre)?;
                let mut arms = vec![];
                for arm in &m.arms {
                    let n = match &arm.pat {
                        Pat::Path(p) => segs(&p.path).last().unwrap().clone(),
                        _ => return Err("arm of a `cmp` match".into()),
                    };
                    let c = match n.as_str() {
                        "Greater" => format!("{a} > {b}"),
                        "Less" => format!("{a} < {b}"),
                        "Equal" => format!("{a} = {b}"),
                        o => return Err(format!("Ordering::{o}")),
                    };
                    arms.push((c, self.tail(&arm.body, expect, out_ty)?));
                }
                if arms.len() != 3 {
                    return Err("`cmp` match without exactly the three Ordering arms".into());
                }
                let (_, last) = arms.pop().unwrap();
                let mut s = last;
                for (c, b) in arms.into_iter().rev() {
                    s = S::If(c, Box::new(b), Box::new(s));
                }
                return Ok(wrap(pre, s));
            }
        }
        let mut pre = vec![];
        let (sc, tys) = self.scrutinee(&m.expr, &mut pre)?;
        // integer scrutinee with literal patterns: an if-chain
        if tys.len() == 1 && tys[0].is_int() {
            let mut arms = vec![];
            for arm in &m.arms {
                let c = match &arm.pat {
                    Pat::Lit(l) => Some(format!("{} = {}", sc[0], norm(&l.lit))),
                    Pat::Wild(_) => None,
                    _ => return Err("pattern over an integer".into()),
                };
                arms.push((c, self.tail(&arm.body, expect, out_ty)?));
            }
            let (lc, last) = arms.pop().ok_or("empty match")?;
            if lc.is_some() {
                return Err("integer match without a final wildcard".into());
            }
            let mut s = last;
            for (c, b) in arms.into_iter().rev() {
                s = S::If(c.ok_or("wildcard before the last arm")?, Box::new(b), Box::new(s));
            }
            return Ok(wrap(pre, s));
        }
        let mut translated = vec![];
        for arm in &m.arms {
            let saved = self.locals.clone();
            let alts = self.arm_pats(&arm.pat, &tys)?;
            let guard = match &arm.guard {
                Some((_, g)) => {
                    let mut gp = vec![];
                    let (c, _) = self.ex(g, None, &mut gp)?;
                    if !gp.is_empty() {
                        return Err("effectful guard".into());
                    }
                    Some(c)
                }
                None => None,
            };
            let body = self.tail(&arm.body, expect, out_ty)?;
            self.locals = saved;
            translated.push((alts, guard, body));
        }
        let mut after: Vec<(Vec<String>, S)> = vec![];
        for (alts, guard, body) in translated.into_iter().rev() {
            let body = match guard {
                None => body,
                Some(g) => {
                    let mut rest = after.clone();
                    rest.reverse();
                    S::If(g, Box::new(body), Box::new(S::Match(sc.clone(), rest)))
                }
            };
            for a in alts.into_iter().rev() {
                after.push((a, body.clone()));
            }
        }
        after.reverse();
        Ok(wrap(pre, S::Match(sc, after)))
    }

    /// `if c { a } else { b }` where `c` may be a short-circuiting `x || y` with checked operations in `y`:
    /// `y` (and its checked operations) is evaluated only when `x` is false
    fn cond_if(&mut self, c: &Expr, a: S, b: S) -> R<S> {
        match c {
            Expr::Paren(p) => self.cond_if(&p.expr, a, b),
            Expr::Binary(bin) if matches!(bin.op, BinOp::Or(_)) => {
                let inner = self.cond_if(&bin.right, a.clone(), b)?;
                self.cond_if(&bin.left, a, inner)
            }
            _ => {
                let mut pre = vec![];
                let (cl, ct) = self.ex(c, None, &mut pre)?;
                if !matches!(ct, T::Prop | T::Bool) {
                    return Err("`if` condition".into());
                }
                Ok(wrap(pre, S::If(cl, Box::new(a), Box::new(b))))
            }
        }
    }

    fn block(&mut self, stmts: &[Stmt], expect: Option<&T>, out_ty: &mut Option<T>) -> R<S> {
        let (st, rest) = stmts.split_first().ok_or("block without value")?;
        match st {
            Stmt::Item(Item::Use(u)) => {
                // `use X as GP;`
                if let syn::UseTree::Rename(r) = &u.tree {
                    self.aliases.insert(r.rename.to_string(), r.ident.to_string());
                }
                self.block(rest, expect, out_ty)
            }
            Stmt::Local(l) => {
                let name = match &l.pat {
                    Pat::Ident(i) => i.ident.to_string(),
                    _ => return Err("let pattern".into()),
                };
                let init = &l.init.as_ref().ok_or("let without value")?.expr;
                match &**init {
                    Expr::Match(_) | Expr::If(_) => {
                        let mut t = None;
                        let b = self.tail(init, None, &mut t)?;
                        self.locals.insert(name.clone(), (lname(&name), t.ok_or("untyped let")?));
                        let r = self.block(rest, expect, out_ty)?;
                        Ok(S::BindBlock(lname(&name), Box::new(b), Box::new(r)))
                    }
                    _ => {
                        let mut pre = vec![];
                        let (v, t) = self.ex(init, None, &mut pre)?;
                        self.locals.insert(name.clone(), (lname(&name), t));
                        let r = self.block(rest, expect, out_ty)?;
                        // a checked operation bound to a temporary: bind the source name directly
                        if let Some(Pre::Bind(x, e)) = pre.last() {
                            if *x == v {
                                let e = e.clone();
                                pre.pop();
                                return Ok(wrap(pre, S::Bind(lname(&name), e, Box::new(r))));
                            }
                        }
                        Ok(wrap(pre, S::Let(lname(&name), v, Box::new(r))))
                    }
                }
            }
            Stmt::Macro(m) if m.mac.path.is_ident("assert") => {
                let (c, msg) = m
                    .mac
                    .parse_body_with(|input: syn::parse::ParseStream| {
                        let e: Expr = input.parse()?;
                        let _: syn::Token![,] = input.parse()?;
                        let s: syn::LitStr = input.parse()?;
                        let _: Option<syn::Token![,]> = input.parse()?;
                        Ok((e, s))
                    })
                    .map_err(|e| e.to_string())?;
                let mut pre = vec![];
                let (cl, _) = self.ex(&c, None, &mut pre)?;
                let r = self.block(rest, expect, out_ty)?;
                Ok(wrap(pre, S::If(cl, Box::new(r), Box::new(S::Panic(msg.value())))))
            }
            // `if c { …; return e; }` followed by the rest of the block: the rest is the else branch
            Stmt::Expr(Expr::If(i), _) if !rest.is_empty() && i.else_branch.is_none() => {
                match i.then_branch.stmts.last() {
                    Some(Stmt::Expr(Expr::Return(_), _)) => {}
                    _ => return Err("`if` statement without else whose body does not end in `return`".into()),
                }
                let a = self.block(&i.then_branch.stmts, expect, out_ty)?;
                let b = self.block(rest, expect, out_ty)?;
                self.cond_if(&i.cond, a, b)
            }
            Stmt::Expr(e, None) if rest.is_empty() => self.tail(e, expect, out_ty),
            Stmt::Expr(Expr::Return(r), _) if rest.is_empty() => self.tail(r.expr.as_ref().ok_or("return without value")?, expect, out_ty),
            _ => Err(format!("unsupported statement `{}`", quote::quote!(#st))),
        }
    }
}

struct Target {
    file: &'static str,
    self_ty: &'static str,
    trait_: Option<&'static str>,
    func: &'static str,
    lean: &'static str,
    key: (&'static str, &'static str),
    required: bool,
}

const fn t(file: &'static str, self_ty: &'static str, trait_: Option<&'static str>, func: &'static str, lean: &'static str, key: (&'static str, &'static str), required: bool) -> Target {
    Target { file, self_ty, trait_, func, lean, key, required }
}

const CO: &str = "src/compute/grid/types/coordinates.rs";
const TC: &str = "src/compute/grid/types/grid_track_counts.rs";
const SG: &str = "src/style/grid.rs";

/// in dependency order
const TARGETS: &[Target] = &[
    t(CO, "GridLine", None, "as_i16", "GridLine.as_i16", ("GridLine", "as_i16"), true),
    t(CO, "GridLine", None, "into_origin_zero_line", "GridLine.into_origin_zero_line", ("GridLine", "into_origin_zero_line"), true),
    t(CO, "OriginZeroLine", Some("Add<u16>"), "add", "OriginZeroLine.add_u16", ("OriginZeroLine", "add_u16"), true),
    t(CO, "OriginZeroLine", Some("Sub<u16>"), "sub", "OriginZeroLine.sub_u16", ("OriginZeroLine", "sub_u16"), true),
    t(CO, "OriginZeroLine", Some("Add<OriginZeroLine>"), "add", "OriginZeroLine.add", ("OriginZeroLine", "add_OriginZeroLine"), false),
    t(CO, "OriginZeroLine", Some("Sub<OriginZeroLine>"), "sub", "OriginZeroLine.sub", ("OriginZeroLine", "sub_OriginZeroLine"), false),
    t(CO, "OriginZeroLine", None, "into_track_vec_index", "OriginZeroLine.into_track_vec_index", ("OriginZeroLine", "into_track_vec_index"), true),
    t(CO, "OriginZeroLine", None, "try_into_track_vec_index", "OriginZeroLine.try_into_track_vec_index", ("OriginZeroLine", "try_into_track_vec_index"), true),
    t(CO, "OriginZeroLine", None, "implied_negative_implicit_tracks", "OriginZeroLine.implied_negative_implicit_tracks", ("OriginZeroLine", "implied_negative_implicit_tracks"), true),
    t(CO, "OriginZeroLine", None, "implied_positive_implicit_tracks", "OriginZeroLine.implied_positive_implicit_tracks", ("OriginZeroLine", "implied_positive_implicit_tracks"), true),
    t(CO, "Line<OriginZeroLine>", None, "span", "Line_OriginZeroLine.span", ("Line<OriginZeroLine>", "span"), false),
    t(TC, "TrackCounts", None, "len", "TrackCounts.len", ("TrackCounts", "len"), true),
    t(TC, "TrackCounts", None, "implicit_start_line", "TrackCounts.implicit_start_line", ("TrackCounts", "implicit_start_line"), true),
    t(TC, "TrackCounts", None, "implicit_end_line", "TrackCounts.implicit_end_line", ("TrackCounts", "implicit_end_line"), true),
    t(TC, "TrackCounts", None, "oz_line_to_next_track", "TrackCounts.oz_line_to_next_track", ("TrackCounts", "oz_line_to_next_track"), true),
    t(TC, "TrackCounts", None, "track_to_prev_oz_line", "TrackCounts.track_to_prev_oz_line", ("TrackCounts", "track_to_prev_oz_line"), true),
    t(SG, "GridPlacement", None, "into_origin_zero_placement", "GridPlacement.into_origin_zero_placement", ("GridPlacement", "into_origin_zero_placement"), true),
    t(SG, "Line<GenericGridPlacement<T>>", None, "indefinite_span", "Line_GenericGridPlacement.indefinite_span", ("Line<GenericGridPlacement<T>>", "indefinite_span"), true),
    t(SG, "Line<GridPlacement>", None, "is_definite", "Line_GridPlacement.is_definite", ("Line<GridPlacement>", "is_definite"), true),
    t(SG, "Line<GridPlacement>", None, "into_origin_zero", "Line_GridPlacement.into_origin_zero", ("Line<GridPlacement>", "into_origin_zero"), true),
    t(SG, "Line<OriginZeroGridPlacement>", None, "is_definite", "Line_OriginZeroGridPlacement.is_definite", ("Line<OriginZeroGridPlacement>", "is_definite"), true),
    t(SG, "Line<OriginZeroGridPlacement>", None, "resolve_definite_grid_lines", "Line_OriginZeroGridPlacement.resolve_definite_grid_lines", ("Line<OriginZeroGridPlacement>", "resolve_definite_grid_lines"), true),
    t(SG, "Line<OriginZeroGridPlacement>", None, "resolve_indefinite_grid_tracks", "Line_OriginZeroGridPlacement.resolve_indefinite_grid_tracks", ("Line<OriginZeroGridPlacement>", "resolve_indefinite_grid_tracks"), true),
];

pub fn extract(repo: &str) -> Result<String, String> {
    extract_with_fns(repo).map(|(t, _)| t)
}

/// the generated text and the registry of translated functions (used by extract/src/placement.rs)
pub(crate) fn extract_with_fns(repo: &str) -> Result<(String, HashMap<(String, String), Sig>), String> {
    let env = CfgEnv::default_build();
    let mut files: HashMap<&str, syn::File> = HashMap::new();
    for f in [CO, TC, SG] {
        files.insert(f, parse_file(&format!("{repo}/{f}"))?);
    }
    // the shape of TrackCounts is part of the translation
    let mut counts_ok = false;
    for it in &files[TC].items {
        if let Item::Struct(s) = it {
            if s.ident == "TrackCounts" {
                let fs: Vec<String> = s.fields.iter().map(|f| format!("{}:{}", f.ident.as_ref().unwrap(), norm(&f.ty))).collect();
                counts_ok = fs == ["negative_implicit:u16", "explicit:u16", "positive_implicit:u16"];
            }
        }
    }
    if !counts_ok {
        return Err("struct TrackCounts changed (expected negative_implicit, explicit, positive_implicit : u16)".into());
    }
    let mut out = String::new();
    out.push_str("-- generated by tvextract from src/compute/grid/types/{coordinates,grid_track_counts}.rs, src/style/grid.rs — do not edit\n");
    out.push_str("-- TaffyVerif.Model.GridPlacement is imported for the TYPES `Outcome`, `Placement`, `TrackCounts` and the checked machine-integer\n");
    out.push_str("-- primitives `i16` / `u16` / `usize` only. Integers are `Int`; every arithmetic operation and every `as` cast is checked.\n");
    out.push_str("import TaffyVerif.Model.GridPlacement\n\nnamespace Gen.Grid\nopen GridPlacement (Outcome Placement TrackCounts i16 u16 usize)\n\n");
    let mut fns: HashMap<(String, String), Sig> = HashMap::new();
    let mut errors = vec![];
    for tg in TARGETS {
        let r = (|| -> R<(String, Sig)> {
            let file = &files[tg.file];
            for it in &file.items {
                let im = match it {
                    Item::Impl(im) if env.enabled(&im.attrs)? => im,
                    _ => continue,
                };
                if norm(&im.self_ty) != tg.self_ty || im.trait_.as_ref().map(|(_, p, _)| norm(p)) != tg.trait_.map(|s| s.to_string()) {
                    continue;
                }
                for ii in &im.items {
                    if let ImplItem::Fn(f) = ii {
                        if f.sig.ident == tg.func && env.enabled(&f.attrs)? {
                            return translate(&fns, tg, f);
                        }
                    }
                }
            }
            Err("not found in the source".into())
        })();
        match r {
            Ok((text, sig)) => {
                out.push_str(&text);
                fns.insert((tg.key.0.to_string(), tg.key.1.to_string()), sig);
            }
            Err(e) if tg.required => errors.push(format!("required function `{}` is outside the translated fragment: {e}", tg.lean)),
            Err(e) => out.push_str(&format!("-- not translated: {}: {}\n\n", tg.lean, e.replace('\n', " "))),
        }
    }
    if !errors.is_empty() {
        return Err(errors.join("\n"));
    }
    out.push_str("end Gen.Grid\n");
    Ok((out, fns))
}

fn translate(fns: &HashMap<(String, String), Sig>, tg: &Target, f: &syn::ImplItemFn) -> R<(String, Sig)> {
    let generic = tg.self_ty.contains("<T>");
    let self_ty = match tg.self_ty {
        "GridLine" => T::Gl,
        "OriginZeroLine" => T::Oz,
        "TrackCounts" => T::Counts,
        "GridPlacement" => T::Placement(Box::new(T::Gl)),
        "Line<OriginZeroLine>" => T::Line(Box::new(T::Oz)),
        "Line<GridPlacement>" => T::Line(Box::new(T::Placement(Box::new(T::Gl)))),
        // the generic impl is instantiated at origin-zero coordinates (the payload of `Line(_)` is never used by it)
        "Line<OriginZeroGridPlacement>" | "Line<GenericGridPlacement<T>>" => T::Line(Box::new(T::Placement(Box::new(T::Oz)))),
        o => return Err(format!("self type {o}")),
    };
    let mut cx = Cx { fns, self_ty: Some(self_ty.clone()), generic_coord: if generic { Some(T::Oz) } else { None }, locals: HashMap::new(), aliases: HashMap::new(), n: 0, ext: Default::default() };
    let mut binders = String::new();
    let mut params = vec![];
    let mut has_self = false;
    for a in &f.sig.inputs {
        match a {
            syn::FnArg::Receiver(_) => {
                has_self = true;
                cx.locals.insert("self".into(), ("self_".into(), self_ty.clone()));
                binders.push_str(&format!(" (self_ : {})", self_ty.lean().trim_start_matches('(').trim_end_matches(')')));
            }
            syn::FnArg::Typed(pt) => {
                let n = match &*pt.pat {
                    Pat::Ident(i) => i.ident.to_string(),
                    _ => return Err("parameter pattern".into()),
                };
                let ty = cx.ty(&pt.ty)?;
                cx.locals.insert(n.clone(), (lname(&n), ty.clone()));
                binders.push_str(&format!(" ({} : {})", lname(&n), ty.lean().trim_start_matches('(').trim_end_matches(')')));
                params.push(ty);
            }
        }
    }
    let ret = match &f.sig.output {
        syn::ReturnType::Type(_, t) => cx.ty(t)?,
        _ => return Err("no return type".into()),
    };
    let mut out_ty = None;
    let body = cx.block(&f.block.stmts, Some(&ret), &mut out_ty)?;
    match &out_ty {
        Some(o) if *o == ret || *o == T::IntLit => {}
        Some(T::Line(a)) if matches!((&**a, &ret), (T::Placement(_), T::Line(b)) if matches!(**b, T::Placement(_))) => {}
        o => return Err(format!("body has type {:?}, declared {:?}", o, ret)),
    }
    let monadic = body.effectful();
    let rt = ret.lean();
    let rt = rt.trim_start_matches('(').trim_end_matches(')');
    let text = if monadic {
        format!("/-- `{}::{}` -/\ndef {}{binders} : Outcome ({rt}) := do\n  {}\n\n", tg.self_ty, tg.func, tg.lean, body.render(2, true))
    } else {
        format!("/-- `{}::{}` (no checked operation inside: pure) -/\ndef {}{binders} : {rt} :=\n  {}\n\n", tg.self_ty, tg.func, tg.lean, body.render(2, false))
    };
    Ok((text, Sig { lean: format!("Gen.Grid.{}", tg.lean), self_ty: if has_self { Some(self_ty) } else { None }, params, ret, monadic }))
}
