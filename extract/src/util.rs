use std::collections::HashSet;

pub fn write_if_changed(path: &str, text: &str) {
    if let Ok(old) = std::fs::read_to_string(path) {
        if old == text {
            println!("unchanged {path}");
            return;
        }
    }
    std::fs::write(path, text).unwrap();
    println!("wrote {path}");
}

/// The cfg universe the sandbox compiles: 64-bit, default features of taffy.
pub struct CfgEnv {
    pub features: HashSet<&'static str>,
}
impl CfgEnv {
    pub fn default_build() -> Self {
        let features =
            ["std", "taffy_tree", "flexbox", "grid", "block_layout", "calc", "content_size", "detailed_layout_info", "alloc"].into_iter().collect();
        CfgEnv { features }
    }
    /// evaluates the `#[cfg(...)]` attributes of an item; `true` when the item is compiled
    pub fn enabled(&self, attrs: &[syn::Attribute]) -> Result<bool, String> {
        for a in attrs {
            if a.path().is_ident("cfg") {
                let meta: syn::Meta = a.parse_args().map_err(|e| e.to_string())?;
                if !self.eval(&meta)? {
                    return Ok(false);
                }
            }
        }
        Ok(true)
    }
    fn eval(&self, m: &syn::Meta) -> Result<bool, String> {
        match m {
            syn::Meta::Path(p) => {
                if p.is_ident("test") || p.is_ident("docsrs") || p.is_ident("taffy_verif") {
                    Ok(false)
                } else {
                    Err(format!("unknown cfg flag {}", quote::quote!(#p)))
                }
            }
            syn::Meta::NameValue(nv) => {
                let val = match &nv.value {
                    syn::Expr::Lit(syn::ExprLit { lit: syn::Lit::Str(s), .. }) => s.value(),
                    _ => return Err("cfg value not a string".into()),
                };
                if nv.path.is_ident("feature") {
                    Ok(self.features.contains(val.as_str()))
                } else if nv.path.is_ident("target_pointer_width") {
                    Ok(val == "64")
                } else {
                    Err(format!("unknown cfg key {}", quote::quote!(#nv)))
                }
            }
            syn::Meta::List(l) => {
                let items: syn::punctuated::Punctuated<syn::Meta, syn::Token![,]> =
                    l.parse_args_with(syn::punctuated::Punctuated::parse_terminated).map_err(|e| e.to_string())?;
                if l.path.is_ident("all") {
                    for i in &items {
                        if !self.eval(i)? {
                            return Ok(false);
                        }
                    }
                    Ok(true)
                } else if l.path.is_ident("any") {
                    for i in &items {
                        if self.eval(i)? {
                            return Ok(true);
                        }
                    }
                    Ok(false)
                } else if l.path.is_ident("not") {
                    let v: Vec<_> = items.iter().collect();
                    if v.len() != 1 {
                        return Err("not() arity".into());
                    }
                    Ok(!self.eval(v[0])?)
                } else {
                    Err(format!("unknown cfg combinator {}", quote::quote!(#l)))
                }
            }
        }
    }
}

pub fn parse_file(path: &str) -> Result<syn::File, String> {
    let src = std::fs::read_to_string(path).map_err(|e| format!("{path}: {e}"))?;
    syn::parse_file(&src).map_err(|e| format!("{path}: {e}"))
}
