//! Function-level translation, item walking and the per-file output accumulator.
use crate::expr::{Ctx, RetMode, R};
use crate::lean::{ident, AdtKind, FnSig, Ty, World};
use crate::util::CfgEnv;
use std::collections::HashMap;
use syn::{ImplItem, Item, Pat};

pub fn norm<T: quote::ToTokens>(t: &T) -> String {
    quote::quote!(#t).to_string().replace(' ', "")
}

pub struct ImplInfo<'s> {
    pub self_ty: String,
    pub trait_: Option<String>,
    pub generics: Vec<String>,
    /// the bounds of the first type parameter (`impl<T: TaffyZero> …`), as tokens
    pub bound: Option<proc_macro2::TokenStream>,
    pub items: &'s [ImplItem],
}

/// every cfg-enabled `impl` of a file (top level and inline modules named in `mods`)
pub fn impls<'s>(items: &'s [Item], env: &CfgEnv, mods: &[&str], out: &mut Vec<ImplInfo<'s>>) -> R<()> {
    for it in items {
        match it {
            Item::Impl(im) if env.enabled(&im.attrs)? => {
                let trait_ = im.trait_.as_ref().map(|(_, p, _)| norm(p));
                let generics = im
                    .generics
                    .params
                    .iter()
                    .filter_map(|g| match g {
                        syn::GenericParam::Type(t) => Some(t.ident.to_string()),
                        _ => None,
                    })
                    .collect();
                let bound = im.generics.params.iter().find_map(|g| match g {
                    syn::GenericParam::Type(t) => {
                        let b = &t.bounds;
                        Some(quote::quote!(#b))
                    }
                    _ => None,
                });
                out.push(ImplInfo { self_ty: norm(&im.self_ty), trait_, generics, bound, items: &im.items });
            }
            Item::Mod(m) if env.enabled(&m.attrs)? && mods.contains(&m.ident.to_string().as_str()) => {
                if let Some((_, sub)) = &m.content {
                    impls(sub, env, mods, out)?;
                }
            }
            _ => {}
        }
    }
    Ok(())
}

pub struct Plan<'s> {
    /// registry key: type head ("Cache", "Option", "f32", "" for free functions) and Rust name
    pub head: String,
    pub rust_name: String,
    /// Lean name relative to the file's namespace
    pub lean_rel: String,
    pub self_ty: Option<Ty>,
    pub generics: HashMap<String, Ty>,
    pub sig: &'s syn::Signature,
    pub block: &'s syn::Block,
    pub required: bool,
    /// see `Ctx::trunc_sub`
    pub trunc_sub: bool,
    pub ext: PlanExt,
}

/// one kind of interaction: a method of a tree trait or a call of an opaque closure parameter
#[derive(Clone, Debug)]
pub struct EffectSig {
    /// Lean constructor of the program type (its last argument is the continuation)
    pub ctor: String,
    pub params: Vec<Ty>,
    pub ret: Ty,
    /// the answer is a style seen through this trait (`get_core_container_style` ↦ `CoreStyle`)
    pub ret_view: Option<String>,
}

/// translation in interaction form: calls of the tree's trait methods and of opaque closure parameters become the
/// constructors of an interaction-program type (generated per module by `prog_inductive`, the shape of the hand-written
/// `ProgM`), in the order the Rust performs them
#[derive(Clone, Debug, Default)]
pub struct ProgPlan {
    /// the program type without its result type, e.g. `Gen.Tree.Prog α NodeId`, and its namespace, e.g. `Gen.Tree.Prog`
    /// (`<ns>.ret`, `<ns>.unreachable`, `<ns>.bind`, one constructor per interaction)
    pub ty_lean: String,
    pub ns_lean: String,
    /// type variables the program type mentions (`NodeId`)
    pub type_vars: Vec<String>,
    /// the parameter that is the tree (`tree`, or `self` in a provided method of a tree trait)
    pub tree_param: Option<String>,
    /// the generic type of the tree parameter (`Tree` in `tree: &mut Tree`)
    pub tree_generic: Option<String>,
    /// trait methods of the tree ↦ queries
    pub tree_methods: HashMap<String, EffectSig>,
    /// registry head under which provided methods of the tree traits are registered (`perform_child_layout`)
    pub tree_head: String,
    /// opaque closure parameters ↦ queries
    pub closures: HashMap<String, EffectSig>,
    /// closure parameters that take the tree as their first argument: sub-programs
    pub monadic_closures: Vec<String>,
}

#[derive(Clone, Debug, Default)]
pub struct PlanExt {
    /// closure parameters that are not translated (beside the name `calc`)
    pub dropped_params: Vec<String>,
    pub prog: Option<ProgPlan>,
    /// generic type parameters of the function that no instantiation is given for stay abstract (`{R : Type}`)
    pub type_vars: bool,
    /// appended to the generated doc comment
    pub doc: Option<String>,
    /// a style seen through a style trait also has the getters of its supertrait `CoreStyle` (the caller has checked the
    /// `trait X: CoreStyle` declaration) — absmod.rs
    pub view_core: bool,
    /// a statement `if [let PAT =] e { … }` without `else` whose block only updates ONE outer local `x` is `let x := if/match … | _ => x`
    /// instead of a copy of the rest of the function in each branch — absmod.rs
    pub join_ifs: bool,
}

pub struct Out {
    pub ns: String,
    pub text: String,
    pub errors: Vec<String>,
    pub translated: Vec<String>,
    pub skipped: Vec<(String, String)>,
}

impl Out {
    pub fn new(ns: &str, source: &str, imports: &[&str]) -> Out {
        let mut text = format!("-- generated by tvextract from {source} (default features) — do not edit\n");
        for i in imports {
            text.push_str(&format!("import {i}\n"));
        }
        text.push_str(&format!("\nnamespace {ns}\n\n"));
        Out { ns: ns.to_string(), text, errors: vec![], translated: vec![], skipped: vec![] }
    }
    pub fn comment(&mut self, s: &str) {
        for l in s.lines() {
            self.text.push_str(&format!("-- {l}\n"));
        }
    }
    pub fn finish(mut self, required: &[&str]) -> R<String> {
        for r in required {
            if !self.translated.iter().any(|t| t == r) && !self.errors.iter().any(|e| e.contains(&format!("`{r}`"))) {
                self.errors.push(format!("required item `{r}` is missing from the source"));
            }
        }
        if !self.errors.is_empty() {
            return Err(self.errors.join("\n"));
        }
        self.text.push_str(&format!("end {}\n", self.ns));
        Ok(self.text)
    }

    fn fail(&mut self, name: &str, required: bool, why: String) {
        if required {
            self.errors.push(format!("required function `{name}` is outside the translated fragment: {why}"));
        } else {
            self.text.push_str(&format!("-- not translated: {name}: {}\n\n", why.replace('\n', " ")));
            self.skipped.push((name.to_string(), why));
        }
    }

    /// translate one function, emit it and register it in the world
    pub fn function(&mut self, w: &mut World, p: Plan) {
        match translate_fn(w, &p, &self.ns) {
            Ok((text, sig)) => {
                self.text.push_str(&text);
                self.translated.push(p.lean_rel.clone());
                w.add_fn(&p.head, &p.rust_name, sig);
            }
            Err(e) => self.fail(&p.lean_rel, p.required, e),
        }
    }

    /// translate a constant (`const NAME: T = e;`)
    pub fn constant(&mut self, w: &mut World, head: &str, rust_name: &str, key_name: &str, lean_rel: &str, self_ty: Option<Ty>, generics: HashMap<String, Ty>, ty: &syn::Type, e: &syn::Expr, required: bool) {
        let r = (|| -> R<(String, Ty, bool)> {
            let mut cx = Ctx::new(w, self_ty.clone(), generics.clone());
            let t = cx.rust_ty(ty)?;
            let (l, lt) = cx.expr(e, &t)?;
            if !t.compatible(&lt) {
                return Err(format!("value of type {:?}, declared {:?}", lt, t));
            }
            let t = t.join(&lt);
            let alpha = w.mentions_alpha(&t);
            let binders = if alpha { " {α : Type} [Num α]" } else { "" };
            Ok((format!("/-- `{}{rust_name}` -/\ndef {lean_rel}{binders} : {} :=\n  {}\n\n", if head.is_empty() { String::new() } else { format!("{head}::") }, strip_parens(&w.lean_ty(&t)), l.render(2, true)), t, alpha))
        })();
        match r {
            Ok((text, t, alpha)) => {
                self.text.push_str(&text);
                self.translated.push(lean_rel.to_string());
                w.consts.insert((head.to_string(), key_name.to_string()), (format!("{}.{lean_rel}", self.ns), t, alpha));
            }
            Err(e) => self.fail(lean_rel, required, e),
        }
    }
}

/// what a closure parameter stands for
enum ClosureRole {
    /// not translated (`calc`)
    Dropped,
    /// every call is a query of the interaction program (the user's measure function)
    Query,
    /// takes the tree as its first argument: a sub-program (`compute_uncached`)
    SubProgram,
    /// a pure function value (`Size::map`'s `f`)
    Pure,
}

fn strip_ref(t: &syn::Type) -> &syn::Type {
    match t {
        syn::Type::Reference(r) => strip_ref(&r.elem),
        syn::Type::Paren(p) => strip_ref(&p.elem),
        syn::Type::Group(p) => strip_ref(&p.elem),
        t => t,
    }
}

fn fn_family<'s>(bounds: impl Iterator<Item = &'s syn::TypeParamBound>) -> Option<&'s syn::ParenthesizedGenericArguments> {
    for b in bounds {
        if let syn::TypeParamBound::Trait(tb) = b {
            let seg = tb.path.segments.last().unwrap();
            if ["Fn", "FnOnce", "FnMut"].contains(&seg.ident.to_string().as_str()) {
                if let syn::PathArguments::Parenthesized(pa) = &seg.arguments {
                    return Some(pa);
                }
            }
        }
    }
    None
}

/// the names of the traits in `impl A + B` (behind references)
pub fn impl_traits(t: &syn::Type) -> Option<Vec<String>> {
    match strip_ref(t) {
        syn::Type::ImplTrait(it) => Some(
            it.bounds
                .iter()
                .filter_map(|b| match b {
                    syn::TypeParamBound::Trait(tb) => Some(tb.path.segments.last().unwrap().ident.to_string()),
                    _ => None,
                })
                .collect(),
        ),
        _ => None,
    }
}

/// the `Fn*(A, B) -> R` bound of a parameter type: `impl Fn(..) -> ..` in parameter position, or a generic `F` bounded inline or
/// in the where clause
pub fn fn_bound<'s>(sig: &'s syn::Signature, ty: &'s syn::Type) -> Option<&'s syn::ParenthesizedGenericArguments> {
    match strip_ref(ty) {
        syn::Type::ImplTrait(it) => fn_family(it.bounds.iter()),
        syn::Type::Path(p) if p.qself.is_none() && p.path.get_ident().is_some() => {
            let g = p.path.get_ident().unwrap();
            for gp in &sig.generics.params {
                if let syn::GenericParam::Type(tp) = gp {
                    if tp.ident == *g {
                        if let Some(x) = fn_family(tp.bounds.iter()) {
                            return Some(x);
                        }
                    }
                }
            }
            if let Some(wc) = &sig.generics.where_clause {
                for pr in &wc.predicates {
                    if let syn::WherePredicate::Type(pt) = pr {
                        if norm(&pt.bounded_ty) == g.to_string() {
                            if let Some(x) = fn_family(pt.bounds.iter()) {
                                return Some(x);
                            }
                        }
                    }
                }
            }
            None
        }
        _ => None,
    }
}

/// the style traits whose getters `Generated/Style.lean` translates for `Style`
pub const STYLE_TRAITS: &[&str] = &["CoreStyle", "BlockContainerStyle", "BlockItemStyle", "FlexboxContainerStyle", "FlexboxItemStyle", "GridContainerStyle", "GridItemStyle"];

pub fn translate_fn(w: &World, p: &Plan, ns: &str) -> R<(String, FnSig)> {
    let mut cx = Ctx::new(w, p.self_ty.clone(), p.generics.clone());
    cx.trunc_sub = p.trunc_sub;
    cx.prog = p.ext.prog.clone();
    cx.view_core = p.ext.view_core;
    cx.join_ifs = p.ext.join_ifs;
    let prog = p.ext.prog.as_ref();
    // generic type parameters of the function itself: closure types (`F: Fn(..) -> ..`) and the tree's type are not type
    // variables of the Lean definition; anything else that the caller has not instantiated stays abstract
    for g in &p.sig.generics.params {
        if let syn::GenericParam::Type(t) = g {
            let name = t.ident.to_string();
            if p.generics.contains_key(&name) {
                continue;
            }
            let as_ty: syn::Type = syn::parse_str(&name).map_err(|e| e.to_string())?;
            if fn_bound(p.sig, &as_ty).is_some() {
                continue;
            }
            if prog.and_then(|pp| pp.tree_generic.as_ref()) == Some(&name) {
                continue;
            }
            if !p.ext.type_vars {
                return Err(format!("generic parameter {}", t.ident));
            }
            cx.generics.insert(name.clone(), Ty::Var(name));
        }
    }
    let mut params: Vec<(String, Ty)> = vec![];
    let mut binders = String::new();
    let mut has_self = false;
    let mut mut_self = false;
    let mut dropped = 0usize;
    let mut mut_first = false;
    let prog_ty = |w: &World, pp: &ProgPlan, t: &Ty| format!("{} {}", pp.ty_lean, w.lean_ty(t));
    for a in &p.sig.inputs {
        match a {
            syn::FnArg::Receiver(r) => {
                if prog.and_then(|pp| pp.tree_param.as_deref()) == Some("self") {
                    // a provided method of a tree trait: `self` is the tree
                    continue;
                }
                let st = p.self_ty.clone().ok_or("receiver outside an impl")?;
                has_self = true;
                mut_self = r.reference.is_some() && r.mutability.is_some();
                cx.locals.insert("self".into(), (ident("self"), st.clone()));
                binders.push_str(&format!(" ({} : {})", ident("self"), strip_parens(&w.lean_ty(&st))));
            }
            syn::FnArg::Typed(t) => {
                let n = match &*t.pat {
                    Pat::Ident(i) => i.ident.to_string(),
                    _ => return Err("parameter pattern".into()),
                };
                // the tree
                if prog.and_then(|pp| pp.tree_param.as_ref()) == Some(&n) {
                    continue;
                }
                // closures
                if let Some(pa) = fn_bound(p.sig, &t.ty) {
                    let role = if n == "calc" || p.ext.dropped_params.contains(&n) {
                        ClosureRole::Dropped
                    } else if prog.map(|pp| pp.closures.contains_key(&n)).unwrap_or(false) {
                        ClosureRole::Query
                    } else if prog.map(|pp| pp.monadic_closures.contains(&n)).unwrap_or(false) {
                        ClosureRole::SubProgram
                    } else {
                        ClosureRole::Pure
                    };
                    match role {
                        ClosureRole::Dropped => {
                            dropped += 1;
                            cx.dropped.push(n);
                        }
                        ClosureRole::Query => {}
                        ClosureRole::SubProgram => {
                            let pp = prog.unwrap();
                            let mut ins: Vec<&syn::Type> = pa.inputs.iter().collect();
                            if ins.is_empty() || Some(norm(strip_ref(ins[0]))) != pp.tree_generic.clone() {
                                return Err(format!("closure parameter `{n}`: the first argument is not the tree"));
                            }
                            ins.remove(0);
                            let tys = ins.iter().map(|t| cx.rust_ty(t)).collect::<R<Vec<_>>>()?;
                            let ret = match &pa.output {
                                syn::ReturnType::Default => Ty::Unit,
                                syn::ReturnType::Type(_, t) => cx.rust_ty(t)?,
                            };
                            let mut lt: Vec<String> = tys.iter().map(|t| w.lean_ty(t)).collect();
                            lt.push(prog_ty(w, pp, &ret));
                            binders.push_str(&format!(" ({} : {})", ident(&n), lt.join(" → ")));
                            cx.sub_programs.insert(n.clone(), (ident(&n), tys, ret));
                        }
                        ClosureRole::Pure => {
                            if dropped > 0 {
                                return Err("translated parameter after an untranslated one".into());
                            }
                            let tys = pa.inputs.iter().map(|t| cx.rust_ty(t)).collect::<R<Vec<_>>>()?;
                            let ret = match &pa.output {
                                syn::ReturnType::Default => Ty::Unit,
                                syn::ReturnType::Type(_, t) => cx.rust_ty(t)?,
                            };
                            let ty = Ty::Fn(tys, Box::new(ret));
                            cx.locals.insert(n.clone(), (ident(&n), ty.clone()));
                            binders.push_str(&format!(" ({} : {})", ident(&n), strip_parens(&w.lean_ty(&ty))));
                            params.push((n, ty));
                        }
                    }
                    continue;
                }
                // `&impl CoreStyle`: the getters of that trait as translated for `Style`
                let ty = match impl_traits(&t.ty) {
                    Some(trs) if trs.len() == 1 && STYLE_TRAITS.contains(&trs[0].as_str()) => {
                        cx.views.insert(n.clone(), trs[0].clone());
                        Ty::adt("Style", vec![])
                    }
                    Some(_) => return Err(format!("parameter `{n}` of `impl Trait` type")),
                    None => cx.rust_ty(&t.ty)?,
                };
                if dropped > 0 {
                    return Err("translated parameter after an untranslated one".into());
                }
                if ty.has_unknown() {
                    return Err(format!("parameter `{n}`: type not fully determined"));
                }
                if let syn::Type::Reference(r) = &*t.ty {
                    if r.mutability.is_some() {
                        if !params.is_empty() || has_self || !matches!(p.sig.output, syn::ReturnType::Default) || prog.is_some() {
                            return Err(format!("`&mut` parameter `{n}` (only a first `&mut` parameter of a function returning `()` is in the fragment)"));
                        }
                        mut_first = true;
                        cx.mut_param = Some(n.clone());
                    }
                }
                cx.locals.insert(n.clone(), (ident(&n), ty.clone()));
                binders.push_str(&format!(" ({} : {})", ident(&n), strip_parens(&w.lean_ty(&ty))));
                params.push((n, ty));
            }
        }
    }
    let ret = match &p.sig.output {
        syn::ReturnType::Default => Ty::Unit,
        syn::ReturnType::Type(_, t) => cx.rust_ty(t)?,
    };
    if ret.has_unknown() {
        return Err("return type not fully determined".into());
    }
    cx.ret_ty = ret.clone();
    cx.ret = match (mut_self || mut_first, &ret) {
        (false, _) => RetMode::Plain,
        (true, Ty::Unit) => RetMode::MutSelfUnit,
        (true, _) => RetMode::MutSelfVal,
    };
    if prog.is_some() && cx.ret != RetMode::Plain {
        return Err("`&mut self` method in interaction form".into());
    }
    let lean_ret = match cx.ret {
        RetMode::Plain => ret.clone(),
        RetMode::MutSelfUnit if mut_first => params[0].1.clone(),
        RetMode::MutSelfUnit => p.self_ty.clone().unwrap(),
        RetMode::MutSelfVal => Ty::Tuple(vec![p.self_ty.clone().unwrap(), ret.clone()]),
    };
    let body = cx.body(p.block)?;
    let mut alpha = w.mentions_alpha(&lean_ret) || params.iter().any(|(_, t)| w.mentions_alpha(t)) || prog.is_some();
    if has_self {
        alpha = alpha || w.mentions_alpha(p.self_ty.as_ref().unwrap());
    }
    let mut tvars = vec![];
    if has_self {
        p.self_ty.as_ref().unwrap().vars(&mut tvars);
    }
    params.iter().for_each(|(_, t)| t.vars(&mut tvars));
    lean_ret.vars(&mut tvars);
    if let Some(pp) = prog {
        for v in &pp.type_vars {
            if !tvars.contains(v) {
                tvars.push(v.clone());
            }
        }
    }
    let mut ab = String::new();
    for v in &tvars {
        ab.push_str(&format!(" {{{v} : Type}}"));
    }
    if alpha {
        ab.push_str(" {α : Type} [Num α]");
    }
    let mut doc = format!("`{}{}`", if p.head.is_empty() { String::new() } else { format!("{}::", p.head) }, p.rust_name);
    if dropped > 0 {
        doc.push_str(" (without the `calc` argument)");
    }
    if let Some(d) = &p.ext.doc {
        doc.push_str(d);
    }
    if cx.used_trunc_sub {
        doc.push_str(" — `usize - usize` is translated as truncated subtraction (`Gen.usizeSubTrunc`): equal to the Rust value wherever no underflow occurs (Rust panics in debug builds / wraps in release builds there)");
    }
    let ret_text = match prog {
        Some(pp) => prog_ty(w, pp, &lean_ret),
        None => strip_parens(&w.lean_ty(&lean_ret)),
    };
    let text = format!("/-- {doc} -/\ndef {}{ab}{binders} : {} :=\n  {}\n\n", p.lean_rel, ret_text, body.render(2, true));
    let sig = FnSig {
        lean: format!("{ns}.{}", p.lean_rel),
        self_ty: if has_self { p.self_ty.clone() } else { None },
        params,
        ret: lean_ret,
        alpha,
        mut_self,
        dropped,
        mut_first,
        prog: prog.is_some(),
    };
    Ok((text, sig))
}

/// the interaction-program type of one module: `ret`, `unreachable` (`unreachable!()`), one constructor per interaction
/// (arguments of the call, then the continuation on the answer), and `bind`.
/// `params`: the type parameters, e.g. `[("α", "Type"), ("NodeId", "Type")]`; `ctors`: (name, named argument types, answer type)
pub fn prog_inductive(w: &World, doc: &str, params: &[&str], ctors: &[(String, Vec<(String, Ty)>, Ty)]) -> String {
    let pb: String = params.iter().map(|p| format!(" ({p} : Type)")).collect();
    let pi: String = params.iter().map(|p| format!(" {{{p} : Type}}")).collect();
    let pa: String = params.iter().map(|p| format!(" {p}")).collect();
    let mut t = format!("/-- {doc} -/\ninductive Prog{pb} (β : Type) where\n  | ret (b : β)\n  | unreachable\n");
    for (n, ps, r) in ctors {
        let b: String = ps.iter().map(|(pn, pt)| format!(" ({} : {})", ident(pn), strip_parens(&w.lean_ty(pt)))).collect();
        t.push_str(&format!("  | {}{b} (k : {} → Prog{pa} β)\n", ident(n), w.lean_ty(r)));
    }
    t.push_str(&format!(
        "\n/-- sequencing: run the first program, then the second on its result (a call of a provided trait method, or of a closure that takes the tree) -/\ndef Prog.bind{pi} {{β γ : Type}} : Prog{pa} β → (β → Prog{pa} γ) → Prog{pa} γ\n  | .ret b, f => f b\n  | .unreachable, _ => .unreachable\n"
    ));
    for (n, ps, _) in ctors {
        let args: String = ps.iter().map(|(pn, _)| format!(" {}", ident(pn))).collect();
        t.push_str(&format!("  | .{}{args} k, f => .{}{args} (fun a => Prog.bind (k a) f)\n", ident(n), ident(n)));
    }
    t.push('\n');
    t
}

pub fn strip_parens(s: &str) -> String {
    if s.starts_with('(') && s.ends_with(')') && !s.contains('×') {
        s[1..s.len() - 1].to_string()
    } else {
        s.to_string()
    }
}

/// compare a Rust `struct`/`enum` definition with the registry entry of the Lean type it is mapped to
pub fn check_adt(w: &World, items: &[Item], env: &CfgEnv, name: &str, want_partial_eq: bool) -> R<()> {
    let adt = w.adt(name).ok_or(format!("no registry entry for {name}"))?;
    for it in items {
        match (it, &adt.kind) {
            (Item::Struct(s), AdtKind::Struct(fields)) if s.ident == name => {
                let mut generics: HashMap<String, Ty> = HashMap::new();
                for (i, g) in s.generics.type_params().enumerate() {
                    generics.insert(g.ident.to_string(), Ty::Param(i));
                }
                let cx = Ctx::new(w, None, generics);
                let mut got = vec![];
                for f in &s.fields {
                    if env.enabled(&f.attrs)? {
                        let n = f.ident.as_ref().ok_or("tuple struct")?.to_string();
                        got.push((n, cx.rust_ty(&f.ty)?));
                    }
                }
                let want: Vec<(String, Ty)> = fields.iter().map(|f| (f.rust.clone(), f.ty.clone())).collect();
                if got.len() != want.len() || got.iter().zip(&want).any(|(a, b)| a.0 != b.0 || !a.1.compatible(&b.1)) {
                    return Err(format!("struct {name} changed: source has {:?}, the Lean type has {:?}", got, want));
                }
                return Ok(());
            }
            (Item::Enum(e), AdtKind::Enum(vars)) if e.ident == name => {
                let cx = Ctx::new(w, None, HashMap::new());
                let mut got = vec![];
                for v in &e.variants {
                    if env.enabled(&v.attrs)? {
                        let args = v.fields.iter().map(|f| cx.rust_ty(&f.ty)).collect::<R<Vec<_>>>()?;
                        got.push((v.ident.to_string(), args));
                    }
                }
                let want: Vec<(String, Vec<Ty>)> = vars.iter().map(|v| (v.rust.clone(), v.args.clone())).collect();
                if got != want {
                    return Err(format!("enum {name} changed: source has {:?}, the Lean type has {:?}", got, want));
                }
                if want_partial_eq {
                    let derives = e.attrs.iter().filter(|a| a.path().is_ident("derive")).map(|a| norm(a)).collect::<Vec<_>>().join(" ");
                    if !derives.contains("PartialEq") {
                        return Err(format!("enum {name} no longer derives PartialEq (its `==` is translated as the derived one)"));
                    }
                }
                return Ok(());
            }
            _ => {}
        }
    }
    Err(format!("definition of {name} not found"))
}

/// translate the functions and constants of one `impl` block
pub fn impl_items(out: &mut Out, w: &mut World, info: &ImplInfo, env: &CfgEnv, head: &str, self_ty: Option<Ty>, generics: &HashMap<String, Ty>, prefix: &str, required: &[&str], skip: &[&str]) -> R<()> {
    for ii in info.items {
        match ii {
            ImplItem::Fn(f) if env.enabled(&f.attrs)? => {
                let name = f.sig.ident.to_string();
                if skip.contains(&name.as_str()) {
                    continue;
                }
                let lean_rel = format!("{prefix}{}", ident(&name));
                let req = required.contains(&lean_rel.as_str());
                out.function(w, Plan { head: head.to_string(), rust_name: name, lean_rel, self_ty: self_ty.clone(), generics: generics.clone(), sig: &f.sig, block: &f.block, required: req, trunc_sub: false, ext: Default::default() });
            }
            ImplItem::Const(c) if env.enabled(&c.attrs)? => {
                let name = c.ident.to_string();
                if skip.contains(&name.as_str()) {
                    continue;
                }
                let lean_rel = format!("{prefix}{name}");
                let req = required.contains(&lean_rel.as_str());
                out.constant(w, head, &name, &name, &lean_rel, self_ty.clone(), generics.clone(), &c.ty, &c.expr, req);
            }
            _ => {}
        }
    }
    Ok(())
}

/// translate the free functions of a file that are named in `names` (in source order)
pub fn free_fns(out: &mut Out, w: &mut World, items: &[Item], env: &CfgEnv, names: &[&str], required: &[&str], trunc_sub: &[&str]) -> R<()> {
    for it in items {
        if let Item::Fn(f) = it {
            let name = f.sig.ident.to_string();
            if !env.enabled(&f.attrs)? || !names.contains(&name.as_str()) {
                continue;
            }
            let req = required.contains(&name.as_str());
            let ts = trunc_sub.contains(&name.as_str());
            out.function(w, Plan { head: String::new(), rust_name: name.clone(), lean_rel: ident(&name), self_ty: None, generics: HashMap::new(), sig: &f.sig, block: &f.block, required: req, trunc_sub: ts, ext: Default::default() });
        }
    }
    Ok(())
}

/// `pub type A = B;` must be present in the file; registers the alias
pub fn check_alias(w: &mut World, items: &[Item], alias: &str, target: &str) -> R<()> {
    for it in items {
        if let Item::Type(t) = it {
            if t.ident == alias {
                if norm(&t.ty) == target && t.generics.params.is_empty() {
                    w.aliases.insert(alias.to_string(), target.to_string());
                    return Ok(());
                }
                return Err(format!("type alias {alias} is no longer `{target}` (it is `{}`)", norm(&t.ty)));
            }
        }
    }
    Err(format!("type alias {alias} not found"))
}
