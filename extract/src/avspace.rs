//! src/style/available_space.rs  →  Generated/AvailableSpace.lean
use crate::emit::{check_adt, impl_items, impls, ImplInfo, Out};
use crate::lean::{Ty, World};
use crate::util::{parse_file, CfgEnv};
use std::collections::HashMap;
use syn::ImplItem;

pub const REQUIRED: &[&str] = &["is_roughly_equal", "into_option", "maybe_set", "is_definite", "unwrap_or", "TaffyMaxContent_MAX_CONTENT", "Size.TaffyMaxContent_MAX_CONTENT", "map_definite_value", "from_f32", "from_option"];

/// the associated constants of one `impl Trait for X` block, registered as `Trait::NAME`
fn trait_consts(out: &mut Out, w: &mut World, info: &ImplInfo, env: &CfgEnv, head: &str, tr: &str, prefix: &str, self_ty: Ty, generics: &HashMap<String, Ty>) -> Result<(), String> {
    for ii in info.items {
        if let ImplItem::Const(c) = ii {
            if env.enabled(&c.attrs)? {
                let name = c.ident.to_string();
                let lean_rel = format!("{prefix}{tr}_{name}");
                let req = REQUIRED.contains(&lean_rel.as_str());
                out.constant(w, head, &format!("<{tr}>::{name}"), &format!("{tr}::{name}"), &lean_rel, Some(self_ty.clone()), generics.clone(), &c.ty, &c.expr, req);
            }
        }
    }
    Ok(())
}

pub fn extract(repo: &str, w: &mut World) -> Result<String, String> {
    let file = parse_file(&format!("{repo}/src/style/available_space.rs"))?;
    let env = CfgEnv::default_build();
    // `==` on AvailableSpace is translated as the derived PartialEq (Gen.avEq)
    check_adt(w, &file.items, &env, "AvailableSpace", true)?;
    let mut out = Out::new("Gen.AvailableSpace", "src/style/available_space.rs", &["TaffyVerif.Generated.Prelude", "TaffyVerif.Generated.Sys"]);
    let mut v = vec![];
    impls(&file.items, &env, &[], &mut v)?;
    for info in &v {
        if info.trait_.is_none() && info.self_ty == "AvailableSpace" {
            impl_items(&mut out, w, info, &env, "AvailableSpace", Some(Ty::adt("AvailableSpace", vec![])), &HashMap::new(), "", REQUIRED, &[])?;
        }
        if info.trait_.is_none() && info.self_ty == "Size<AvailableSpace>" {
            let st = Ty::adt("Size", vec![Ty::adt("AvailableSpace", vec![])]);
            impl_items(&mut out, w, info, &env, "Size", Some(st), &HashMap::new(), "Size.", &[], &[])?;
        }
    }
    // `impl From<f32> for AvailableSpace` / `impl From<Option<f32>> for AvailableSpace` (`known.map(AvailableSpace::from)`: the argument type
    // selects the impl)
    for info in &v {
        let suffix = match (info.self_ty.as_str(), info.trait_.as_deref()) {
            ("AvailableSpace", Some("From<f32>")) => "f32",
            ("AvailableSpace", Some("From<Option<f32>>")) => "option",
            _ => continue,
        };
        for ii in info.items {
            if let ImplItem::Fn(ff) = ii {
                if ff.sig.ident == "from" {
                    let lean_rel = format!("from_{suffix}");
                    let req = REQUIRED.contains(&lean_rel.as_str());
                    out.function(w, crate::emit::Plan { head: "AvailableSpace".into(), rust_name: "from".into(), lean_rel, self_ty: Some(Ty::adt("AvailableSpace", vec![])), generics: HashMap::new(), sig: &ff.sig, block: &ff.block, required: req, trunc_sub: false, ext: Default::default() });
                }
            }
        }
    }
    // `TaffyMaxContent` / `TaffyMinContent` for `AvailableSpace`, and the `Size<T>` impl of src/style_helpers.rs at `T = AvailableSpace`
    // (`LayoutInput::HIDDEN` uses `Size::MAX_CONTENT`)
    let av = Ty::adt("AvailableSpace", vec![]);
    for info in &v {
        if let (Some(tr), "AvailableSpace") = (info.trait_.as_deref(), info.self_ty.as_str()) {
            if tr == "TaffyMaxContent" || tr == "TaffyMinContent" {
                trait_consts(&mut out, w, info, &env, "AvailableSpace", tr, "", av.clone(), &HashMap::new())?;
            }
        }
    }
    let sh = parse_file(&format!("{repo}/src/style_helpers.rs"))?;
    let mut v2 = vec![];
    impls(&sh.items, &env, &[], &mut v2)?;
    let g: HashMap<String, Ty> = [("T".to_string(), av.clone())].into_iter().collect();
    for info in &v2 {
        if let (Some(tr), "Size<T>") = (info.trait_.as_deref(), info.self_ty.as_str()) {
            if tr == "TaffyMaxContent" || tr == "TaffyMinContent" {
                trait_consts(&mut out, w, info, &env, "Size", tr, "Size.", Ty::adt("Size", vec![av.clone()]), &g)?;
            }
        }
    }
    out.finish(REQUIRED)
}
