//! src/style/available_space.rs  →  Generated/AvailableSpace.lean
use crate::emit::{check_adt, impl_items, impls, Out};
use crate::lean::{Ty, World};
use crate::util::{parse_file, CfgEnv};
use std::collections::HashMap;

pub const REQUIRED: &[&str] = &["is_roughly_equal", "into_option", "maybe_set", "is_definite", "unwrap_or"];

pub fn extract(repo: &str, w: &mut World) -> Result<String, String> {
    let file = parse_file(&format!("{repo}/src/style/available_space.rs"))?;
    let env = CfgEnv::default_build();
    // `==` on AvailableSpace is translated as the derived PartialEq (Gen.avEq)
    check_adt(w, &file.items, &env, "AvailableSpace", true)?;
    let mut out = Out::new("Gen.AvailableSpace", "src/style/available_space.rs", &["TaffyVerif.Generated.Prelude", "TaffyVerif.Generated.Sys"]);
    let mut v = vec![];
    impls(&file.items, &env, &[], &mut v)?;
    for info in &v {
        if info.trait_.is_none() && info.self_ty == "AvailableSpace" {
            impl_items(&mut out, w, info, &env, "AvailableSpace", Some(Ty::adt("AvailableSpace", vec![])), &HashMap::new(), "", REQUIRED, &[])?;
        }
        if info.trait_.is_none() && info.self_ty == "Size<AvailableSpace>" {
            let st = Ty::adt("Size", vec![Ty::adt("AvailableSpace", vec![])]);
            impl_items(&mut out, w, info, &env, "Size", Some(st), &HashMap::new(), "Size.", &[], &[])?;
        }
    }
    out.finish(REQUIRED)
}
